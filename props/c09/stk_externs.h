/* what the text lowered from stack.cc calls but does not contain */
#define IT_PREINC(pit) (++*(pit), (pit))
#define IT_DEREF(it) (it)
#define IT_NE(a, b) ((_Bool)((a) != (b)))
#define IT_EQ(a, b) ((_Bool)((a) == (b)))
#define UPTR_IS_NULL(p, n) ((_Bool)((p) == 0))
#define UPTR_NOT_NULL(p, n) ((_Bool)((p) != 0))
/* Model of the virtual value::cmp (TRUSTED): values of different types do not compare (fail); values
   of one type are totally ordered by an abstract key.  The key is carried in the m_pos field of the
   value object, which the real cmp implementations do not look at. */
static inline cmp_result value_cmp_model(const zw_value *a, const zw_value *b)
{
  if (a->m_type.m_code != b->m_type.m_code)
    return cmp_result__fail;
  if (a->m_pos < b->m_pos)
    return cmp_result__less;
  if (a->m_pos > b->m_pos)
    return cmp_result__greater;
  return cmp_result__equal;
}
