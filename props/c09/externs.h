/* functions the extracted text of constant.cc calls but that are not part of it */
_Bool mpz_lt(mpz_class v1, mpz_class v2);                                    /* int.cc operator<: contract proved in C08 */
_Bool cdom_safe_arith(const zw_cdom *d);                                    /* model of virtual zw_cdom::safe_arith */
const zw_cdom *cdom_most_enclosing(const zw_cdom *d, const mpz_class *v);   /* model of virtual zw_cdom::most_enclosing */
extern zw_cdom g_doms[];
