/* C09: value_cst::cmp (libzwerg/value-cst.cc), the comparison of two constants as stack values: it must
   be the three-way form of constant::operator< (whose order axioms are the other C09 jobs), never fail
   for two constants, and decline values of another type. */
#include "../common.h"
#include "vcst_types.h"
#include "vcst_protos.h"
typedef __int128 i128;
#define SGN signedness__sign
#define UNS signedness__unsign
#define WFV(v) ((v).m_sign == SGN || (v).m_sign == UNS)
#define VAL(v) ((v).m_sign == SGN ? (i128)(v).m_i : (i128)(v).m_u)
#define NDOMS 4
_Bool __CPROVER_uninterpreted_safe_arith(unsigned);
unsigned __CPROVER_uninterpreted_most_enclosing(unsigned, uint64_t, _Bool);
#define IDX(d) ((unsigned)(__CPROVER_POINTER_OFFSET(d) / sizeof(zw_cdom)))
#define ISNEGV(v) ((v).m_sign == SGN && (v).m_i < 0)
#define SAFE(d) __CPROVER_uninterpreted_safe_arith(IDX(d))
#define ENCL(d, v) ((const zw_cdom *)&g_doms[__CPROVER_uninterpreted_most_enclosing(IDX(d), (v).m_u, ISNEGV(v)) % NDOMS])
#define RET __CPROVER_return_value
int verif_raised;
zw_cdom g_doms[NDOMS];
value_type g_vtype_cst;
_Bool mpz_lt(mpz_class v1, mpz_class v2)
__CPROVER_requires(WFV(v1) && WFV(v2))
__CPROVER_ensures(RET == (VAL(v1) < VAL(v2)))
__CPROVER_assigns();
_Bool constant_lt(const constant *self, constant that);
#include "cst_models.h"
uint64_t nondet_u64(void); _Bool nondet_bool(void); unsigned nondet_uint(void); unsigned char nondet_uchar(void);

static value_cst mkv(uint64_t u, _Bool s, unsigned di)
{
  value_cst v;
  v.__base0.m_type = g_vtype_cst;
  v.m_cst.m_value.m_u = u;
  v.m_cst.m_value.m_sign = s ? SGN : UNS;
  v.m_cst.m_dom = di >= NDOMS ? (const zw_cdom *)0 : &g_doms[di];
  v.m_cst.m_brv = brevity__full;
  return v;
}

void h_value_cst_cmp(void)
{
  g_vtype_cst.m_code = nondet_uchar();
  __CPROVER_assume(g_vtype_cst.m_code >= 1 && g_vtype_cst.m_code <= 127);
  uint64_t a_u = nondet_u64(), b_u = nondet_u64(); _Bool a_s = nondet_bool(), b_s = nondet_bool();
  unsigned a_d = nondet_uint(), b_d = nondet_uint();
  __CPROVER_assume(a_d <= NDOMS && b_d <= NDOMS);
  value_cst a = mkv(a_u, a_s, a_d), b = mkv(b_u, b_s, b_d);
  _Bool lt = constant_lt(&a.m_cst, b.m_cst), gt = constant_lt(&b.m_cst, a.m_cst);
  cmp_result r = value_cst_cmp(&a, &b.__base0);
  __CPROVER_assert(r != cmp_result__fail, "two constants always compare");
  __CPROVER_assert((r == cmp_result__less) == lt && (r == cmp_result__greater) == (!lt && gt) && (r == cmp_result__equal) == (!lt && !gt),
                   "value_cst::cmp is the three-way form of the order of constants");
  zw_value other; other.m_type.m_code = (unsigned char)(g_vtype_cst.m_code + 1);
  __CPROVER_assert(value_cst_cmp(&a, &other) == cmp_result__fail, "comparison with a value of another type is declined");
}
