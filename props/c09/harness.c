/* C09 harnesses: order axioms over three symbolic constants, checked on the extracted body of
   constant::operator< (loop-free, so complete), plus the contract of operator< itself. */
#include "spec.h"
int verif_raised;
zw_cdom g_doms[NDOMS];

uint64_t nondet_u64(void);
_Bool nondet_bool(void);
unsigned nondet_uint(void);
constant *nondet_cptr(void);

#include "cst_models.h"

static constant mkc(uint64_t u, _Bool s, unsigned di)
{
  constant c;
  c.m_value.m_u = u;
  c.m_value.m_sign = s ? SGN : UNS;
  c.m_dom = di >= NDOMS ? (const zw_cdom *)0 : &g_doms[di];
  c.m_brv = brevity__full;
  return c;
}

#define CONST3                                                                   \
  uint64_t a_u = nondet_u64(), b_u = nondet_u64(), c_u = nondet_u64();           \
  _Bool a_s = nondet_bool(), b_s = nondet_bool(), c_s = nondet_bool();           \
  unsigned a_d = nondet_uint(), b_d = nondet_uint(), c_d = nondet_uint();        \
  __CPROVER_assume(a_d <= NDOMS && b_d <= NDOMS && c_d <= NDOMS);                \
  constant a = mkc(a_u, a_s, a_d), b = mkc(b_u, b_s, b_d), c = mkc(c_u, c_s, c_d);   \
  __CPROVER_assume(MODEL_OK(a) && MODEL_OK(b) && MODEL_OK(c));

#define LT(x, y) constant_lt(&(x), (y))
#define EQV(x, y) (!LT(x, y) && !LT(y, x))

void h_lt_contract(void)
{
  constant *p = nondet_cptr();
  CONST3
  constant_lt(p, b);
}

void h_irreflexive(void) { CONST3 __CPROVER_assert(!LT(a, a), "operator< is irreflexive (a value equals its own copy)"); }
void h_asymmetric(void) { CONST3 __CPROVER_assert(!(LT(a, b) && LT(b, a)), "a < b and b < a never both hold"); }
void h_transitive(void)
{
  CONST3
  _Bool ab = LT(a, b), bc = LT(b, c), ac = LT(a, c);
  __CPROVER_assert(!(ab && bc) || ac, "operator< is transitive");
}
void h_eq_transitive(void)
{
  CONST3
  _Bool ab = EQV(a, b), bc = EQV(b, c), ac = EQV(a, c);
  __CPROVER_assert(!(ab && bc) || ac, "equality (neither less) is transitive");
}
void h_unrelated_never_equal(void)
{
  CONST3
  __CPROVER_assert(!EQV(a, b) || SAMEGROUP(a, b), "constants of unrelated domains are never equal");
  __CPROVER_assert(!EQV(a, b) || VAL(a.m_value) == VAL(b.m_value), "equal constants have equal numbers");
  __CPROVER_assert(!(SAMEGROUP(a, b) && VAL(a.m_value) == VAL(b.m_value)) || EQV(a, b), "same group and same number => equal");
}
void h_derived(void)
{
  CONST3
  _Bool lt = LT(a, b), gt = LT(b, a);
  __CPROVER_assert(constant_gt(&a, b) == gt, "a > b iff b < a");
  __CPROVER_assert(constant_le(&a, b) == !gt, "a <= b iff not b < a");
  __CPROVER_assert(constant_ge(&a, b) == !lt, "a >= b iff not a < b");
  __CPROVER_assert(constant_ne(&a, b) == (lt || gt), "a != b iff a < b or b < a");
  __CPROVER_assert(constant_eq(&a, b) == (!lt && !gt), "a == b iff neither is less");
  __CPROVER_assert((lt + gt + (_Bool)constant_eq(&a, b)) == 1, "exactly one of <, ==, > holds");
}
#ifdef VERIF_CONTROL
void h_control(void) { CONST3 __CPROVER_assert(LT(a, b) || LT(b, a), "CONTROL (must fail): any two constants are strictly ordered"); }
#endif
