/* shared by the C09 harnesses: models of the virtual domain methods (see spec.h) */
/* models of the virtual calls made by the extracted text */
_Bool cdom_safe_arith(const zw_cdom *d) { return SAFE(d); }
const zw_cdom *cdom_most_enclosing(const zw_cdom *d, const mpz_class *v)
{
  const zw_cdom *r = ENCL(d, *v);
  return r;
}

