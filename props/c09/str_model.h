/* Model of std::string for value_str::cmp (TRUSTED; assumed contract on libstdc++): a string is
   (pointer, length) over storage that is NUL-terminated at p[n]; bytes may include NUL.
     a < b                    char_traits<char>::compare over the common prefix (bytes as unsigned char), then length
     a.compare(const char *)  the same against the C string (which ends at its first NUL)
     a.c_str()                p
     strcmp                   C semantics */
#ifndef C09_STR_MODEL_H
#define C09_STR_MODEL_H
#include "../common.h"
typedef struct verif_str { const char *p; size_t n; } verif_str;
static inline int str_cmp_bytes(const char *a, size_t an, const char *b, size_t bn)
{
  size_t m = an < bn ? an : bn;
  for (size_t i = 0; i < m; ++i)
    {
      unsigned char x = (unsigned char)a[i], y = (unsigned char)b[i];
      if (x != y) return x < y ? -1 : 1;
    }
  return an < bn ? -1 : an > bn ? 1 : 0;
}
static inline size_t str_len_c(const char *s) { size_t i = 0; while (s[i] != 0) ++i; return i; }
static inline _Bool str_lt(const verif_str *a, const verif_str *b) { return str_cmp_bytes(a->p, a->n, b->p, b->n) < 0; }
static inline int str_compare_cstr(const verif_str *a, const char *s) { return str_cmp_bytes(a->p, a->n, s, str_len_c(s)); }
static inline int str_compare_str(const verif_str *a, const verif_str *b) { return str_cmp_bytes(a->p, a->n, b->p, b->n); }
#define STR_CSTR(a) ((a)->p)
static inline int verif_strcmp(const char *a, const char *b)
{
  size_t i = 0;
  while (a[i] != 0 && a[i] == b[i]) ++i;
  return (int)(unsigned char)a[i] - (int)(unsigned char)b[i];
}
#endif
