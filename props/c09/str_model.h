/* Model of std::string for value_str::cmp (TRUSTED; assumed contract on libstdc++): a string is
   (pointer, length) over storage that is NUL-terminated at p[n]; bytes may include NUL.
     a < b                    char_traits<char>::compare over the common prefix (bytes as unsigned char), then length
     a.compare(const char *)  the same against the C string (which ends at its first NUL)
     a.c_str()                p
     strcmp                   C semantics */
#ifndef C09_STR_MODEL_H
#define C09_STR_MODEL_H
#include "../common.h"
typedef struct verif_str { const char *p; size_t n; } verif_str;
static inline int str_cmp_bytes(const char *a, size_t an, const char *b, size_t bn)
{
  size_t m = an < bn ? an : bn;
  for (size_t i = 0; i < m; ++i)
    {
      unsigned char x = (unsigned char)a[i], y = (unsigned char)b[i];
      if (x != y) return x < y ? -1 : 1;
    }
  return an < bn ? -1 : an > bn ? 1 : 0;
}
static inline size_t str_len_c(const char *s) { size_t i = 0; while (s[i] != 0) ++i; return i; }
static inline _Bool str_lt(const verif_str *a, const verif_str *b) { return str_cmp_bytes(a->p, a->n, b->p, b->n) < 0; }
static inline int str_compare_cstr(const verif_str *a, const char *s) { return str_cmp_bytes(a->p, a->n, s, str_len_c(s)); }
static inline int str_compare_str(const verif_str *a, const verif_str *b) { return str_cmp_bytes(a->p, a->n, b->p, b->n); }
#define STR_CSTR(a) ((a)->p)
#define STR_SIZE(a) ((a)->n)
#define STR_NPOS ((size_t)-1)
/* a.compare(pos, len, str): the substring [pos, pos+len) clipped to a's size, against str
   (pos > size() throws std::out_of_range: modelled as a failed obligation) */
static inline int str_compare_sub(const verif_str *a, size_t pos, size_t len, const verif_str *b)
{
#ifdef VERIF_CBMC
  __CPROVER_assert(pos <= a->n, "std::string model: compare(pos, ...) with pos <= size()");
#endif
  size_t rl = a->n - pos < len ? a->n - pos : len;
  return str_cmp_bytes(a->p + pos, rl, b->p, b->n);
}
/* a.find(str, pos = 0): lowest position >= pos at which str occurs, npos if none */
static inline size_t str_find3(const verif_str *a, const verif_str *b, size_t pos)
{
  if (b->n > a->n) return STR_NPOS;
  for (size_t i = pos; i + b->n <= a->n; ++i)
    {
      _Bool ok = 1;
      for (size_t j = 0; j < b->n; ++j)
        if (a->p[i + j] != b->p[j]) { ok = 0; break; }
      if (ok) return i;
    }
  return STR_NPOS;
}
/* a.rfind(str, pos = npos): highest position at which str occurs, npos if none */
static inline size_t str_rfind3(const verif_str *a, const verif_str *b, size_t pos)
{
  if (b->n > a->n) return STR_NPOS;
  size_t i = a->n - b->n;
  if (pos < i) i = pos;
  for (;; --i)
    {
      _Bool ok = 1;
      for (size_t j = 0; j < b->n; ++j)
        if (a->p[i + j] != b->p[j]) { ok = 0; break; }
      if (ok) return i;
      if (i == 0) break;
    }
  return STR_NPOS;
}
static inline int verif_strcmp(const char *a, const char *b)
{
  size_t i = 0;
  while (a[i] != 0 && a[i] == b[i]) ++i;
  return (int)(unsigned char)a[i] - (int)(unsigned char)b[i];
}
/* the position argument of find/rfind has a default (0 / npos); the lowering drops defaulted arguments of
   modelled callees, so the model supplies them */
#define STR_PICK3(_1, _2, _3, NAME, ...) NAME
#define str_find2(a, b) str_find3(a, b, 0)
#define str_rfind2(a, b) str_rfind3(a, b, STR_NPOS)
#define str_find(...) STR_PICK3(__VA_ARGS__, str_find3, str_find2, 0)(__VA_ARGS__)
#define str_rfind(...) STR_PICK3(__VA_ARGS__, str_rfind3, str_rfind2, 0)(__VA_ARGS__)
#endif
