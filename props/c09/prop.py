"""C09 (slice) -- constant ordering is a consistent order; equality respects domains."""
import os, sys, json
sys.path.insert(0, os.path.join(os.path.dirname(__file__), '..', '..', 'tools'))
import vlib
from vlib import Job

PID = 'C09'
HERE = os.path.dirname(os.path.abspath(__file__))
OUT = os.path.join(vlib.BUILD, 'c09')
CFG = {
    'names': {'constant::operator<': 'constant_lt', 'constant::operator>': 'constant_gt',
              'constant::operator<=': 'constant_le', 'constant::operator>=': 'constant_ge',
              'constant::operator==': 'constant_eq', 'constant::operator!=': 'constant_ne',
              'constant::dom': 'constant_dom_get', 'constant::value': 'constant_value_get'},
    'extern': {r'operator<': 'mpz_lt', r'std::less<const zw_cdom \*>::operator\(\)': {'c': 'PTR_LESS', 'by_value': True}},
    'virtual': {'zw_cdom::safe_arith': 'cdom_safe_arith', 'zw_cdom::most_enclosing': 'cdom_most_enclosing'},
    'functor_types': [r'std::less<const zw_cdom \*>'],
    'bodies_prelude': '#include "externs.h"\n',
    'globals': {'dec_constant_dom': '(*(const zw_cdom *)&g_doms[0])'},
}
# ---- second unit: ordering of stacks (stack.cc), used by the closure operators' seen-set -------
UP = r'std::unique_ptr<(zw_)?value(, std::default_delete<(zw_)?value>)?>'
VEC = r'std::vector<' + UP + r'(, std::allocator<' + UP + r'>)?>'
IT = r'__gnu_cxx::__normal_iterator<(const )?' + UP + r' \*, ' + VEC + r'>'
STK_CFG = {
    'names': {'(anonymous namespace)::compare_stack': 'compare_stack', 'stack::operator<': 'stack_lt', 'stack::operator==': 'stack_eq',
              'zw_value::get_type': 'value_get_type', 'value_type::operator<': 'value_type_lt',
              '_ZN10value_typeC1ERKS_': 'value_type_copy'},
    'types': {VEC: 'vecp', UP: 'zw_value *', IT: 'zw_value *const *', r'selector::sel_t': 'uint32_t',
              r'std::nullptr_t': 'void *'},
    'types_are_records': {VEC: True},
    'record_ctypes': ['vecp'],
    'types_prelude': '#include "../c11/vecp_model.h"\n',
    'bodies_prelude': '#include "stk_externs.h"\n',
    'virtual': {'zw_value::cmp': 'value_cmp_model'},
    'extern': {
        VEC + r'::size': 'VECP_SIZE', VEC + r'::end': 'VECP_END', VEC + r'::begin': 'VECP_BEGIN',
        IT + r'::operator\+\+': 'IT_PREINC', IT + r'::operator\*': {'c': 'IT_DEREF', 'by_value': True},
        r'__gnu_cxx::operator!=': {'c': 'IT_NE', 'by_value': True}, r'__gnu_cxx::operator==': {'c': 'IT_EQ', 'by_value': True},
        r'std::operator==\|.*nullptr_t\).*': {'c': 'UPTR_IS_NULL', 'by_value': True},
        r'std::operator!=\|.*nullptr_t\).*': {'c': 'UPTR_NOT_NULL', 'by_value': True},
        UP + r'::operator->': {'c': 'UPTR_ARROW', 'by_value': True}, UP + r'::operator\*': {'c': 'UPTR_ARROW', 'by_value': True},
        r'abort': 'verif_abort',
    },
}
import copy
CMP_CFG = copy.deepcopy(STK_CFG)
RIT = r'std::reverse_iterator<' + IT + r'>'
CMP_CFG['names'].update({'(anonymous namespace)::comparison_result': 'comparison_result', 'stack::need': 'stack_need',
                         'stack::get|value &(unsigned int)': 'stack_get',
                         # same inline helpers as in the stack.cc unit; renamed so both units link into one harness
                         'zw_value::get_type': 'cmpu_value_get_type', 'value_type::operator<': 'cmpu_value_type_lt',
                         '_ZN10value_typeC1ERKS_': 'cmpu_value_type_copy'})
CMP_CFG['types'].update({RIT: 'zw_value **', IT: 'zw_value **'})
CMP_CFG['extern'].update({
    VEC + r'::rbegin': 'VECP_RBEGIN',
    RIT + r'::operator\+': {'c': 'RIT_PLUS', 'by_value': True}, RIT + r'::operator->': {'c': 'RIT_ARROW', 'by_value': True},
    UP + r'::get': {'c': 'UPTR_ARROW', 'by_value': True}})
CMP_CFG['exception_kinds'] = {r'std::runtime_error': 2}
CMP_CFG['drop_streams'] = ['std::cerr']
CMP_ROOTS = ['(anonymous namespace)::comparison_result']
VCST_CFG = {
    'names': {'value_cst::cmp': 'value_cst_cmp', 'zw_value::get_type': 'vc_get_type', 'value_type::operator==': 'vc_type_eq',
              '_ZN10value_typeC1ERKS_': 'vc_type_copy'},
    'extern': {r'constant::operator<': 'constant_lt'},
    'globals': {'value_cst::vtype': 'g_vtype_cst'},
    'bodies_prelude': 'extern value_type g_vtype_cst;\n_Bool constant_lt(const constant *self, constant that);\n',
}
VCST_ROOTS = ['value_cst::cmp']
STRT = r'(const )?(std::basic_string<char.*>|std::string|std::__cxx11::basic_string<char.*>)'
VSTR_CFG = {
    'names': {'value_str::cmp': 'value_str_cmp', 'zw_value::get_type': 'vs_get_type', 'value_type::operator==': 'vs_type_eq',
              '_ZN10value_typeC1ERKS_': 'vs_type_copy'},
    'types': {STRT: 'verif_str'},
    'types_are_records': {STRT: True},
    'record_ctypes': ['verif_str'],
    'types_prelude': '#include "str_model.h"\n',
    'globals': {'value_str::vtype': 'g_vtype_str'},
    'bodies_prelude': 'extern value_type g_vtype_str;\n',
    'extern': {r'std::operator<\|.*basic_string<.*': 'str_lt',
               r'std::(__cxx11::)?basic_string<char.*>::compare\|.*\(const char \*\) const.*': 'str_compare_cstr',
               r'std::(__cxx11::)?basic_string<char.*>::compare\|.*\(const (std::)?(__cxx11::)?basic_string<.*': 'str_compare_str',
               r'std::(__cxx11::)?basic_string<char.*>::c_str': 'STR_CSTR', r'std::(__cxx11::)?basic_string<char.*>::data': 'STR_CSTR',
               r'strcmp': 'verif_strcmp'},
}
VSTR_ROOTS = ['value_str::cmp']
STK_ROOTS = ['(anonymous namespace)::compare_stack', 'stack::operator<', 'stack::operator==']

ROOTS = ['constant::operator<', 'constant::operator>', 'constant::operator<=', 'constant::operator>=',
         'constant::operator==', 'constant::operator!=']
INPUTS = ['a_u', 'a_s', 'a_d', 'b_u', 'b_s', 'b_d', 'c_u', 'c_s', 'c_d']


def jobs(tier):
    src = [os.path.join(HERE, 'harness.c'), os.path.join(OUT, 'cst_bodies.c')]
    inc = [OUT, os.path.join(vlib.VERIF, 'props'), HERE]
    J = []
    def add(name, harness, enforce=None, replace=('mpz_lt',), **kw):
        J.append(Job(name, src, harness, enforce=enforce, replace=list(replace), includes=inc, inputs=INPUTS,
                     timeout=600, cbmc_args=['--object-bits', '10'], **kw))
    add('lt_contract', 'h_lt_contract', 'constant_lt')
    for ax in ('irreflexive', 'asymmetric', 'transitive', 'eq_transitive', 'unrelated_never_equal', 'derived'):
        add(ax, 'h_' + ax, kind='proof',
            note='order axiom over three symbolic constants on the extracted body (loop-free: complete); mpz operator< by its C08 contract')
    add('control', 'h_control', defines=['VERIF_CONTROL'], kind='control', expect='fail')
    ssrc = [os.path.join(HERE, 'stk_harness.c'), os.path.join(OUT, 'stk_bodies.c')]
    n = 2 if tier == 'quick' else 3
    for h in ('stack_order', 'stack_equal_means'):
        J.append(Job('bounded_%s_n%d' % (h, n), ssrc, 'hb_' + h, includes=inc, defines=['STK_N=%d' % n], kind='bounded',
                     unwind=n + 2, timeout=1500, cbmc_args=['--object-bits', '10'],
                     note='bounded: stacks of at most %d slots; element cmp by its model (type code + abstract key)' % n))
    csrc = [os.path.join(HERE, 'cmp_harness.c'), os.path.join(OUT, 'stk_bodies.c'), os.path.join(OUT, 'cmp_bodies.c')]
    J.append(Job('comparison_words', csrc, 'h_comparison_words', includes=inc, kind='proof', unwind=3, timeout=600,
                 cbmc_args=['--object-bits', '10'],
                 note='comparison_result (words ?lt ?eq ?gt) on two symbolic values vs compare_stack on one-slot stacks; loops only over one slot (full unwind)'))
    vsrc = [os.path.join(HERE, 'vcst_harness.c'), os.path.join(OUT, 'vcst_bodies.c'), os.path.join(OUT, 'cst_bodies.c')]
    J.append(Job('value_cst_cmp', vsrc, 'h_value_cst_cmp', replace=['mpz_lt'], includes=inc, kind='proof', timeout=600,
                 cbmc_args=['--object-bits', '10'], inputs=INPUTS,
                 note='value_cst::cmp (value-cst.cc) on two symbolic constants against constant::operator< (lowered, linked in)'))
    n = 2 if tier == 'quick' else 3
    J.append(Job('bounded_value_str_cmp_len%d' % n, [os.path.join(HERE, 'vstr_harness.c'), os.path.join(OUT, 'vstr_bodies.c')],
                 'hb_value_str_cmp', includes=inc, defines=['STR_N=%d' % n], kind='bounded', unwind=n + 3, timeout=900,
                 cbmc_args=['--object-bits', '10'], inputs=['an', 'bn', 'sa[*', 'sb[*'],
                 note='bounded: two byte strings of length <= %d over all 256 byte values (embedded NUL, high bytes); std::string by a model' % n))
    J.append(Job('stack_control', ssrc, 'hb_control', includes=inc, defines=['STK_N=2', 'VERIF_CONTROL'], kind='control',
                 expect='fail', unwind=4, timeout=300, cbmc_args=['--object-bits', '10']))
    return J


LEVEL = 'proof'
TRUSTED = ['tools/cxx2c.py lowering', 'contract of mpz operator< (proved in C08 on the text of int.cc)']
ASSUMPTIONS = [
    'virtual safe_arith() is a function of the domain object; virtual most_enclosing(v) is a function of the domain object and the value (uninterpreted functions)',
    'the decimal domain is arithmetic and most_enclosing of a named-constant domain is a named-constant domain (MODEL_OK; unverified property of the virtual implementations)',
    'domain objects modelled as elements of one array so that comparing their addresses is defined; at most 4 distinct domains + null among three constants',
    'compare_stack (bounded jobs): the virtual value::cmp is modelled (different types fail, one type totally ordered by an abstract key); std::vector<unique_ptr<value>> by props/c11/vecp_model.h',
    'comparison_result: diagnostics to std::cerr dropped; value::cmp by the same model',
    'value_str::cmp (bounded job): std::string by props/c09/str_model.h (NUL-terminated storage, bytewise traits compare)',
    'SLICE: per-type cmp of sequences and DIEs are NOT covered (address sets: see C16)',
]
EXPLANATION = 'constant::operator< and derived operators only; see DESIGN.md section 4 C09.'


def spec_files():
    return [os.path.join(HERE, 'spec.h'), os.path.join(HERE, 'harness.c')]


def prepare(tier):
    lw = vlib.extract('cst', 'libzwerg/constant.cc', CFG, ROOTS, OUT)
    sw = vlib.extract('stk', 'libzwerg/stack.cc', STK_CFG, STK_ROOTS, OUT)
    cw = vlib.extract('cmp', 'libzwerg/builtin-cmp.cc', CMP_CFG, CMP_ROOTS, OUT)
    vw = vlib.extract('vcst', 'libzwerg/value-cst.cc', VCST_CFG, VCST_ROOTS, OUT)
    sw2 = vlib.extract('vstr', 'libzwerg/value-str.cc', VSTR_CFG, VSTR_ROOTS, OUT)
    lw.report['functions'] += vw.report['functions'] + sw2.report['functions']
    lw.report['functions'] += cw.report['functions']
    lw.report['functions'] += sw.report['functions']
    lw.report['virtual_calls'] += sw.report['virtual_calls']
    return {'units': ['libzwerg/constant.cc', 'libzwerg/stack.cc'], 'functions': lw.report['functions'],
            'virtual_calls_modelled': lw.report['virtual_calls'], 'lambdas_inlined': lw.report['lambdas_inlined']}


def build_native():
    exe = os.path.join(OUT, 'native_driver')
    vlib.native(['g++', '-std=c++14', '-O1', '-I%s/libzwerg' % vlib.REPO, os.path.join(HERE, 'native_driver.cc'),
                 os.path.join(vlib.REPO, 'libzwerg/constant.cc'), os.path.join(vlib.REPO, 'libzwerg/int.cc'), '-o', exe])
    return exe


AXIOM_OF_JOB = {'transitive': 'transitive', 'eq_transitive': 'eq-transitive', 'irreflexive': 'irreflexive',
                'asymmetric': 'asymmetric', 'derived': 'derived-operators', 'unrelated_never_equal': None,
                'lt_contract': 'arithmetic-domains-compare-by-value'}


def native_axioms():
    exe = build_native()
    rc, out, err, w = vlib.run([exe, 'axioms'], timeout=300)
    if rc != 0 or 'DONE' not in out:
        raise vlib.Undecided('native axiom driver failed rc=%s %s' % (rc, (out + err)[-300:]))
    viol = {}
    for ln in out.split('\n'):
        if ln.startswith('VIOLATED '):
            k = ln.split()[1]
            viol[k] = ln[len('VIOLATED ') + len(k) + 1:]
    last = out.strip().split('\n')[-1]
    return viol, last


def replay_words():
    """comparison words vs element-wise order of sequences, on the real library through Zwerg queries."""
    vals = ['1', '"a"', '[]', '0x10', '[1]']
    qs, pairs = [], []
    for a in vals:
        for b in vals:
            if a != b:
                pairs.append((a, b))
                qs += ['%s %s ?lt' % (a, b), '[%s] [%s] ?lt' % (a, b), '%s %s ?gt' % (a, b), '%s %s ?eq' % (a, b)]
    res = vlib.zw_queries(qs, OUT)
    bad = []
    for i, (a, b) in enumerate(pairs):
        lt, slt, gt, eq = [x[0] for x in res[4 * i:4 * i + 4]]
        if lt is None or slt is None:
            bad.append('%s %s: exception' % (a, b))
        elif (lt > 0) != (slt > 0):
            bad.append('`%s %s ?lt` %s but `[%s] [%s] ?lt` %s' % (a, b, 'holds' if lt else 'does not hold', a, b, 'holds' if slt else 'does not hold'))
        elif (lt > 0) + (gt > 0) + (eq > 0) != 1:
            bad.append('%s %s: lt/eq/gt = %s/%s/%s' % (a, b, lt, eq, gt))
    return {'reproduced': bool(bad), 'disagreements_on_real_library': bad[:6], 'pairs_tried': len(pairs)}


def replay_strings(r):
    def num(x):
        t = str(x)
        neg = t.strip().startswith('-')
        v = int(''.join(ch for ch in t if ch.isdigit()) or 0)
        return (-v if neg else v) & 255
    def lit(prefix, n):
        bs = [num(r.cex.get('%s[%dl]' % (prefix, i), 0)) for i in range(n)]
        return bytes(bs), '"' + ''.join('\\x%02x' % b for b in bs) + '"'
    an = int(''.join(ch for ch in str(r.cex.get('an', 0)) if ch.isdigit()) or 0)
    bn = int(''.join(ch for ch in str(r.cex.get('bn', 0)) if ch.isdigit()) or 0)
    (ab, al), (bb, bl) = lit('sa', an), lit('sb', bn)
    qs = ['%s %s ?lt' % (al, bl), '%s %s ?eq' % (al, bl), '%s %s ?gt' % (al, bl), '%s dup ?eq' % al]
    res = vlib.zw_queries(qs, OUT)
    got = [bool(c) for c, _ in res]
    exp = [ab < bb, ab == bb, ab > bb, True]
    return {'reproduced': got != exp, 'a': list(ab), 'b': list(bb), 'queries': qs, 'real_library_lt_eq_gt_selfeq': got, 'expected': exp}


def replay(r):
    if r.job.name.startswith('bounded_value_str_cmp'):
        return replay_strings(r)
    if r.job.name == 'comparison_words':
        return replay_words()
    return replay_axioms(r)


def replay_axioms(r):
    """The verifier's counterexample lives in the abstraction of domains (addresses, safe_arith and
    most_enclosing uninterpreted), so it is not replayed literally: the axiom that failed is checked
    on the real constant.cc over a pool of real constants (all pairs and triples)."""
    ax = AXIOM_OF_JOB.get(r.job.name)
    viol, last = native_axioms()
    if ax and ax in viol:
        return {'reproduced': True, 'axiom': ax, 'failing_constants_on_real_code': viol[ax], 'pool': last,
                'abstract_counterexample': r.cex}
    return {'reproduced': False, 'axiom': ax, 'pool': last, 'abstract_counterexample': r.cex,
            'note': 'no pair/triple of the native pool violates this axiom on the real code'}
