/* C09 (slice) -- ordering of constants (libzwerg/constant.cc: constant::operator< and the five
 * operators derived from it).
 *
 * From the property statement: for two constants exactly one of <, ==, > holds; == is an
 * equivalence; < is transitive; integers in arithmetic domains compare by value; named constants
 * of unrelated domains are never equal even with equal numbers.
 *
 * Abstraction of what the function reads from a domain object (virtual calls):
 *   safe_arith()         -> uninterpreted predicate of the domain address
 *   most_enclosing(v)    -> uninterpreted function of (domain address, value)
 * Domain objects are elements of one array, so that ordering their addresses is defined in C; the
 * array index order stands for the (arbitrary but fixed) address order of the real objects.
 */
#ifndef C09_SPEC_H
#define C09_SPEC_H
#include "../common.h"
#include "cst_types.h"
#include "cst_protos.h"

typedef __int128 i128;
#define RET __CPROVER_return_value
#define SGN signedness__sign
#define UNS signedness__unsign
#define WFV(v) ((v).m_sign == SGN || (v).m_sign == UNS)
#define VAL(v) ((v).m_sign == SGN ? (i128)(v).m_i : (i128)(v).m_u)

#define NDOMS 4
extern zw_cdom g_doms[NDOMS];
#define ISDOM(p) ((p) == 0 || (__CPROVER_same_object((p), g_doms) && \
   __CPROVER_POINTER_OFFSET(p) < sizeof(g_doms) && __CPROVER_POINTER_OFFSET(p) % sizeof(zw_cdom) == 0))
#define WFC(c) (WFV((c).m_value) && ISDOM((c).m_dom))

/* CBMC's SAT back end ignores pointer-typed uninterpreted functions, so they work on indices */
_Bool __CPROVER_uninterpreted_safe_arith(unsigned);
unsigned __CPROVER_uninterpreted_most_enclosing(unsigned, uint64_t, _Bool);
#define IDX(d) ((unsigned)(__CPROVER_POINTER_OFFSET(d) / sizeof(zw_cdom)))
#define ISNEGV(v) ((v).m_sign == SGN && (v).m_i < 0)
#define SAFE(d) __CPROVER_uninterpreted_safe_arith(IDX(d))
/* most_enclosing returns a domain object; it depends on the domain and the (mathematical) value */
#define ENCL(d, v) ((const zw_cdom *)&g_doms[__CPROVER_uninterpreted_most_enclosing(IDX(d), (v).m_u, ISNEGV(v)) % NDOMS])

/* contract of mpz operator< -- proved in C08 (job cmp_lt) for the text of int.cc */
_Bool mpz_lt(mpz_class v1, mpz_class v2)
__CPROVER_requires(WFV(v1) && WFV(v2))
__CPROVER_ensures(RET == (VAL(v1) < VAL(v2)))
__CPROVER_assigns();

/* the comparison group of a constant: all arithmetic domains form one group (they compare by
   value; its representative is the decimal domain, g_doms[0]); otherwise the most enclosing
   (sub-)domain; 0 for "no domain" */
#define GROUP(c) ((c).m_dom == 0 ? (const zw_cdom *)0 : SAFE((c).m_dom) ? (const zw_cdom *)&g_doms[0] : ENCL((c).m_dom, (c).m_value))
#define SAMEGROUP(a, b) (GROUP(a) == GROUP(b))
/* assumptions about the virtual functions of real domains (unverified, listed in evidence):
   the decimal domain is arithmetic; the most enclosing domain of a named-constant domain is a
   named-constant domain */
#define MODEL_OK(c) (SAFE(&g_doms[0]) && ((c).m_dom == 0 || SAFE((c).m_dom) || !SAFE(ENCL((c).m_dom, (c).m_value))))

/* ---- contracts of the derived operators, each in terms of operator< ------------------------ */
_Bool constant_lt(const constant *self, constant that)
__CPROVER_requires(__CPROVER_is_fresh(self, sizeof(constant)) && WFC(*self) && WFC(that))
__CPROVER_requires(MODEL_OK(*self) && MODEL_OK(that))
/* within one group (in particular: two arithmetic domains) the order is the order of the values */
__CPROVER_ensures(SAMEGROUP(*self, that) ==> (RET == (VAL(self->m_value) < VAL(that.m_value))))
/* a constant without domain sorts before every constant with one */
__CPROVER_ensures((self->m_dom == 0 && that.m_dom != 0) ==> RET)
__CPROVER_ensures((self->m_dom != 0 && that.m_dom == 0) ==> !RET)
__CPROVER_assigns();

#endif
