/* C09: value_str::cmp (libzwerg/value-str.cc) -- "strings compare bytewise": over all byte strings of
   length <= STR_N, including embedded NUL and high bytes: the three-way result is that of a byte-by-byte
   comparison followed by length; a string equals its own copy; comparison is antisymmetric. */
#include "vstr_types.h"
#include "vstr_protos.h"
int verif_raised;
value_type g_vtype_str;
unsigned char nondet_uchar(void); size_t nondet_size(void);
#ifndef STR_N
#define STR_N 2
#endif
static int spec_cmp(const char *a, size_t an, const char *b, size_t bn)
{
  for (size_t i = 0; i < STR_N; ++i)
    {
      if (i >= an || i >= bn) break;
      if ((unsigned char)a[i] != (unsigned char)b[i]) return (unsigned char)a[i] < (unsigned char)b[i] ? -1 : 1;
    }
  return an < bn ? -1 : an > bn ? 1 : 0;
}
void hb_value_str_cmp(void)
{
  g_vtype_str.m_code = nondet_uchar();
  __CPROVER_assume(g_vtype_str.m_code >= 1 && g_vtype_str.m_code <= 127);
  char sa[STR_N + 1], sb[STR_N + 1];
  size_t an = nondet_size(), bn = nondet_size();
  __CPROVER_assume(an <= STR_N && bn <= STR_N);
  sa[an] = 0; sb[bn] = 0;                      /* std::string keeps its storage NUL-terminated */
  value_str a, b;
  a.__base0.m_type = g_vtype_str; b.__base0.m_type = g_vtype_str;
  a.m_str.p = sa; a.m_str.n = an; b.m_str.p = sb; b.m_str.n = bn;
  cmp_result ab = value_str_cmp(&a, &b.__base0), ba = value_str_cmp(&b, &a.__base0);
  int want = spec_cmp(sa, an, sb, bn);
  __CPROVER_assert(ab != cmp_result__fail, "two strings always compare");
  __CPROVER_assert((ab == cmp_result__less) == (want < 0) && (ab == cmp_result__equal) == (want == 0) && (ab == cmp_result__greater) == (want > 0),
                   "strings compare bytewise, then by length");
  __CPROVER_assert((ab == cmp_result__less) == (ba == cmp_result__greater) && (ab == cmp_result__equal) == (ba == cmp_result__equal),
                   "string comparison is antisymmetric");
  __CPROVER_assert(value_str_cmp(&a, &a.__base0) == cmp_result__equal, "a string equals its own copy");
}
