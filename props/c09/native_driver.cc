// Native driver for C09: the REAL constant.cc/int.cc (compiled from /repo's working tree) with the
// repository's own arithmetic domains plus a few named-constant domains defined here through the
// public constant_dom interface (two unrelated ones, and an ELF-like family: two machine-specific
// domains sharing a common sub-domain via most_enclosing).
//   axioms   -> checks the order axioms over all pairs/triples of a pool; prints the first
//               violation of each kind as "VIOLATED <axiom> <a> | <b> | <c>"
#include <cstdio>
#include <cstdint>
#include <iostream>
#include <sstream>
#include <vector>
#include <string>
#include "constant.hh"

struct named_dom : public constant_dom
{
  char const *m_name;
  constant_dom const *m_common;
  explicit named_dom (char const *n, constant_dom const *common = nullptr) : m_name {n}, m_common {common} {}
  void show (mpz_class const &v, std::ostream &o, brevity) const override { o << m_name << ':' << v; }
  char const *name () const override { return m_name; }
  constant_dom const *most_enclosing (mpz_class const &v) const override
  { return (m_common != nullptr && v < 10) ? m_common : this; }
};

// several objects so that every relative address order of (arith, named) occurs in the pool
static named_dom lo_named {"T_LO"};
static named_dom family_common {"STT"};
static named_dom family_a {"STT_ARM", &family_common};
static named_dom family_b {"STT_SPARC", &family_common};
static named_dom hi_named {"T_HI"};

static std::string str (constant const &c)
{
  std::stringstream ss;
  if (c.dom () == nullptr) ss << "nodom:" << c.value ();
  else ss << c.dom ()->name () << ":" << c.value ();
  return ss.str ();
}

int main (int argc, char **argv)
{
  std::vector<constant_dom const *> doms = {nullptr, &dec_constant_dom, &hex_constant_dom, &oct_constant_dom,
    &bin_constant_dom, &bool_constant_dom, &lo_named, &family_common, &family_a, &family_b, &hi_named};
  std::vector<mpz_class> vals = {mpz_class (0), mpz_class (0u), mpz_class (1), mpz_class (1u), mpz_class (3),
    mpz_class (3u), mpz_class (13u), mpz_class (-1), mpz_class (-5), mpz_class ((uint64_t) 1 << 63, signedness::unsign),
    mpz_class (UINT64_MAX, signedness::unsign), mpz_class ((uint64_t) INT64_MIN, signedness::sign)};
  std::vector<constant> pool;
  for (auto d : doms) for (auto &v : vals) pool.push_back (constant (v, d));
  size_t n = pool.size ();
  bool seen[8] = {};
  long evals = 0, bad = 0;
  auto report = [&] (int k, char const *what, constant const *a, constant const *b, constant const *c)
    {
      ++bad;
      if (seen[k]) return;
      seen[k] = true;
      printf ("VIOLATED %s %s | %s | %s\n", what, str (*a).c_str (), b ? str (*b).c_str () : "-", c ? str (*c).c_str () : "-");
    };
  for (size_t i = 0; i < n; ++i)
    {
      constant const &a = pool[i];
      ++evals;
      if (a < a) report (0, "irreflexive", &a, nullptr, nullptr);
      if (!(a == a)) report (1, "reflexive-eq", &a, nullptr, nullptr);
      for (size_t j = 0; j < n; ++j)
	{
	  constant const &b = pool[j];
	  ++evals;
	  bool ab = a < b, ba = b < a;
	  if (ab && ba) report (2, "asymmetric", &a, &b, nullptr);
	  if ((a > b) != ba || (a <= b) != !ba || (a >= b) != !ab || (a != b) != (ab || ba) || (a == b) != (!ab && !ba))
	    report (3, "derived-operators", &a, &b, nullptr);
	  bool arith = a.dom () && b.dom () && a.dom ()->safe_arith () && b.dom ()->safe_arith ();
	  if (arith && (ab != (a.value () < b.value ())))
	    report (4, "arithmetic-domains-compare-by-value", &a, &b, nullptr);
	  for (size_t k = 0; k < n; ++k)
	    {
	      constant const &c = pool[k];
	      ++evals;
	      bool bc = b < c, ac = a < c, cb = c < b, ca = c < a;
	      if (ab && bc && !ac) report (5, "transitive", &a, &b, &c);
	      if (!ab && !ba && !bc && !cb && (ac || ca)) report (6, "eq-transitive", &a, &b, &c);
	    }
	}
    }
  printf ("DONE evals=%ld bad=%ld pool=%zu\n", evals, bad, n);
  return 0;
}
