/* C09 (comparison words): comparison_result of libzwerg/builtin-cmp.cc, the body of ?lt/?eq/?gt (and
   through them of the infix operators and the negated forms), on a stack whose two top slots are
   symbolic values.  Obligations:
     - exactly one of "less", "equal", "greater" is answered yes, none fails (values of different
       types are ordered, without error);
     - swapping the operands swaps less and greater (A < B iff B > A);
     - the answer agrees with the order of stacks / element-wise order of sequences
       (compare_stack on the one-slot stacks [A] and [B]), so that A < B iff [A] < [B]. */
#include "cmp_types.h"
#include "cmp_protos.h"
int compare_stack(const vecp *a, const vecp *b);
int verif_raised;
_Bool nondet_bool(void);

#define YES pred_result__yes
void h_comparison_words(void)
{
  zw_value A, B;
  __CPROVER_assume(A.m_type.m_code >= 1 && A.m_type.m_code <= 127 && B.m_type.m_code >= 1 && B.m_type.m_code <= 127);
  zw_value *ab[2] = {&A, &B}, *ba[2] = {&B, &A};       /* bottom .. top */
  stack s1, s2;
  s1.m_values.data = ab; s1.m_values.len = 2; s1.m_values.cap = 2;
  s2.m_values.data = ba; s2.m_values.len = 2; s2.m_values.cap = 2;
  verif_raised = 0;
  pred_result lt = comparison_result(&s1, cmp_result__less), eq = comparison_result(&s1, cmp_result__equal),
              gt = comparison_result(&s1, cmp_result__greater);
  pred_result lt2 = comparison_result(&s2, cmp_result__less), gt2 = comparison_result(&s2, cmp_result__greater);
  __CPROVER_assert(verif_raised == 0, "no error on a stack of two values");
  __CPROVER_assert(lt != pred_result__fail && eq != pred_result__fail && gt != pred_result__fail, "comparison never fails, also across types");
  __CPROVER_assert((lt == YES) + (eq == YES) + (gt == YES) == 1, "exactly one of <, ==, > holds");
  __CPROVER_assert((lt == YES) == (gt2 == YES) && (gt == YES) == (lt2 == YES), "A < B iff B > A");
  zw_value *sa[1] = {&A}, *sb[1] = {&B};
  vecp va = {sa, 1, 1}, vb = {sb, 1, 1};
  int c = compare_stack(&va, &vb);
  __CPROVER_assert((lt == YES) == (c < 0) && (eq == YES) == (c == 0) && (gt == YES) == (c > 0),
                   "A < B as words agrees with the order of the stacks/sequences [A] and [B]");
}
