/* C09 (stack ordering) bounded harness: compare_stack / stack::operator< / operator== lowered from
   libzwerg/stack.cc over three stacks of at most STK_N slots; each slot is empty (nullptr) or a value
   with a symbolic type code and a symbolic abstract key (see value_cmp_model).  This is the order
   the closure operators' seen-set (std::set<shared_ptr<stack>, deref_less>) relies on. */
#include "stk_types.h"
#include "stk_protos.h"
int verif_raised;
#ifndef STK_N
#define STK_N 3
#endif
size_t nondet_size(void);
unsigned char nondet_uchar(void);
_Bool nondet_bool(void);

#define MKSTACK(s, slots, vals)                                                 \
  zw_value vals[STK_N]; zw_value *slots[STK_N]; stack s;                        \
  s.m_values.data = slots; s.m_values.cap = STK_N; s.m_values.len = nondet_size(); \
  __CPROVER_assume(s.m_values.len <= STK_N);                                    \
  for (int i_ = 0; i_ < STK_N; ++i_)                                            \
    { __CPROVER_assume(vals[i_].m_type.m_code >= 1 && vals[i_].m_type.m_code <= 127); \
      slots[i_] = nondet_bool() ? &vals[i_] : (zw_value *)0; }

static int sgn(int x) { return x < 0 ? -1 : x > 0 ? 1 : 0; }

void hb_stack_order(void)
{
  MKSTACK(a, sa, va) MKSTACK(b, sb, vb) MKSTACK(c, sc, vc)
  int ab = compare_stack(&a.m_values, &b.m_values), ba = compare_stack(&b.m_values, &a.m_values);
  int bc = compare_stack(&b.m_values, &c.m_values), ac = compare_stack(&a.m_values, &c.m_values);
  __CPROVER_assert(compare_stack(&a.m_values, &a.m_values) == 0, "a stack equals itself");
  __CPROVER_assert(sgn(ab) == -sgn(ba), "compare(a,b) and compare(b,a) are opposite");
  __CPROVER_assert(!(ab < 0 && bc < 0) || ac < 0, "stack order is transitive");
  __CPROVER_assert(!(ab == 0 && bc == 0) || ac == 0, "stack equality is transitive");
  __CPROVER_assert(!(ab == 0 && bc < 0) || ac < 0, "equal stacks order alike");
  __CPROVER_assert(stack_lt(&a, &b) == (ab < 0) && stack_eq(&a, &b) == (ab == 0), "operator< and operator== agree with the three-way result");
}

/* equal means: same depth, the same slots empty, and pairwise same type and equal values */
void hb_stack_equal_means(void)
{
  MKSTACK(a, sa, va) MKSTACK(b, sb, vb)
  _Bool same = a.m_values.len == b.m_values.len;
  for (size_t i = 0; i < STK_N; ++i)
    if (same && i < a.m_values.len)
      {
        if ((sa[i] == 0) != (sb[i] == 0)) same = 0;
        else if (sa[i] != 0 && (sa[i]->m_type.m_code != sb[i]->m_type.m_code || sa[i]->m_pos != sb[i]->m_pos)) same = 0;
      }
  __CPROVER_assert(stack_eq(&a, &b) == same, "stacks are equal exactly when they agree slot by slot");
}
#ifdef VERIF_CONTROL
void hb_control(void)
{
  MKSTACK(a, sa, va) MKSTACK(b, sb, vb)
  __CPROVER_assert(compare_stack(&a.m_values, &b.m_values) != 0, "CONTROL (must fail): two stacks are never equal");
}
#endif
