/* C02/C06 (slice, BOUNDED): attr_iterator (dwit.hh) -- "exactly the attributes (name and form, in stored order) it has on
   disk": for a DIE with 0..3 attributes of arbitrary codes and forms, iterating from attr_iterator(die) yields exactly
   those attributes, each once, in stored order, and then equals end(). */
#include "ai_types.h"
#include "ai_protos.h"
#include "at_model2.h"
int verif_raised;
unsigned g_na[ND]; unsigned g_code[ND][NA], g_form[ND][NA]; int g_ref[ND][NA];
unsigned nondet_uint(void);

void hb_attr_iterator(void)
{
  unsigned d = nondet_uint(); __CPROVER_assume(d < ND);
  for (unsigned i = 0; i < ND; ++i)
    {
      g_na[i] = nondet_uint(); __CPROVER_assume(g_na[i] <= NA);
      for (unsigned k = 0; k < NA; ++k) { g_code[i][k] = nondet_uint(); g_form[i][k] = nondet_uint(); __CPROVER_assume(g_code[i][k] != 0); }
    }
  Dwarf_Die die; set_die(&die, (int)d);
  verif_raised = 0;
  attr_iterator it = attr_iterator_ctor_die(&die), e = attr_iterator_end();
  for (unsigned k = 0; k < NA; ++k)
    if (k < g_na[d])
      {
        __CPROVER_assert(attr_iterator_ne(&it, &e), "not at end() while attributes remain");
        Dwarf_Attribute *a = attr_iterator_deref(&it);
        __CPROVER_assert(a->code == g_code[d][k] && a->form == g_form[d][k] && a->valp == ATTR_ID(d, k), "attribute k is the k-th stored attribute: name, form and value location");
        attr_iterator_preinc(&it);
      }
  __CPROVER_assert(verif_raised == 0, "no libdw error path");
  __CPROVER_assert(!attr_iterator_ne(&it, &e), "after the last attribute the iterator equals end()");
}
#ifdef VERIF_CONTROL
void hb_attr_iterator_control(void)
{
  g_na[0] = 2; g_code[0][0] = 3; g_code[0][1] = 73; g_form[0][0] = 8; g_form[0][1] = 19;
  Dwarf_Die die; set_die(&die, 0); verif_raised = 0;
  attr_iterator it = attr_iterator_ctor_die(&die);
  attr_iterator_preinc(&it);
  __CPROVER_assert(attr_iterator_deref(&it)->code == 3, "CONTROL (must fail): the second attribute is the first again");
}
#endif
