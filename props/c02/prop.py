"""C02 (slice, bounded) -- section-order DIE iteration and the parent table."""
import os, sys
sys.path.insert(0, os.path.join(os.path.dirname(__file__), '..', '..', 'tools'))
import vlib
from vlib import Job

PID = 'C02'
HERE = os.path.dirname(os.path.abspath(__file__))
OUT = os.path.join(vlib.BUILD, 'c02')
VOFF = r'(const )?std::vector<(unsigned long|Dwarf_Off)(, std::allocator<(unsigned long|Dwarf_Off)>)?>'
OPAIR = r'(const )?std::pair<(unsigned long|Dwarf_Off), (unsigned long|Dwarf_Off)>'
VPAIR = r'(const )?(std::vector<' + OPAIR + r'(, std::allocator<' + OPAIR + r'>)?>|parent_cache::unit_cache_t)'
IT_CFG = {
    'names': {'_ZN17all_dies_iteratorppEv': 'all_dies_iterator_preinc', '_ZN17all_dies_iteratorC1EP5Dwarf': 'all_dies_iterator_ctor_dw',
              'cu_iterator::move': 'cu_iterator_move', 'cu_iterator::done': 'cu_iterator_done', 'cu_iterator::end': 'cu_iterator_end',
              '_ZN11cu_iteratorppEv': 'cu_iterator_preinc', 'all_dies_iterator::parent': 'all_dies_iterator_parent',
              'all_dies_iterator::end': 'all_dies_iterator_end'},
    'types': {r'std::iterator<.*>': 'empty_base', VOFF: 'vec_off', r'(struct )?Dwarf': 'void', r'(struct )?Dwarf_CU': 'void', r'(struct )?Dwarf_Abbrev': 'void', r'Dwarf_Off': 'unsigned long'},
    'types_are_records': {VOFF: True, r'std::iterator<.*>': True},
    'record_ctypes': ['vec_off', 'empty_base'],
    'record_default': {'vec_off': 'vec_off_new()'},
    'record_copy': {'all_dies_iterator': 'all_dies_iterator_copy', 'cu_iterator': 'cu_iterator_copy'},
    'types_prelude': '#include "dw_model.h"\n',
    'bodies_prelude': '#define C02_DWIT 1\n#include "dw_model2.h"\n',
    'extern': {'__assert_fail': 'verif_assert_fail_libc', 'abort': 'verif_abort',
               r'dwarf_child': 'm_dwarf_child', r'dwarf_siblingof': 'm_dwarf_siblingof', r'dwarf_offdie': 'm_dwarf_offdie',
               r'dwarf_dieoffset': 'm_dwarf_dieoffset', r'dwarf_haschildren': 'm_dwarf_haschildren', r'dwarf_nextcu': 'm_dwarf_nextcu', r'dwarf_cuoffset': 'm_dwarf_cuoffset',
               r'throw_libdw.*': 'm_throw_libdw',
               VOFF + r'::push_back': 'vec_off_push_back', VOFF + r'::back': 'VEC_OFF_BACK', VOFF + r'::pop_back': 'vec_off_pop_back',
               VOFF + r'::empty': 'VEC_OFF_EMPTY', VOFF + r'::size': 'VEC_OFF_SIZE', r'std::operator==\|.*vector.*': 'vec_off_eq'},
}
IT_ROOTS = ['_ZN17all_dies_iteratorppEv', '_ZN17all_dies_iteratorC1EP5Dwarf', 'all_dies_iterator::parent']

PC_CFG = {
    'names': {'parent_cache::recursively_populate_unit': 'recursively_populate_unit', 'parent_cache::populate_unit': 'populate_unit'},
    'types': {OPAIR: 'offpair', VPAIR: 'vec_pair', r'(struct )?Dwarf': 'void', r'(struct )?Dwarf_CU': 'void', r'(struct )?Dwarf_Abbrev': 'void',
              r'Dwarf_Off': 'unsigned long'},
    'types_are_records': {OPAIR: True, VPAIR: True},
    'record_ctypes': ['offpair', 'vec_pair'],
    'record_default': {'vec_pair': 'vec_pair_new()'},
    'opaque_records': ['parent_cache'],
    'types_prelude': '#include "dw_model.h"\ntypedef struct parent_cache parent_cache;\n',
    'bodies_prelude': '#include "dw_model2.h"\n',
    'extern': {'__assert_fail': 'verif_assert_fail_libc', 'abort': 'verif_abort',
               r'dwarf_child': 'm_dwarf_child', r'dwarf_siblingof': 'm_dwarf_siblingof', r'dwarf_offdie': 'm_dwarf_offdie',
               r'dwarf_dieoffset': 'm_dwarf_dieoffset', r'dwarf_haschildren': 'm_dwarf_haschildren', r'throw_libdw.*': 'm_throw_libdw',
               VPAIR + r'::push_back': 'vec_pair_push_back', r'std::make_pair': 'make_offpair'},
}
DWKEY = r'(const )?std::pair<Dwarf \*, unsigned long>'
PCMAP = r'(const )?(std::map<' + DWKEY + r', ' + VPAIR + r'(, .*)?>|parent_cache::cache_t)'
PCENT = r'(const )?std::pair<const std::pair<Dwarf \*, unsigned long>, ' + VPAIR + r'>'
PCENT2 = r'(const )?std::pair<std::pair<Dwarf \*, unsigned long>, ' + VPAIR + r'>'
PCIT = r'(const )?std::(_Rb_tree_(const_)?iterator<' + PCENT + r'>|map<.*>::(const_)?iterator)'
PCINS = r'(const )?std::pair<std::_Rb_tree_iterator<' + PCENT + r'>, bool>'
VPIT = r'(const )?(__gnu_cxx::__normal_iterator<(const )?' + OPAIR + r' \*, ' + VPAIR + r'>|' + VPAIR + r'::(const_)?iterator)'
PF_CFG = dict(PC_CFG)
PF_CFG['names'] = dict(PC_CFG['names'], **{'parent_cache::find': 'parent_cache_find'})
PF_CFG['types'] = dict(PC_CFG['types'], **{DWKEY: 'dwkey', PCMAP: 'pcmap', PCENT: 'pcentry', PCENT2: 'pcentry', PCIT: 'pcentry *', PCINS: 'pcins', VPIT: 'offpair *'})
PF_CFG['types_are_records'] = dict(PC_CFG['types_are_records'], **{DWKEY: True, PCMAP: True, PCENT: True, PCENT2: True, PCINS: True})
PF_CFG['record_ctypes'] = ['offpair', 'vec_pair', 'dwkey', 'pcmap', 'pcentry', 'pcins']
PF_CFG['opaque_records'] = []
PF_CFG['types_prelude'] = '#include "dw_model.h"\n#include "pf_model.h"\n'
PF_CFG['functor_types'] = [r'\(lambda at .*\)']
PF_CFG['extern'] = dict(PC_CFG['extern'], **{
    r'dwarf_diecu': 'm_dwarf_diecu', r'dwarf_cu_getdwarf': 'm_dwarf_cu_getdwarf', r'dwarf_cuoffset': 'm_dwarf_cuoffset',
    r'std::make_pair\|.*Dwarf \*&.*': 'make_dwkey', r'std::make_pair\|.*vector.*': 'make_pcentry',
    PCMAP + r'::find': 'pcmap_find', PCMAP + r'::end': 'pcmap_end', PCMAP + r'::insert': 'pcmap_insert',
    r'std::operator==\|.*_Rb_tree_.*': {'c': 'IT_EQ', 'by_value': True}, r'std::_Rb_tree_(const_)?iterator<.*>::operator==': {'c': 'IT_EQ', 'by_value': True},
    r'std::_Rb_tree_(const_)?iterator<.*>::operator->': {'c': 'PTR_ID', 'by_value': True},
    r'std::_Rb_tree_(const_)?iterator<.*>::operator=': None,
    VPAIR + r'::begin': 'VPAIR_BEGIN', VPAIR + r'::end': 'VPAIR_END',
    r'std::lower_bound': 'vec_pair_lower_bound',
    r'__gnu_cxx::operator!=.*': {'c': 'IT_NE', 'by_value': True}, r'__gnu_cxx::operator==.*': {'c': 'IT_EQ', 'by_value': True},
    r'__gnu_cxx::__normal_iterator<.*>::operator->': {'c': 'PTR_ID', 'by_value': True},
})
PF_CFG['extern'] = {k: v for k, v in PF_CFG['extern'].items() if v is not None}
PF_ROOTS = ['parent_cache::find']
PC_ROOTS = ['parent_cache::populate_unit']

AI_CFG = {
    'names': {'attr_iterator::move': 'attr_iterator_move', 'attr_iterator::callback': 'attr_iterator_callback', 'attr_iterator::end': 'attr_iterator_end',
              '_ZN13attr_iteratorC1EP9Dwarf_Die': 'attr_iterator_ctor_die', '_ZN13attr_iteratorppEv': 'attr_iterator_preinc',
              '_ZN13attr_iteratorppEi': 'attr_iterator_postinc', '_ZN13attr_iteratordeEv': 'attr_iterator_deref',
              '_ZNK13attr_iteratoreqERKS_': 'attr_iterator_eq', '_ZNK13attr_iteratorneERKS_': 'attr_iterator_ne'},
    'types': {r'std::iterator<.*>': 'empty_base', r'(struct )?Dwarf': 'void', r'(struct )?Dwarf_CU': 'void', r'(struct )?Dwarf_Abbrev': 'void',
              r'Dwarf_Off': 'unsigned long', r'ptrdiff_t': 'long'},
    'types_are_records': {r'std::iterator<.*>': True},
    'record_ctypes': ['empty_base'],
    'types_prelude': '#include "at_model.h"\n',
    'bodies_prelude': '#include "at_model2.h"\n',
    'extern': {'__assert_fail': 'verif_assert_fail_libc', 'abort': 'verif_abort', r'dwarf_getattrs': 'm_dwarf_getattrs', r'throw_libdw.*': 'm_throw_libdw'},
}
AI_ROOTS = ['_ZN13attr_iteratorC1EP9Dwarf_Die', '_ZN13attr_iteratorppEv', '_ZN13attr_iteratorppEi', '_ZN13attr_iteratordeEv', '_ZNK13attr_iteratorneERKS_']



def jobs(tier):
    inc = [OUT, os.path.join(vlib.VERIF, 'props'), HERE]
    isrc = [os.path.join(HERE, 'dwit_harness.c'), os.path.join(OUT, 'dwit_bodies.c')]
    psrc = [os.path.join(HERE, 'pc_harness.c'), os.path.join(OUT, 'pc_bodies.c')]
    A = ['--object-bits', '10']
    nn = 5 if tier == 'quick' else 6
    pn = 5 if tier == 'quick' else 6
    ntrees = len(unit_trees(pn))
    fn = 3
    nforests = len(forests(fn))
    D = ['NN=%d' % nn]
    J = [Job('bounded_all_dies_n%d' % nn, isrc, 'hb_all_dies', includes=inc, defines=D, kind='bounded', unwind=9, timeout=3000, cbmc_args=A,
             inputs=['g_n'], note='all_dies_iterator over every forest of <= %d DIEs in any number of units' % nn),
         Job('bounded_parent_table_n%d' % pn, psrc, 'hb_parent_table', includes=inc, defines=['NN=%d' % pn], kind='bounded', unwind=ntrees + 2, timeout=1200, mem_gb=16, cbmc_args=['--object-bits', '13'],
             note='parent_cache::populate_unit over every unit tree shape of <= %d DIEs (%d shapes enumerated, offsets symbolic)' % (pn, ntrees)),
         Job('bounded_parent_find_n%d' % fn, [os.path.join(HERE, 'pf_harness.c'), os.path.join(OUT, 'pf_bodies.c')], 'hb_parent_find', includes=inc,
             defines=['NN=%d' % fn], kind='bounded', unwind=nforests + 4, timeout=1800, mem_gb=32, cbmc_args=['--object-bits', '13'],
             note='parent_cache::find twice on one cache, any two DIEs of every forest shape of <= %d DIEs (%d shapes enumerated, offsets symbolic)' % (fn, nforests)),
         Job('parent_find_control', [os.path.join(HERE, 'pf_harness.c'), os.path.join(OUT, 'pf_bodies.c')], 'hb_parent_find_control', includes=inc,
             defines=['NN=%d' % fn, 'VERIF_CONTROL'], kind='control', expect='fail', unwind=nforests + 4, timeout=600, cbmc_args=['--object-bits', '13']),
         Job('bounded_attr_iterator', [os.path.join(HERE, 'ai_harness.c'), os.path.join(OUT, 'ai_bodies.c')], 'hb_attr_iterator', includes=inc, kind='bounded',
             unwind=5, timeout=300, cbmc_args=A, inputs=['d'],
             note='attr_iterator (dwit.hh) over a model of dwarf_getattrs: a DIE with 0..3 attributes of arbitrary names and forms'),
         Job('attr_iterator_control', [os.path.join(HERE, 'ai_harness.c'), os.path.join(OUT, 'ai_bodies.c')], 'hb_attr_iterator_control', includes=inc,
             defines=['VERIF_CONTROL'], kind='control', expect='fail', unwind=5, timeout=300, cbmc_args=A),
         Job('all_dies_control', isrc, 'hb_all_dies_control', includes=inc, defines=D + ['VERIF_CONTROL'], kind='control', expect='fail', unwind=9,
             timeout=600, cbmc_args=A),
         Job('parent_table_control', psrc, 'hb_parent_table_control', includes=inc, defines=['NN=%d' % pn, 'VERIF_CONTROL'], kind='control', expect='fail',
             unwind=ntrees + 2, timeout=600, mem_gb=16, cbmc_args=['--object-bits', '13'])]
    return J


LEVEL = 'other'      # bounded stand-ins only: never reported as proof
TRUSTED = ['tools/cxx2c.py lowering', 'props/c02/dw_model*.h: assumed contract of dwarf_child / dwarf_siblingof / dwarf_offdie / dwarf_dieoffset / dwarf_nextcu on a well-formed .debug_info forest (error returns not modelled)']
ASSUMPTIONS = [
    'libdw is replaced by a forest model: DIEs numbered in section order with a parent array and ascending offsets; a unit DIE has no sibling; unit headers sit a fixed 11 bytes before their unit DIE',
    'std::vector<Dwarf_Off> / std::vector<pair<Dwarf_Off,Dwarf_Off>> are small inline arrays; copying an iterator object is a struct copy',
    'parent_cache::find: the cache (std::map keyed by (Dwarf, unit offset)) and std::lower_bound are modelled (props/c02/pf_model.h); the comparator lambda is not lowered; every forest shape of <= 3 DIEs and every ordered pair of DIEs enumerated, offsets symbolic',
    'attr_iterator: dwarf_getattrs is modelled with elfutils\' documented resume protocol (props/c02/at_model2.h): visits attributes from an offset, stops where the callback says so and returns that offset, 1 when done',
    'BOUNDED: iterator: forests of <= 5 DIEs (6 in thorough), any shape, symbolic; parent table: every unit tree shape of <= 5 DIEs (6 in thorough) enumerated concretely, offsets symbolic',
    'SLICE of C02: the DIE producers of builtin-dw.cc (per-input numbering), `label`/`form`/`offset` words, root_cache and everything elfutils does are NOT covered (parent_cache::find is, bounded); abbreviations claiming children for childless DIEs are a libdw matter (dwarf_child contract)',
]
EXPLANATION = 'Bounded check of the section-order DIE iterator and the parent table on the real code over a libdw model; see DESIGN.md section 4 C02.'


def spec_files():
    return [os.path.join(HERE, f) for f in ('dwit_harness.c', 'pc_harness.c', 'pf_harness.c', 'ai_harness.c', 'dw_model.h', 'dw_model2.h', 'pf_model.h', 'at_model.h', 'at_model2.h')]


def forests(nmax):
    """all parent arrays (section order) of forests with <= nmax DIEs: like unit_trees, but a new DIE may also start a new unit"""
    out = []
    def ext(par):
        out.append(list(par))
        if len(par) == nmax:
            return
        a = len(par) - 1
        while a >= 0:
            ext(par + [a])
            a = par[a]
        ext(par + [-1])
    ext([-1])
    return out


def unit_trees(nmax):
    """all parent arrays (pre-order numbering, node 0 the unit DIE) of rooted ordered trees with <= nmax nodes"""
    out = []
    def ext(par):
        out.append(list(par))
        if len(par) == nmax:
            return
        # the next node hangs below the last node or one of its ancestors
        a = len(par) - 1
        while a >= 0:
            ext(par + [a])
            a = par[a]
    ext([-1])
    return out


def write_trees(nmax):
    ts = unit_trees(nmax)
    with open(os.path.join(OUT, 'pc_trees.h'), 'w') as f:
        f.write('/* GENERATED by props/c02/prop.py: all %d unit tree shapes with <= %d DIEs */\n' % (len(ts), nmax))
        f.write('#define N_TREES %d\n' % len(ts))
        f.write('static const unsigned TREE_N[N_TREES] = {%s};\n' % ', '.join(str(len(t)) for t in ts))
        f.write('static const int TREE_PAR[N_TREES][NN] = {\n')
        for t in ts:
            f.write('  {%s},\n' % ', '.join(str(x) for x in (t + [-2] * nmax)[:nmax]))
        f.write('};\n')


def write_forests(nmax):
    fs = forests(nmax)
    with open(os.path.join(OUT, 'pf_forests.h'), 'w') as f:
        f.write('/* GENERATED by props/c02/prop.py: all %d forest shapes with <= %d DIEs */\n' % (len(fs), nmax))
        f.write('#define N_FORESTS %d\n' % len(fs))
        f.write('static const unsigned FOREST_N[N_FORESTS] = {%s};\n' % ', '.join(str(len(t)) for t in fs))
        f.write('static const int FOREST_PAR[N_FORESTS][NN] = {\n')
        for t in fs:
            f.write('  {%s},\n' % ', '.join(str(x) for x in (t + [-2] * nmax)[:nmax]))
        f.write('};\n')


def prepare(tier):
    a = vlib.extract('dwit', 'libzwerg/dwit.cc', IT_CFG, IT_ROOTS, OUT)
    b = vlib.extract('pc', 'libzwerg/cache.cc', PC_CFG, PC_ROOTS, OUT)
    write_trees(5 if tier == 'quick' else 6)
    c = vlib.extract('pf', 'libzwerg/cache.cc', PF_CFG, PF_ROOTS, OUT)
    ai = vlib.extract('ai', 'libzwerg/dwit.cc', AI_CFG, AI_ROOTS, OUT)
    a.report['functions'] += ai.report['functions']
    b.report['functions'] += [f for f in c.report['functions'] if f['c_name'] == 'parent_cache_find']
    write_forests(3)
    return {'unit': 'libzwerg/dwit.cc (all_dies_iterator, cu_iterator), libzwerg/cache.cc (parent_cache::populate_unit)', 'functions': a.report['functions'] + b.report['functions']}


FILES = ['dwz-partial', 'a1.out', 'nontrivial-types.o', 'twocus', 'haschildren_childless', 'dwz-partial2-1', 'enum.o', 'nullptr.o', 'ptrmember_const_value.o']


def replay(r):
    """Law queries on the sample files of the repository through the real library (dw vocabulary)."""
    import glob
    files = [os.path.join(vlib.REPO, 'tests', f) for f in FILES if os.path.exists(os.path.join(vlib.REPO, 'tests', f))]
    qs, what = [], []
    for f in files:
        for q, w in (('"%s" dwopen (|D| [D raw entry] length == [D raw unit root child*] length)', 'raw entry lists exactly the DIEs reachable by root child*'),
                     ('"%s" dwopen (|D| [D raw entry ?(parent)] length == [D raw entry ?(parent) ?((|E| E parent child ?(E ?eq)))] length)', 'every DIE with a parent is a child of that parent'),
                     ('"%s" dwopen (|D| [D raw entry !(parent)] length == [D raw unit] length)', 'exactly the unit DIEs have no parent'),
                     ('"%s" dwopen (|D| [D raw entry] length == [D raw entry (|E| E parent* ?root)] length)', 'every parent chain ends in a root')):
            qs.append(q % f); what.append((os.path.basename(f), w))
    if not qs:
        return {'reproduced': False, 'note': 'no sample DWARF files found'}
    res = vlib.zw_queries(qs, OUT, dw=True)
    bad = ['%s: law "%s" does not hold (%s)' % (f, w, 'error: ' + str(t) if c is None else 'count %s' % c) for (f, w), (c, t) in zip(what, res) if c != 1]
    return {'reproduced': bool(bad), 'violations_on_real_library': bad[:6], 'queries': len(qs)}
