"""C02 (slice, bounded) -- section-order DIE iteration and the parent table."""
import os, sys
sys.path.insert(0, os.path.join(os.path.dirname(__file__), '..', '..', 'tools'))
import vlib
from vlib import Job

PID = 'C02'
HERE = os.path.dirname(os.path.abspath(__file__))
OUT = os.path.join(vlib.BUILD, 'c02')
VOFF = r'(const )?std::vector<(unsigned long|Dwarf_Off)(, std::allocator<(unsigned long|Dwarf_Off)>)?>'
OPAIR = r'(const )?std::pair<unsigned long, unsigned long>'
VPAIR = r'(const )?(std::vector<' + OPAIR + r'(, std::allocator<' + OPAIR + r'>)?>|parent_cache::unit_cache_t)'
IT_CFG = {
    'names': {'_ZN17all_dies_iteratorppEv': 'all_dies_iterator_preinc', '_ZN17all_dies_iteratorC1EP5Dwarf': 'all_dies_iterator_ctor_dw',
              'cu_iterator::move': 'cu_iterator_move', 'cu_iterator::done': 'cu_iterator_done', 'cu_iterator::end': 'cu_iterator_end',
              '_ZN11cu_iteratorppEv': 'cu_iterator_preinc', 'all_dies_iterator::parent': 'all_dies_iterator_parent',
              'all_dies_iterator::end': 'all_dies_iterator_end'},
    'types': {r'std::iterator<.*>': 'empty_base', VOFF: 'vec_off', r'(struct )?Dwarf': 'void', r'(struct )?Dwarf_CU': 'void', r'(struct )?Dwarf_Abbrev': 'void', r'Dwarf_Off': 'unsigned long'},
    'types_are_records': {VOFF: True, r'std::iterator<.*>': True},
    'record_ctypes': ['vec_off', 'empty_base'],
    'record_default': {'vec_off': 'vec_off_new()'},
    'record_copy': {'all_dies_iterator': 'all_dies_iterator_copy', 'cu_iterator': 'cu_iterator_copy'},
    'types_prelude': '#include "dw_model.h"\n',
    'bodies_prelude': '#include "dw_model2.h"\n',
    'extern': {'__assert_fail': 'verif_assert_fail_libc', 'abort': 'verif_abort',
               r'dwarf_child': 'm_dwarf_child', r'dwarf_siblingof': 'm_dwarf_siblingof', r'dwarf_offdie': 'm_dwarf_offdie',
               r'dwarf_dieoffset': 'm_dwarf_dieoffset', r'dwarf_nextcu': 'm_dwarf_nextcu', r'dwarf_cuoffset': 'm_dwarf_cuoffset',
               r'throw_libdw.*': 'm_throw_libdw',
               VOFF + r'::push_back': 'vec_off_push_back', VOFF + r'::back': 'VEC_OFF_BACK', VOFF + r'::pop_back': 'vec_off_pop_back',
               VOFF + r'::empty': 'VEC_OFF_EMPTY', r'std::operator==\|.*vector.*': 'vec_off_eq'},
}
IT_ROOTS = ['_ZN17all_dies_iteratorppEv', '_ZN17all_dies_iteratorC1EP5Dwarf', 'all_dies_iterator::parent']

PC_CFG = {
    'names': {'parent_cache::recursively_populate_unit': 'recursively_populate_unit', 'parent_cache::populate_unit': 'populate_unit'},
    'types': {OPAIR: 'offpair', VPAIR: 'vec_pair', r'(struct )?Dwarf': 'void', r'(struct )?Dwarf_CU': 'void', r'(struct )?Dwarf_Abbrev': 'void',
              r'Dwarf_Off': 'unsigned long'},
    'types_are_records': {OPAIR: True, VPAIR: True},
    'record_ctypes': ['offpair', 'vec_pair'],
    'record_default': {'vec_pair': 'vec_pair_new()'},
    'opaque_records': ['parent_cache'],
    'types_prelude': '#include "dw_model.h"\ntypedef struct parent_cache parent_cache;\n',
    'bodies_prelude': '#include "dw_model2.h"\n',
    'extern': {'__assert_fail': 'verif_assert_fail_libc', 'abort': 'verif_abort',
               r'dwarf_child': 'm_dwarf_child', r'dwarf_siblingof': 'm_dwarf_siblingof', r'dwarf_offdie': 'm_dwarf_offdie',
               r'dwarf_dieoffset': 'm_dwarf_dieoffset', r'throw_libdw.*': 'm_throw_libdw',
               VPAIR + r'::push_back': 'vec_pair_push_back', r'std::make_pair': 'make_offpair'},
}
PC_ROOTS = ['parent_cache::populate_unit']
