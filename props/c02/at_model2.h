/* Model of the libdw calls used by attr_iterator / attribute_producer (TRUSTED; assumed contract on elfutils):
 * ND DIEs, DIE i has g_na[i] <= NA attributes (code, form) in stored order; a reference attribute k of DIE i points to
 * DIE g_ref[i][k].  dwarf_getattrs (die, cb, arg, offset) visits the attributes from `offset` on (0 = the first; k+2 = the
 * k-th), calls cb for each, and returns the offset of the attribute at which cb asked to stop, or 1 when all were visited
 * (elfutils' documented behaviour).  A Dwarf_Die is identified by .addr = (void *)(index + 1), an attribute by .valp. */
#ifndef C06_AT_MODEL2_H
#define C06_AT_MODEL2_H
#ifndef ND
#define ND 3
#endif
#ifndef NA
#define NA 3
#endif
extern unsigned g_na[ND]; extern unsigned g_code[ND][NA], g_form[ND][NA]; extern int g_ref[ND][NA];
static inline int die_index(const Dwarf_Die *d)
{
  unsigned long a = (unsigned long)d->addr;
  M_ASSERT(a >= 1 && a <= ND, "a valid DIE is passed to libdw");
  return (a >= 1 && a <= ND) ? (int)(a - 1) : 0;
}
static inline void set_die(Dwarf_Die *r, int i) { r->addr = (void *)(unsigned long)(i + 1); r->cu = 0; r->abbrev = 0; r->padding__ = 0; }
#define ATTR_ID(i, k) ((unsigned char *)(unsigned long)((i) * NA + (k) + 1))
static inline long m_dwarf_getattrs(Dwarf_Die *die, int (*cb)(Dwarf_Attribute *, void *), void *arg, long offset)
{
  int i = die_index(die);
  M_ASSERT(offset == 0 || (offset >= 2 && offset - 2 <= (long)g_na[i]), "dwarf_getattrs is resumed at an offset it returned");
  long start = offset == 0 ? 0 : offset - 2;
  for (long k = 0; k < NA; ++k)
    if (k >= start && k < (long)g_na[i])
      {
        Dwarf_Attribute a; a.code = g_code[i][k]; a.form = g_form[i][k]; a.valp = ATTR_ID(i, k); a.cu = 0;
        if (cb(&a, arg) != 0) return k + 2;
      }
  return 1;
}
static inline void m_throw_libdw(void) { verif_raised = 3; }
#endif
