/* C02 (slice, BOUNDED): all_dies_iterator (dwit.cc) -- the iterator behind `raw entry` -- over the libdw forest model.
   For every forest of <= NN DIEs in any number of units (any shape: childless units, deep nesting, many units):
   starting from all_dies_iterator(dw), the iterator yields every DIE exactly once, in section order, its ancestor
   stack holds exactly the offsets of the DIE's ancestors (outermost first), parent() is the parent DIE, and after the
   last DIE it equals end(). */
#define C02_DWIT 1
#include "dwit_types.h"
#include "dwit_protos.h"
#include "dw_model2.h"
int verif_raised;
int g_par[NN]; unsigned long g_off[NN]; unsigned g_n; _Bool g_claims_children[NN];   /* left nondeterministic */
int nondet_int(void); unsigned nondet_uint(void); unsigned long nondet_ulong(void);

static void any_forest(void)
{
  g_n = nondet_uint(); __CPROVER_assume(g_n >= 1 && g_n <= NN);
  for (int i = 0; i < NN; ++i)
    {
      g_par[i] = nondet_int(); g_off[i] = nondet_ulong(); g_claims_children[i] = nondet_int() & 1;
      __CPROVER_assume(g_off[i] < 1000000);
      if (i == 0) __CPROVER_assume(g_par[0] == -1 && g_off[0] == HS);      /* the first unit header is at offset 0 */
      else
        {
          __CPROVER_assume(g_off[i] > g_off[i - 1] + HS);
          /* pre-order: the parent is the previous DIE or one of its ancestors, or the DIE starts a new unit */
          __CPROVER_assume(g_par[i] == -1 || g_par[i] == i - 1 || (g_par[i] >= 0 && g_par[i] < i - 1 && is_descendant(i - 1, g_par[i])));
        }
    }
}
static unsigned depth_of(int i) { unsigned d = 0; int p = g_par[i]; for (unsigned k = 0; k < NN; ++k) { if (p < 0) break; d++; p = g_par[p]; } return d; }
static int ancestor_at(int i, unsigned level)      /* the ancestor of i at depth `level` (0 = unit DIE) */
{
  unsigned d = depth_of(i); int p = i;
  for (unsigned k = 0; k < NN; ++k) { if (d <= level) break; p = g_par[p]; d--; }
  return p;
}

void hb_all_dies(void)
{
  any_forest();
  char dwobj; verif_raised = 0;
  all_dies_iterator it = all_dies_iterator_ctor_dw(&dwobj);
  for (int step = 0; step < NN; ++step)
    if (step < (int)g_n)
      {
        __CPROVER_assert(verif_raised == 0, "no libdw error path is taken on a well-formed section");
        __CPROVER_assert(it.m_cuit.m_offset != (unsigned long)-1, "not yet at end(): every DIE is reached");
        __CPROVER_assert(it.m_die.addr == (void *)(unsigned long)(step + 1), "DIEs are yielded in section order, each exactly once");
        unsigned d = depth_of(step);
        __CPROVER_assert(it.m_stack.n == d, "the ancestor stack is as deep as the DIE is nested");
        for (unsigned l = 0; l < NN; ++l)
          __CPROVER_assert(l >= d || it.m_stack.d[l] == g_off[ancestor_at(step, l)], "the ancestor stack holds the offsets of the DIE's ancestors, outermost first");
        if (d > 0)
          {
            all_dies_iterator p = all_dies_iterator_parent(&it);
            __CPROVER_assert(p.m_die.addr == (void *)(unsigned long)(g_par[step] + 1) && p.m_stack.n == d - 1, "parent() is the DIE's parent");
          }
        all_dies_iterator_preinc(&it);
      }
  __CPROVER_assert(verif_raised == 0, "no libdw error path is taken on a well-formed section");
  all_dies_iterator e = all_dies_iterator_end();
  __CPROVER_assert(x__ZNK17all_dies_iteratoreqERKS_(&it, &e), "after the last DIE the iterator equals end()");
}
#ifdef VERIF_CONTROL
void hb_all_dies_control(void)
{
  any_forest();
  __CPROVER_assume(g_n >= 3);
  char dwobj; verif_raised = 0;
  all_dies_iterator it = all_dies_iterator_ctor_dw(&dwobj);
  all_dies_iterator_preinc(&it); all_dies_iterator_preinc(&it);
  __CPROVER_assert(it.m_stack.n <= 1, "CONTROL (must fail): DIEs are never nested deeper than one level");
}
#endif
