/* second half of the libdw model: needs Dwarf_Die (lowered from libdw.h) */
#ifndef C02_DW_MODEL2_H
#define C02_DW_MODEL2_H
static inline int die_index(const Dwarf_Die *d)
{
  unsigned long a = (unsigned long)d->addr;
  M_ASSERT(a >= 1 && a <= g_n, "a valid DIE is passed to libdw");
  return (a >= 1 && a <= g_n) ? (int)(a - 1) : 0;
}
static inline void set_die(Dwarf_Die *r, int i) { r->addr = (void *)(unsigned long)(i + 1); r->cu = 0; r->abbrev = 0; r->padding__ = 0; }
static inline _Bool is_descendant(int j, int i)          /* j strictly below i */
{
  int p = g_par[j];
  for (unsigned k = 0; k < NN; ++k) { if (p == i) return 1; if (p < 0) return 0; p = g_par[p]; }
  return 0;
}
static inline int m_dwarf_child(Dwarf_Die *d, Dwarf_Die *r)
{
  int i = die_index(d);
  if (i + 1 < (int)g_n && g_par[i + 1] == i) { set_die(r, i + 1); return 0; }
  return 1;
}
static inline int m_next_sibling_index(int i)          /* index of the next sibling of DIE i, -1 if none */
{
  if (g_par[i] < 0) return -1;                          /* a unit DIE has no siblings */
  for (int j = i + 1; j < NN; ++j)
    if (j < (int)g_n && !is_descendant(j, i))
      return g_par[j] == g_par[i] ? j : -1;
  return -1;
}
static inline int m_dwarf_siblingof(Dwarf_Die *d, Dwarf_Die *r)
{
  int j = m_next_sibling_index(die_index(d));
  if (j < 0) return 1;
  set_die(r, j);
  return 0;
}
static inline Dwarf_Die *m_dwarf_offdie(void *dw, unsigned long off, Dwarf_Die *r)
{
  for (int j = 0; j < NN; ++j) if (j < (int)g_n && g_off[j] == off) { set_die(r, j); return r; }
  return (Dwarf_Die *)0;
}
static inline int m_dwarf_haschildren(Dwarf_Die *d)
{
  int i = die_index(d);
  if (i + 1 < (int)g_n && g_par[i + 1] == i) return 1;
  return g_claims_children[i] ? 1 : 0;
}
#ifdef DW_MODEL_ATTRS
/* dwarf_attr_integrate (die, DW_AT_sibling, &attr): the attribute of the DIE itself, else of the DIE named by its
   DW_AT_abstract_origin / DW_AT_specification (followed transitively, as elfutils does); only DW_AT_sibling (0x01) is modelled.
   dwarf_attr: the DIE's own attribute only.  The attribute is identified by its owner: valp = (owner index + 1). */
/* Dwarf_Attribute is only among the generated types when the lowered code uses it; the model goes through its layout
   (libdw.h: unsigned code; unsigned form; unsigned char *valp; struct Dwarf_CU *cu) */
typedef struct m_attr_layout { unsigned code; unsigned form; unsigned char *valp; void *cu; } m_attr_layout;
static inline void *m_dwarf_attr_common(Dwarf_Die *d, unsigned name, void *rv, _Bool integrate)
{
  m_attr_layout *r = (m_attr_layout *)rv;
  int i = die_index(d);
  M_ASSERT(name == 0x01, "only DW_AT_sibling lookups are modelled");
  for (unsigned hop = 0; hop < NN; ++hop)
    {
      if (g_has_sibling_attr[i] && m_next_sibling_index(i) >= 0) { r->code = 0x01; r->form = 0x13; r->valp = (unsigned char *)(unsigned long)(i + 1); r->cu = 0; return r; }
      if (!integrate || g_origin[i] < 0 || g_origin[i] >= (int)g_n) return (void *)0;
      i = g_origin[i];
    }
  return (void *)0;
}
static inline void *m_dwarf_attr_integrate(Dwarf_Die *d, unsigned name, void *r) { return m_dwarf_attr_common(d, name, r, 1); }
static inline void *m_dwarf_attr(Dwarf_Die *d, unsigned name, void *r) { return m_dwarf_attr_common(d, name, r, 0); }
static inline Dwarf_Die *m_dwarf_formref_die(void *atv, Dwarf_Die *r)
{
  unsigned long id = (unsigned long)((m_attr_layout *)atv)->valp;
  M_ASSERT(id >= 1 && id <= g_n, "a valid attribute is passed to libdw");
  int t = m_next_sibling_index((int)(id - 1));
  if (t < 0) return (Dwarf_Die *)0;
  set_die(r, t);
  return r;
}
#endif
static inline unsigned long m_dwarf_dieoffset(Dwarf_Die *d) { return g_off[die_index(d)]; }
static inline unsigned long m_dwarf_cuoffset(Dwarf_Die *d)
{
  int i = die_index(d);
  for (unsigned k = 0; k < NN; ++k) { if (g_par[i] < 0) break; i = g_par[i]; }
  return g_off[die_index(d)] - (g_off[i] - HS);
}
static inline int m_dwarf_nextcu(void *dw, unsigned long off, unsigned long *next, unsigned long *hsize, void *a, void *b, void *c)
{
  for (int j = 0; j < NN; ++j)
    if (j < (int)g_n && g_par[j] < 0 && g_off[j] - HS == off)
      {
        *hsize = HS;
        *next = SECTION_END;
        for (int k = NN - 1; k > j; --k) if (k < (int)g_n && g_par[k] < 0) *next = g_off[k] - HS;
        return 0;
      }
  return 1;
}
static char g_dwarf_obj;
static inline Dwarf_Die *m_dwarf_diecu(Dwarf_Die *d, Dwarf_Die *r, void *a, void *b)
{
  int i = die_index(d);
  for (unsigned k = 0; k < NN; ++k) { if (g_par[i] < 0) break; i = g_par[i]; }
  set_die(r, i);
  return r;
}
static inline void *m_dwarf_cu_getdwarf(void *cu) { return &g_dwarf_obj; }
static inline void m_throw_libdw(void) { verif_raised = 3; }
#ifdef C05_CUI
static inline cu_iterator cu_iterator_copy(const cu_iterator *p) { return *p; }
#endif
#ifdef C05_CHILD
static inline child_iterator child_iterator_copy(const child_iterator *p) { return *p; }
#endif
#ifdef C02_DWIT
static inline all_dies_iterator all_dies_iterator_copy(const all_dies_iterator *p) { return *p; }   /* the vector model is an inline array: struct copy is a deep copy */
static inline cu_iterator cu_iterator_copy(const cu_iterator *p) { return *p; }
#endif
#endif
