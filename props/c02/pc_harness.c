/* C02/C05 (slice, BOUNDED): parent_cache::populate_unit / recursively_populate_unit (cache.cc) -- the per-unit
   (offset, parent offset) table behind `parent` -- over the libdw forest model.  For every unit tree of <= NN DIEs:
   the table lists every DIE of the unit exactly once, in ascending offset order (find() searches it with
   lower_bound), each with the offset of its true parent (no_off for the unit DIE). */
#include "pc_types.h"
#include "pc_protos.h"
#include "dw_model2.h"
int verif_raised;
int g_par[NN]; unsigned long g_off[NN]; unsigned g_n; _Bool g_claims_children[NN];   /* left nondeterministic */
int nondet_int(void); unsigned nondet_uint(void); unsigned long nondet_ulong(void);

#include "pc_trees.h"      /* written by prop.py: every unit tree shape with <= NN DIEs as a parent array (pre-order numbering) */
void hb_parent_table(void)
{
  /* shapes are enumerated concretely (control flow of the recursion depends on the shape only), offsets are arbitrary */
  for (int i = 0; i < NN; ++i)
    {
      g_off[i] = nondet_ulong(); g_claims_children[i] = nondet_ulong() & 1;
      __CPROVER_assume(g_off[i] < 1000000);
      if (i == 0) __CPROVER_assume(g_off[0] == HS); else __CPROVER_assume(g_off[i] > g_off[i - 1] + HS);
    }
  for (unsigned t = 0; t < N_TREES; ++t)
    {
      g_n = TREE_N[t];
      for (int i = 0; i < NN; ++i) g_par[i] = TREE_PAR[t][i];
      Dwarf_Die root; set_die(&root, 0);
      verif_raised = 0;
      vec_pair tab = populate_unit((parent_cache *)0, root);
      __CPROVER_assert(verif_raised == 0, "no libdw error path is taken on a well-formed unit");
      __CPROVER_assert(tab.n == g_n, "every DIE of the unit is listed, none twice");
      for (unsigned i = 0; i < NN; ++i)
        if (i < g_n)
          {
            __CPROVER_assert(tab.d[i].first == g_off[i], "the table is in section order (ascending offsets), one entry per DIE");
            __CPROVER_assert(tab.d[i].second == (g_par[i] < 0 ? (unsigned long)-1 : g_off[g_par[i]]), "each DIE is listed with the offset of its true parent");
          }
    }
}
#ifdef VERIF_CONTROL
void hb_parent_table_control(void)
{
  g_n = 3; g_par[0] = -1; g_par[1] = 0; g_par[2] = 1; g_off[0] = HS; g_off[1] = 40; g_off[2] = 80;
  Dwarf_Die root; set_die(&root, 0); verif_raised = 0;
  vec_pair t = populate_unit((parent_cache *)0, root);
  __CPROVER_assert(t.d[2].second == g_off[0], "CONTROL (must fail): a grandchild is listed under the unit DIE");
}
#endif
