/* Model of the libdw calls used by the DIE iterators (TRUSTED; assumed contract on elfutils):
 * a .debug_info section is a forest: NN DIEs numbered in section (pre-)order, g_par[i] = index of the parent of DIE i
 * or -1 for a unit DIE; offsets g_off[] strictly ascending; unit k's header sits HS bytes before its unit DIE.
 *   dwarf_child(d, r)      0 and r = first child if d has children, 1 if not
 *   dwarf_siblingof(d, r)  0 and r = next sibling, 1 if there is none (unit DIEs have none); r may alias d
 *   dwarf_offdie(dw, o, r) r = the DIE at offset o, NULL if there is none
 *   dwarf_dieoffset(d)     its offset
 *   dwarf_haschildren(d)   the abbreviation's flag: 1 for every DIE with children, 0 or 1 for childless ones
 *   dwarf_nextcu(dw, o, &next, &hsize, ...)  0 if a unit header starts at o (next = following header or section end), 1 at section end
 * Errors (-1) are not modelled.  A Dwarf_Die is identified by .addr = (void *)(index + 1). */
#ifndef C02_DW_MODEL_H
#define C02_DW_MODEL_H
#include "../common.h"
#include <stddef.h>
#ifndef NN
#define NN 5
#endif
#define HS 11
#define VMAXO 8
typedef struct empty_base { char unused; } empty_base;
typedef struct vec_off { unsigned long d[VMAXO]; unsigned long n; } vec_off;
typedef struct offpair { unsigned long first; unsigned long second; } offpair;
typedef struct vec_pair { offpair d[VMAXO]; unsigned long n; } vec_pair;
extern int g_par[NN]; extern unsigned long g_off[NN]; extern unsigned g_n;
extern _Bool g_claims_children[NN];
#ifdef DW_MODEL_ATTRS
/* optional attribute layer: DIE i may carry DW_AT_sibling (pointing, as DWARF requires, at its next sibling) and may name another
   DIE as its DW_AT_abstract_origin (-1: none) */
extern _Bool g_has_sibling_attr[NN]; extern int g_origin[NN];
#endif   /* the abbreviation's has-children flag: true for every DIE that has children, arbitrary for the others */      /* g_n <= NN DIEs in play */
#ifdef VERIF_CBMC
#define M_ASSERT(c, msg) __CPROVER_assert(c, "libdw model: " msg)
#else
#define M_ASSERT(c, msg) ((c) ? (void)0 : verif_assert_fail("libdw model: " msg))
#endif
#define SECTION_END (g_off[g_n - 1] + 100)
static inline vec_off vec_off_new(void) { vec_off v; v.n = 0; return v; }
static inline void vec_off_push_back(vec_off *v, const unsigned long *x) { M_ASSERT(v->n < VMAXO, "ancestor stack fits"); if (v->n < VMAXO) v->d[v->n++] = *x; }
#define VEC_OFF_BACK(v) (M_ASSERT((v)->n > 0, "back() of a non-empty vector"), &(v)->d[(v)->n > 0 ? (v)->n - 1 : 0])
static inline void vec_off_pop_back(vec_off *v) { M_ASSERT(v->n > 0, "pop_back of a non-empty vector"); if (v->n > 0) v->n--; }
#define VEC_OFF_SIZE(v) ((unsigned long)(v)->n)
#define VEC_OFF_EMPTY(v) ((_Bool)((v)->n == 0))
static inline _Bool vec_off_eq(const vec_off *a, const vec_off *b)
{ if (a->n != b->n) return 0; for (unsigned i = 0; i < VMAXO; ++i) if (i < a->n && a->d[i] != b->d[i]) return 0; return 1; }
static inline vec_pair vec_pair_new(void) { vec_pair v; v.n = 0; return v; }
static inline void vec_pair_push_back(vec_pair *v, const offpair *x) { M_ASSERT(v->n < VMAXO, "parent table fits"); if (v->n < VMAXO) v->d[v->n++] = *x; }
static inline offpair make_offpair(const unsigned long *a, const unsigned long *b) { offpair p; p.first = *a; p.second = *b; return p; }
#endif
