#ifndef C06_AT_MODEL_H
#define C06_AT_MODEL_H
#include "../common.h"
#include <stddef.h>
typedef struct empty_base { char unused; } empty_base;
#ifdef VERIF_CBMC
#define M_ASSERT(c, msg) __CPROVER_assert(c, "libdw attribute model: " msg)
#else
#define M_ASSERT(c, msg) ((c) ? (void)0 : verif_assert_fail("libdw attribute model: " msg))
#endif
#endif
