/* C02/C05 (slice, BOUNDED): parent_cache::find (cache.cc) -- what the word `parent` looks up -- over the libdw forest
   model, with the cache (std::map keyed by (Dwarf, unit offset)) and std::lower_bound modelled.  For every forest shape
   of <= NN DIEs (any number of units), arbitrary ascending offsets and ANY two DIEs a, b looked up one after the other
   on the same cache: each lookup returns the offset of the DIE's true parent (no_off for a unit DIE) -- in particular
   the table cached for a's unit is not used for a DIE of another unit. */
#include "pf_types.h"
#include "pf_protos.h"
#include "dw_model2.h"
#include "pf_forests.h"
int verif_raised;
int g_par[NN]; unsigned long g_off[NN]; unsigned g_n; _Bool g_claims_children[NN];
unsigned nondet_uint(void); unsigned long nondet_ulong(void);

void hb_parent_find(void)
{
  for (int i = 0; i < NN; ++i)
    {
      g_off[i] = nondet_ulong(); g_claims_children[i] = nondet_ulong() & 1;
      __CPROVER_assume(g_off[i] < 1000000);
      if (i == 0) __CPROVER_assume(g_off[0] == HS); else __CPROVER_assume(g_off[i] > g_off[i - 1] + HS);
    }
  /* shapes and the two DIEs are enumerated concretely (the recursion's control flow depends on them only) */
  for (unsigned t = 0; t < N_FORESTS; ++t)
    {
      g_n = FOREST_N[t];
      for (int i = 0; i < NN; ++i) g_par[i] = FOREST_PAR[t][i];
      for (unsigned a = 0; a < NN; ++a) for (unsigned b = 0; b < NN; ++b)
      if (a < g_n && b < g_n)
        {
          parent_cache pc;
          for (unsigned k = 0; k <= PCK; ++k) pc.m_cache.e[k].used = 0;
          Dwarf_Die da, db; set_die(&da, (int)a); set_die(&db, (int)b);
          verif_raised = 0;
          unsigned long pa = parent_cache_find(&pc, da);
          unsigned long pb = parent_cache_find(&pc, db);
          __CPROVER_assert(verif_raised == 0, "no error, no failed assert()");
          __CPROVER_assert(pa == (g_par[a] < 0 ? (unsigned long)-1 : g_off[g_par[a]]), "first lookup: the offset of the DIE's true parent");
          __CPROVER_assert(pb == (g_par[b] < 0 ? (unsigned long)-1 : g_off[g_par[b]]), "second lookup on the same cache: the offset of the DIE's true parent, whatever unit was cached first");
        }
    }
}
#ifdef VERIF_CONTROL
void hb_parent_find_control(void)
{
  g_n = 3; g_par[0] = -1; g_par[1] = 0; g_par[2] = -1; g_off[0] = HS; g_off[1] = 40; g_off[2] = 80;
  parent_cache pc; for (unsigned k = 0; k <= PCK; ++k) pc.m_cache.e[k].used = 0;
  Dwarf_Die d; set_die(&d, 1); verif_raised = 0;
  __CPROVER_assert(parent_cache_find(&pc, d) == (unsigned long)-1, "CONTROL (must fail): a child has no parent");
}
#endif
