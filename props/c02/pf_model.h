/* Model of parent_cache::cache_t = std::map<std::pair<Dwarf *, Dwarf_Off>, unit_cache_t> and of std::lower_bound on the
 * unit table (TRUSTED): a small association list keyed by (Dwarf, unit-DIE offset); insert does not overwrite;
 * lower_bound = first entry whose .first is not less than the key (the comparator lambda is not lowered). */
#ifndef C02_PF_MODEL_H
#define C02_PF_MODEL_H
#define PCK 4
typedef struct dwkey { void *first; unsigned long second; } dwkey;
typedef struct pcentry { dwkey first; vec_pair second; _Bool used; } pcentry;
typedef struct pcmap { pcentry e[PCK + 1]; } pcmap;              /* e[PCK] is end() */
typedef struct pcins { pcentry *first; _Bool second; } pcins;
#define PTR_ID(p) (p)
#define IT_EQ(a, b) ((_Bool)((a) == (b)))
#define IT_NE(a, b) ((_Bool)((a) != (b)))
static inline dwkey make_dwkey(void *const *dw, const unsigned long *off) { dwkey k; k.first = *dw; k.second = *off; return k; }
static inline pcentry make_pcentry(const dwkey *k, const vec_pair *t) { pcentry e; e.first = *k; e.second = *t; e.used = 1; return e; }
static inline pcentry *pcmap_end(pcmap *m) { return &m->e[PCK]; }
static inline pcentry *pcmap_find(pcmap *m, const dwkey *k)
{
  for (unsigned i = 0; i < PCK; ++i) if (m->e[i].used && m->e[i].first.first == k->first && m->e[i].first.second == k->second) return &m->e[i];
  return &m->e[PCK];
}
static inline pcins pcmap_insert(pcmap *m, const pcentry *v)
{
  pcins r; r.first = pcmap_find(m, &v->first); r.second = 0;
  if (r.first != &m->e[PCK]) return r;
  for (unsigned i = 0; i < PCK; ++i) if (!m->e[i].used) { m->e[i] = *v; m->e[i].used = 1; r.first = &m->e[i]; r.second = 1; return r; }
  M_ASSERT(0, "cache model large enough");
  return r;
}
#define VPAIR_BEGIN(v) (&(v)->d[0])
#define VPAIR_END(v) (&(v)->d[(v)->n <= VMAXO ? (v)->n : VMAXO])
static inline offpair *vec_pair_lower_bound(offpair *b, offpair *e, const unsigned long *key, int cmp)
{
  for (unsigned i = 0; i < VMAXO; ++i) if (b + i < e && !(b[i].first < *key)) return b + i;
  return e;
}
#endif
