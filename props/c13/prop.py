"""C13 (slice) -- layout arithmetic: reservations in the state area are aligned and disjoint."""
import os, sys
sys.path.insert(0, os.path.join(os.path.dirname(__file__), '..', '..', 'tools'))
import vlib
from vlib import Job
sys.path.insert(0, os.path.join(os.path.dirname(__file__), '..', 'bx'))
import bxcfg

PID = 'C13'
HERE = os.path.dirname(os.path.abspath(__file__))
OUT = os.path.join(vlib.BUILD, 'c13')
VL = r'std::vector<layout(, std::allocator<layout>)?>'
VLIT = r'__gnu_cxx::__normal_iterator<(const )?layout \*, std::vector<layout.*>>'
CFG = {
    'types': {VL: 'vec_layout', VLIT + r'|std::vector<layout>::(const_)?iterator': 'layout *'},
    'types_are_records': {VL: True},
    'record_ctypes': ['vec_layout'],
    'types_prelude': '#include "vecgen.h"\ntypedef struct layout layout;\nVERIF_VEC(vec_layout, layout);\n',
    'extern': {VL + r'::begin': 'GVEC_BEGIN', VL + r'::end': 'GVEC_END', VL + r'::size': 'GVEC_SIZE', VL + r'::empty': 'GVEC_EMPTY',
               r'std::max_element': 'layout_max_element', VLIT + r'::operator->': {'c': 'PTR_ID', 'by_value': True},
               r'__gnu_cxx::operator!=': {'c': 'GIT_NE', 'by_value': True}, r'__gnu_cxx::operator==': {'c': 'GIT_EQ', 'by_value': True},
               VLIT + r'::operator\+\+': 'GIT_PREINC', VLIT + r'::operator\*': {'c': 'GIT_DEREF', 'by_value': True}},
    'loop_contracts': {'layout_add_union': {1: '''__CPROVER_assigns(__begin1, self->m_size)
__CPROVER_loop_invariant(__CPROVER_same_object(__begin1, layouts.data) && __CPROVER_POINTER_OFFSET(__begin1) <= layouts.len * sizeof(layout) && __CPROVER_POINTER_OFFSET(__begin1) % sizeof(layout) == 0)
__CPROVER_loop_invariant(__end1 == layouts.data + layouts.len)
__CPROVER_loop_invariant(self->m_size >= __CPROVER_loop_entry(self->m_size))
__CPROVER_loop_invariant(g_k * sizeof(layout) >= __CPROVER_POINTER_OFFSET(__begin1) || self->m_size >= layouts.data[g_k].m_size)
__CPROVER_decreases(layouts.len * sizeof(layout) - __CPROVER_POINTER_OFFSET(__begin1))'''}},
    'bodies_prelude': 'extern size_t g_k;\n#include "layout_algo_model.h"\n',
    'names': {'layout::add_union': 'layout_add_union', '(anonymous namespace)::align': 'layout_align', 'layout::reserve|layout::loc (size_t, size_t)': 'layout_reserve',
              'layout::size': 'layout_size', '_ZN6layout3locC1Em': 'layout_loc_ctor'},
}
ROOTS = ['layout::reserve|layout::loc (size_t, size_t)', 'layout::size', 'layout::add_union']
LEX_CFG = {
    'names': {'parse_esc_num': 'lex_parse_esc_num'},
    'extern': {'memcpy': 'memcpy', 'strtoul': 'verif_strtoul'},
    'bodies_prelude': '#include "libc_model.h"\n',
}
LEX_ROOTS = ['parse_esc_num']
SPX = r'(const )?std::(shared_ptr<(op|op_origin|stringer|stringer_origin)>|__shared_ptr<(op|op_origin|stringer|stringer_origin).*>|__shared_ptr_access<(op|op_origin|stringer|stringer_origin).*>)'
VOPS = r'(const )?std::vector<std::shared_ptr<op>(, std::allocator<std::shared_ptr<op>>)?>'
VOPIT = r'__gnu_cxx::__normal_iterator<(const )?std::shared_ptr<op> \*, std::vector<std::shared_ptr<op>.*>>'
LIFE_OPS = ['op_origin', 'op_subx', 'op_tr_closure', 'op_capture', 'op_bind', 'op_ifelse', 'op_format', 'op_merge']
LIFE_CFG = {
    'names': dict([('%s::state_con' % o, '%s_state_con' % o) for o in LIFE_OPS] + [('%s::state_des' % o, '%s_state_des' % o) for o in LIFE_OPS] +
                  [('inner_op::state_con', 'inner_op_state_con'), ('inner_op::state_des', 'inner_op_state_des')]),
    'types': {SPX: 'op *', r'(const )?scon': 'mscon', r'layout::loc': 'unsigned long', VOPS: 'vec_opp',
              VOPIT + r'|std::vector<std::shared_ptr<op>>::(const_)?iterator': 'op *const *',
              r'std::vector<std::shared_ptr<op>>::size_type|std::vector::size_type': 'size_t'},
    'types_are_records': {r'(const )?scon': True, VOPS: True},
    'record_ctypes': ['mscon', 'vec_opp'],
    'types_prelude': '#include "life_model.h"\ntypedef struct op op;\nVERIF_VEC(vec_opp, op *);\n',
    'bodies_prelude': '#include "life_model2.h"\n',
    'virtual': {'op::state_con': 'op_state_con_model', 'op::state_des': 'op_state_des_model',
                'stringer::state_con': 'op_state_con_model', 'stringer::state_des': 'op_state_des_model'},
    'extern': {r'scon::con': 'SCON_CON', r'scon::des': 'SCON_DES',
               r'std::__shared_ptr_access<(op|op_origin|stringer|stringer_origin).*>::operator->': {'c': 'PTR_ID', 'by_value': True},
               VOPS + r'::size': 'GVEC_SIZE', VOPS + r'::begin': 'GVEC_BEGIN', VOPS + r'::end': 'GVEC_END',
               r'__gnu_cxx::operator!=': {'c': 'GIT_NE', 'by_value': True},
               VOPIT + r'::operator\+\+': 'GIT_PREINC', VOPIT + r'::operator\*': {'c': 'GIT_DEREF', 'by_value': True}},
}
LIFE_ROOTS = ['%s::state_con' % o for o in LIFE_OPS] + ['%s::state_des' % o for o in LIFE_OPS]
INPUTS = ['a', 'b', 'in_size', 'in_align', 's1', 'a1', 's2', 'a2']


EV_UNWIND = 12


LOOP_CONTRACT_APPLIED = {'add_union': True}


BX_DROPPED = {}


def jobs(tier):
    src = [os.path.join(HERE, 'harness.c'), os.path.join(OUT, 'layout_bodies.c')]
    inc = [OUT, os.path.join(vlib.VERIF, 'props'), HERE]
    J = []
    def add(name, harness, enforce, replace=(), **kw):
        J.append(Job(name, src, harness, enforce=enforce, replace=replace, includes=inc, inputs=INPUTS, timeout=300, **kw))
    add('align', 'h_align', 'layout_align')
    add('reserve', 'h_reserve', 'layout_reserve', replace=['layout_align'])
    add('size', 'h_size', 'layout_size')
    J.append(Job('bounded_add_union_small', src, 'hb_add_union_small', includes=inc, kind='bounded', unwind=6, timeout=300,
                 note='add_union with <= 3 alternatives, plain unwinding: exact maximum; independent of how the function is written'))
    if LOOP_CONTRACT_APPLIED['add_union']:
        J.append(Job('add_union', src, 'h_add_union', enforce='layout_add_union', loop_contracts=True, includes=inc, timeout=600,
                     inputs=['g_k'], note='range-for loop closed by a loop contract with a ghost index: any number of alternatives (<= 4096)'))
    # else: add_union no longer has the loop the contract was written for (rewritten): a failing frame or invariant obligation
    # of the stale contract would be a failed PROOF, not a violation -- the job is left out, the bounded job above decides, and the
    # evidence says so (ASSUMPTIONS, added in prepare)
    add('two_reservations', 'h_two_reservations', None, replace=['layout_reserve'], kind='lemma',
        note='client lemma proved from the contract of reserve alone')
    lsrc = src + [os.path.join(OUT, 'lex_bodies.c')]
    J.append(Job('parse_esc_num', lsrc, 'h_parse_esc_num', enforce='lex_parse_esc_num', includes=inc,
                 inputs=['in_len', 'in_ignore', 'in_base'], defines=['C13_LEXER'], timeout=600, unwind=8,
                 note='loops only in the strtoul model, bounded by the 4 characters the scanner rule admits (full unwind = complete)'))
    fsrc = [os.path.join(HERE, 'life_harness.c'), os.path.join(OUT, 'life_bodies.c')]
    for o in ('origin', 'subx', 'tr_closure', 'capture', 'bind', 'ifelse', 'format'):
        J.append(Job('lifecycle_' + o, fsrc, 'h_life_' + o, includes=inc, kind='proof', unwind=EV_UNWIND, timeout=300,
                     cbmc_args=['--object-bits', '10'],
                     note='op_%s::state_con then ::state_des against the ghost event log; loop-free code, the harness loops run over the 10-entry log (full unwinding)' % o))
    J.append(Job('bounded_lifecycle_merge', fsrc, 'hb_life_merge', includes=inc, kind='bounded', unwind=EV_UNWIND, timeout=300,
                 cbmc_args=['--object-bits', '10'], note='op_merge with at most 3 branches'))
    add('control', 'h_control', None, defines=['VERIF_CONTROL'], kind='control', expect='fail')
    J += bxcfg.jobs(vlib, Job, OUT, ['ifelse'], control=False)
    return J


LEVEL = 'proof'
TRUSTED = ['tools/cxx2c.py lowering (no native fidelity check for this unit: three loop-free functions, text compared by eye in DESIGN.md)']
ASSUMPTIONS = [
    'build_exec (build.cc): only the cases IFELSE ALT SCOPE CAPTURE CLOSE_STAR CLOSE_PLUS OR CAT READ BIND BLOCK FORMAT SUBX_EVAL ASSERT of its switch are lowered (cxx2c keep_cases; the other cases are dropped and reaching one is a failed obligation); the recursive call is an ASSUMED contract with a ghost call log (records tree, layout, scope, upstream; never shrinks the layout -- re-established for the lowered cases), operator constructors that take a layout reserve an arbitrary non-empty range at its end (contract of layout::reserve, C13), layout::add_union by its C13 contract (props/bx/bx_model.h)',
    'alignment is a power of two (alignof of a C++ type always is) and sizes keep the area below 2^48 bytes',
    'add_union: std::vector<layout> by the generic (data,len,cap) model props/vecgen.h; contract states the lower bounds (never shrinks, at least as large as every alternative), not that it is exactly the maximum',
    'parse_esc_num: precondition = the scanner rules that call it (\\[0-3][0-7]?[0-7]? and \\x HEX HEX); strtoul by props/c13/libc_model.h (assumed contract on glibc); the operand of throw (message construction) is dropped',
    'state life cycle (lifecycle_* jobs): scon::con/des and the sub-operators\' virtual state_con/state_des are modelled by a ghost event log (props/c13/life_model*.h); covered operators: op_origin, op_subx, op_tr_closure, op_capture, op_bind, op_ifelse, op_format, op_merge',
    'SLICE: lazily constructed states (scon_guard in op_ifelse/pred_subx_any/op_apply), op_or, overload instances, leaks, use-after-free and parser memory are NOT covered',
]
EXPLANATION = 'Only the layout arithmetic that places states in the shared state area; see DESIGN.md section 4 C13.'


def spec_files():
    return [os.path.join(vlib.VERIF, 'props', 'bx', 'bx_harness.c'), os.path.join(vlib.VERIF, 'props', 'bx', 'bx_model.h')] + [os.path.join(HERE, 'spec.h'), os.path.join(HERE, 'harness.c')]


def prepare(tier):
    global BX_DROPPED
    bxw, BX_DROPPED = bxcfg.prepare(vlib, OUT)
    lw = vlib.extract('layout', 'libzwerg/layout.cc', CFG, ROOTS, OUT)
    LOOP_CONTRACT_APPLIED['add_union'] = 'layout_add_union#1' in lw.report.get('loop_contracts_applied', [])
    note = 'add_union: the loop the loop contract was written for is gone (function rewritten); the unbounded add_union obligation was NOT checked in this run, only the bounded one (<= 3 alternatives)'
    if not LOOP_CONTRACT_APPLIED['add_union'] and note not in ASSUMPTIONS:
        ASSUMPTIONS.append(note)
    gen = vlib.gen_frontend(os.path.join(OUT, 'gen'))
    lx = vlib.extract('lex', os.path.join(gen, 'lexer.cc'), LEX_CFG, LEX_ROOTS, OUT, extra_flags=['-I' + gen])
    lf = vlib.extract('life', 'libzwerg/op.cc', LIFE_CFG, LIFE_ROOTS, OUT)
    lx.report['functions'] += lf.report['functions']
    return {'build_exec_cases_lowered': BX_DROPPED.get('kept'), 'build_exec_cases_dropped_by_extraction': BX_DROPPED.get('dropped'), 'build_exec_functions': bxw.report['functions'], 'units': ['libzwerg/layout.cc', 'libzwerg/lexer.ll (through flex, regenerated on every run)'],
            'functions': lw.report['functions'] + lx.report['functions'],
            'dropped': lx.report.get('throws', [])}


IFELSE_QUERIES = [('if ?(0 == 1) then "a" else (1, 2, 3)', '<1> <2> <3>'),
                  ('if ?(0 == 1) then "a" else if ?(0 == 1) then "b" else "c"', '<c>'),
                  ('if ?(1 == 1) then if ?(0 == 1) then "b" else "c" else "a"', '<c>'),
                  ('[if ?(0 == 1) then "a" else if ?(0 == 1) then "b" else (1 (|A| A 2 (|B| A B add)))] length', '<1>'),
                  ('(1, 2) (if ?(0 == 1) then "a" else if ?(0 == 1) then "b" else (3, 4)) (5, 6)', '<1|3|5> <1|3|6> <1|4|5> <1|4|6> <2|3|5> <2|3|6> <2|4|5> <2|4|6>'),
                  ('if ?((1, 2) (3, 4) ?eq) then "a" else "b"', '<b>')]


def replay(r):
    """if/else job only: the verifier's counterexample is a set of state sizes of the abstract arms, so it is not replayed
    literally; if/else queries whose arms differ in footprint are run on the real library under valgrind (memcheck)."""
    if 'build_exec_ifelse' not in r.job.name:
        return None
    res = vlib.zw_queries([q for q, e in IFELSE_QUERIES], OUT)
    exe = os.path.join(OUT, 'zwq')
    bad = []
    for (q, e), (cnt, txt) in zip(IFELSE_QUERIES, res):
        if cnt is None or (txt or '').strip() != e:
            bad.append('`%s` yields %s, expected %s' % (q, txt if cnt is not None else 'an error/crash', e))
            continue
        rc, out, err, w = vlib.run(['valgrind', '-q', '--error-exitcode=99', exe, q], timeout=300)
        if rc == 99:
            first = [l for l in err.split('\n') if 'Invalid' in l or 'uninitialised' in l][:1]
            bad.append('`%s`: valgrind reports %s' % (q, (first[0].split('== ')[-1] if first else 'a memory error')))
    return {'reproduced': bool(bad), 'violations_on_real_library': bad[:6], 'queries': len(IFELSE_QUERIES)}
