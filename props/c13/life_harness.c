/* C13 (state life cycle): "constructs each operator's run-time state exactly once ... and destroys it
   exactly once": for each operator class with its own state_con/state_des (op.cc), constructing and then
   destroying it constructs its own state area and each of its sub-operators exactly once, destroys exactly
   those, each exactly once, in the reverse order.  Sub-operators' own functions and scon::con/des are
   modelled by a ghost event log (life_model.h).  op_merge: any number of branches <= 3 (bounded). */
#include "life_types.h"
#include "life_protos.h"
#include "life_model2.h"
int verif_raised;
int g_ev_kind[EV_MAX]; const void *g_ev_who[EV_MAX]; unsigned g_nev;
size_t nondet_size(void); unsigned long nondet_ulong(void);

static unsigned count(int kind, const void *who, unsigned from, unsigned to)
{
  unsigned c = 0;
  for (unsigned i = 0; i < EV_MAX; ++i)
    if (i >= from && i < to && g_ev_kind[i] == kind && g_ev_who[i] == who) c++;
  return c;
}

/* after con (events [0, mid)) and des (events [mid, g_nev)): mirrored */
static void check_mirror(unsigned mid, unsigned expected)
{
  __CPROVER_assert(mid == expected && g_nev == 2 * expected, "as many destructions as constructions, all expected participants");
  for (unsigned i = 0; i < EV_MAX; ++i)
    if (i < mid)
      {
        unsigned j = g_nev - 1 - i;
        __CPROVER_assert(g_ev_who[j] == g_ev_who[i] && g_ev_kind[j] == g_ev_kind[i] + 1, "destruction mirrors construction in reverse order");
        __CPROVER_assert(count(g_ev_kind[i], g_ev_who[i], 0, mid) == 1, "nothing is constructed twice");
      }
}

#define CHILDREN3 op c1, c2, up;
void h_life_origin(void) { op_origin o; mscon sc; o.m_ll = nondet_ulong(); g_nev = 0;
  op_origin_state_con(&o, &sc); unsigned mid = g_nev; op_origin_state_des(&o, &sc);
  check_mirror(mid, 1); __CPROVER_assert(count(EV_CON_OWN, (const void *)o.m_ll, 0, mid) == 1, "own state constructed once"); }

void h_life_subx(void) { op c1, up; op_subx o; mscon sc; o.m_ll = nondet_ulong(); o.m_op = &c1; o.__base0.m_upstream = &up; g_nev = 0;
  op_subx_state_con(&o, &sc); unsigned mid = g_nev; op_subx_state_des(&o, &sc);
  check_mirror(mid, 3);
  __CPROVER_assert(count(EV_CON_OWN, (const void *)o.m_ll, 0, mid) == 1 && count(EV_CON_CHILD, &c1, 0, mid) == 1 && count(EV_CON_CHILD, &up, 0, mid) == 1,
                   "own state, the sub-expression and the upstream are each constructed once"); }

void h_life_tr_closure(void) { op c1, up; op_tr_closure o; mscon sc; o.m_ll = nondet_ulong(); o.m_op = &c1; o.__base0.m_upstream = &up; g_nev = 0;
  op_tr_closure_state_con(&o, &sc); unsigned mid = g_nev; op_tr_closure_state_des(&o, &sc);
  check_mirror(mid, 3);
  __CPROVER_assert(count(EV_CON_OWN, (const void *)o.m_ll, 0, mid) == 1 && count(EV_CON_CHILD, &c1, 0, mid) == 1 && count(EV_CON_CHILD, &up, 0, mid) == 1,
                   "own state, the body and the upstream are each constructed once"); }

void h_life_capture(void) { op c1, up; op_capture o; mscon sc; o.m_op = &c1; o.__base0.m_upstream = &up; g_nev = 0;
  op_capture_state_con(&o, &sc); unsigned mid = g_nev; op_capture_state_des(&o, &sc);
  check_mirror(mid, 2);
  __CPROVER_assert(count(EV_CON_CHILD, &c1, 0, mid) == 1 && count(EV_CON_CHILD, &up, 0, mid) == 1, "the captured expression and the upstream are each constructed once"); }

void h_life_bind(void) { op up; op_bind o; mscon sc; o.m_ll = nondet_ulong(); o.__base0.m_upstream = &up; g_nev = 0;
  op_bind_state_con(&o, &sc); unsigned mid = g_nev; op_bind_state_des(&o, &sc);
  check_mirror(mid, 2);
  __CPROVER_assert(count(EV_CON_OWN, (const void *)o.m_ll, 0, mid) == 1 && count(EV_CON_CHILD, &up, 0, mid) == 1, "own state and the upstream are each constructed once"); }

void h_life_ifelse(void) { op up; op_ifelse o; mscon sc; o.m_ll = nondet_ulong(); o.__base0.m_upstream = &up; g_nev = 0;
  op_ifelse_state_con(&o, &sc); unsigned mid = g_nev; op_ifelse_state_des(&o, &sc);
  check_mirror(mid, 2);
  __CPROVER_assert(count(EV_CON_OWN, (const void *)o.m_ll, 0, mid) == 1 && count(EV_CON_CHILD, &up, 0, mid) == 1, "own state and the upstream are each constructed once"); }

void h_life_format(void) { op c1, up; op_format o; mscon sc; o.m_ll = nondet_ulong(); o.m_stringer = &c1; o.__base0.m_upstream = &up; g_nev = 0;
  op_format_state_con(&o, &sc); unsigned mid = g_nev; op_format_state_des(&o, &sc);
  check_mirror(mid, 3);
  __CPROVER_assert(count(EV_CON_OWN, (const void *)o.m_ll, 0, mid) == 1 && count(EV_CON_CHILD, &c1, 0, mid) == 1 && count(EV_CON_CHILD, &up, 0, mid) == 1,
                   "own state, the stringer chain and the upstream are each constructed once"); }

void hb_life_merge(void) { op b[3], up; op *bp[3] = {&b[0], &b[1], &b[2]}; op_merge o; mscon sc;
  o.m_ll = nondet_ulong(); o.__base0.m_upstream = &up; o.m_ops.data = bp; o.m_ops.cap = 3; o.m_ops.len = nondet_size();
  __CPROVER_assume(o.m_ops.len <= 3); g_nev = 0;
  op_merge_state_con(&o, &sc); unsigned mid = g_nev; op_merge_state_des(&o, &sc);
  __CPROVER_assert(mid == 2 + o.m_ops.len && g_nev == 2 * mid, "own state, every branch and the upstream: as many destructions as constructions");
  __CPROVER_assert(count(EV_CON_OWN, (const void *)o.m_ll, 0, mid) == 1 && count(EV_DES_OWN, (const void *)o.m_ll, mid, g_nev) == 1, "own state constructed and destroyed once");
  __CPROVER_assert(count(EV_CON_CHILD, &up, 0, mid) == 1 && count(EV_DES_CHILD, &up, mid, g_nev) == 1, "upstream constructed and destroyed once");
  for (unsigned k = 0; k < 3; ++k)
    __CPROVER_assert(k >= o.m_ops.len || (count(EV_CON_CHILD, &b[k], 0, mid) == 1 && count(EV_DES_CHILD, &b[k], mid, g_nev) == 1),
                     "every branch constructed and destroyed exactly once");
  __CPROVER_assert(g_ev_kind[0] == EV_CON_OWN && g_ev_kind[g_nev - 1] == EV_DES_OWN, "own state is constructed first and destroyed last");
}
