#include "spec.h"
int verif_raised;
size_t nondet_size(void);
layout *nondet_layout(void);

void h_align(void) { size_t a = nondet_size(), b = nondet_size(); layout_align(a, b); }
void h_reserve(void) { layout *l = nondet_layout(); size_t in_size = nondet_size(), in_align = nondet_size(); layout_reserve(l, in_size, in_align); }
size_t g_k;
void h_add_union(void) { layout *l = nondet_layout(); vec_layout v; g_k = nondet_size(); layout_add_union(l, v); }
void h_size(void) { layout *l = nondet_layout(); layout_size(l); }

/* client lemma over the contracts only (both reserve calls replaced by their contract):
   two successive reservations never overlap and the second lies beyond the first. */
void h_two_reservations(void)
{
  layout l0; layout *l = &l0;
  l->m_size = nondet_size();
  size_t s1 = nondet_size(), a1 = nondet_size(), s2 = nondet_size(), a2 = nondet_size();
  __CPROVER_assume(POW2(a1) && POW2(a2) && a1 <= 4096 && a2 <= 4096);
  __CPROVER_assume(s1 <= ((size_t)1 << 40) && s2 <= ((size_t)1 << 40) && l->m_size <= ((size_t)1 << 40));
  layout__loc x = layout_reserve(l, s1, a1);
  layout__loc y = layout_reserve(l, s2, a2);
  __CPROVER_assert(x.m_loc + s1 <= y.m_loc, "successive reservations are disjoint");
  __CPROVER_assert(y.m_loc + s2 <= l->m_size, "area covers both states");
}

#ifdef C13_LEXER
const char *nondet_cstr(void);
int nondet_int(void);
void h_parse_esc_num(void)
{
  const char *in_str = nondet_cstr();
  int in_len = nondet_int(), in_ignore = nondet_int(), in_base = nondet_int();
  verif_raised = 0;
  lex_parse_esc_num(in_str, in_len, in_ignore, in_base);
}
#endif

#ifdef VERIF_CONTROL
void h_control(void)
{
  layout l0; l0.m_size = nondet_size();
  size_t s = nondet_size();
  __CPROVER_assume(s <= LIM && l0.m_size <= LIM);
  layout__loc x = layout_reserve(&l0, s, 8);
  __CPROVER_assert(x.m_loc == 0, "CONTROL (must fail): every state is placed at offset 0");
}
#endif

/* BOUNDED companion of add_union (<= 3 alternatives, plain unwinding, no loop contract): the area ends exactly as large
   as the largest of itself and the alternatives.  Independent of how the function is written. */
void hb_add_union_small(void)
{
  layout l0, alts[3]; vec_layout v;
  l0.m_size = nondet_size();
  for (unsigned i = 0; i < 3; ++i) alts[i].m_size = nondet_size();
  v.data = alts; v.cap = 3; v.len = nondet_size(); __CPROVER_assume(v.len <= 3);
  size_t expect = l0.m_size;
  for (unsigned i = 0; i < 3; ++i) if (i < v.len && alts[i].m_size > expect) expect = alts[i].m_size;
  layout_add_union(&l0, v);
  __CPROVER_assert(l0.m_size == expect, "after add_union the area is exactly as large as the largest of itself and the alternatives");
}
