/* Model for the state life-cycle functions of op.cc (TRUSTED):
 *   scon::con<State>(loc, args...) / scon::des<State>(loc)  construct / destroy the state object at `loc`
 *   op::state_con(sc) / op::state_des(sc) on a sub-operator  (virtual) construct / destroy its states
 * Every such event is appended to a ghost log; the obligations are stated over the log. */
#ifndef C13_LIFE_MODEL_H
#define C13_LIFE_MODEL_H
#include "../common.h"
#include "vecgen.h"
#define EV_MAX 10
typedef struct mscon { char dummy; } mscon;
enum { EV_CON_OWN = 1, EV_DES_OWN = 2, EV_CON_CHILD = 3, EV_DES_CHILD = 4 };
extern int g_ev_kind[EV_MAX]; extern const void *g_ev_who[EV_MAX]; extern unsigned g_nev;
static inline void life_log(int kind, const void *who)
{
#ifdef VERIF_CBMC
  __CPROVER_assert(g_nev < EV_MAX, "life-cycle model: event log large enough");
#endif
  if (g_nev < EV_MAX) { g_ev_kind[g_nev] = kind; g_ev_who[g_nev] = who; g_nev++; }
}
#define SCON_CON(sc, loc, ...) life_log(EV_CON_OWN, (const void *)(loc))
#define SCON_DES(sc, loc) life_log(EV_DES_OWN, (const void *)(loc))
#define PTR_ID(p) (p)
#endif
