/* Model of strtoul for the calls made by parse_esc_num (TRUSTED; assumed contract on glibc):
   optional white space and sign are not skipped here because the caller's inputs start with a digit
   (stated as a precondition); base 16 accepts an optional 0x prefix; digits are consumed while valid
   in the base; *endptr is set to the first unconsumed character.  memcpy is CBMC's own model. */
#ifndef C13_LIBC_MODEL_H
#define C13_LIBC_MODEL_H
#include <string.h>
#include <stdlib.h>
#ifdef VERIF_CBMC
static inline int verif_digit(char c)
{
  if (c >= '0' && c <= '9') return c - '0';
  if (c >= 'a' && c <= 'z') return c - 'a' + 10;
  if (c >= 'A' && c <= 'Z') return c - 'A' + 10;
  return 99;
}
static inline unsigned long verif_strtoul(const char *s, char **endptr, int base)
{
  unsigned long v = 0;
  const char *p = s;
  if (base == 16 && p[0] == '0' && (p[1] == 'x' || p[1] == 'X') && verif_digit(p[2]) < 16)
    p += 2;
  while (verif_digit(*p) < base)
    {
      v = v * (unsigned long)base + (unsigned long)verif_digit(*p);
      ++p;
    }
  if (endptr)
    *endptr = (char *)p;
  return v;
}
#else
#define verif_strtoul strtoul
#endif
#endif
