/* Models of <algorithm> calls a rewrite of layout::add_union may use (TRUSTED): std::max_element over [b, e) with a
 * comparator lowered from a capture-less lambda (called with a null closure pointer). */
#ifndef C13_LAYOUT_ALGO_MODEL_H
#define C13_LAYOUT_ALGO_MODEL_H
#define PTR_ID(p) (p)
#define GVEC_EMPTY(v) ((_Bool)((v)->len == 0))
#define ALGO_MAX 4
static inline layout *layout_max_element(layout *b, layout *e, _Bool (*cmp)(const void *, const layout *, const layout *))
{
  if (b == e) return e;
  layout *largest = b;
  for (unsigned i = 1; i < ALGO_MAX; ++i)
    if (b + i < e && cmp((const void *)0, largest, b + i)) largest = b + i;
  return largest;
}
#endif
