#ifndef C13_LIFE_MODEL2_H
#define C13_LIFE_MODEL2_H
static inline void op_state_con_model(const op *child, mscon *sc) { life_log(EV_CON_CHILD, child); }
static inline void op_state_des_model(const op *child, mscon *sc) { life_log(EV_DES_CHILD, child); }
#endif
