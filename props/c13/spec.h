/* C13 (slice) -- layout arithmetic of the shared state area (libzwerg/layout.cc).
 *
 * "no two live states overlapping in the shared state area": every state of a query is placed by
 * layout::reserve(size, align).  Contract: for a power-of-two alignment and sizes that keep the
 * area below 2^48 bytes, the returned location is at or beyond everything reserved before, is
 * aligned, and the area grows to exactly location+size -- hence successive reservations are
 * pairwise disjoint and correctly aligned.  add_union: the area becomes at least as large as the
 * largest alternative and never shrinks.
 */
#ifndef C13_SPEC_H
#define C13_SPEC_H
#include "../common.h"
#include "layout_types.h"
#include "layout_protos.h"
#ifdef C13_LEXER
#include "lex_types.h"
#include "lex_protos.h"
#endif

#define RET __CPROVER_return_value
#define POW2(a) ((a) != 0 && ((a) & ((a) - 1)) == 0)
#define LIM ((size_t)1 << 48)

size_t layout_align(size_t top, size_t align)
__CPROVER_requires(POW2(align) && top <= LIM && align <= LIM)
__CPROVER_ensures(RET >= top && RET - top < align && RET % align == 0)
__CPROVER_assigns();

layout__loc layout_reserve(layout *self, size_t size, size_t align)
__CPROVER_requires(__CPROVER_is_fresh(self, sizeof(layout)))
__CPROVER_requires(POW2(align) && align <= LIM && size <= LIM && self->m_size <= LIM)
__CPROVER_ensures(RET.m_loc >= __CPROVER_old(self->m_size))            /* beyond all earlier states */
__CPROVER_ensures(RET.m_loc - __CPROVER_old(self->m_size) < align)     /* no more padding than needed */
__CPROVER_ensures(RET.m_loc % align == 0)                              /* aligned */
__CPROVER_ensures(self->m_size == RET.m_loc + size)                    /* area covers the new state exactly */
__CPROVER_assigns(self->m_size);

/* union of alternatives (if/else arms, overload alternatives share one area): afterwards the area is
   at least as large as before and as every alternative; g_k is an arbitrary fixed index */
extern size_t g_k;
void layout_add_union(layout *self, vec_layout layouts)
__CPROVER_requires(__CPROVER_is_fresh(self, sizeof(layout)) && layouts.len <= 4096)
__CPROVER_requires(__CPROVER_is_fresh(layouts.data, layouts.len * sizeof(layout)) && g_k < 4096)
__CPROVER_ensures(self->m_size >= __CPROVER_old(self->m_size))
__CPROVER_ensures(g_k < layouts.len ==> self->m_size >= layouts.data[g_k].m_size)
__CPROVER_assigns(self->m_size);

size_t layout_size(const layout *self)
__CPROVER_requires(__CPROVER_is_fresh(self, sizeof(layout)))
__CPROVER_ensures(RET == self->m_size)
__CPROVER_assigns();
#ifdef C13_LEXER
/* ---- lexer.ll: parse_esc_num ---------------------------------------------------------------
 * Called by the scanner for  \[0-3][0-7]?[0-7]?  (ignore=1, base 8) and  \x HEX HEX  (ignore=2,
 * base 16) with str = yytext and len = yyleng: exactly `len` readable bytes, no terminator
 * guaranteed.  The regular expressions are the precondition.  Contract: no access outside
 * [str, str+len), no error raised, and the value of the digits is returned as a byte. */
#define OCT(c) ((c) >= '0' && (c) <= '7')
#define HEXD(c) (((c) >= '0' && (c) <= '9') || ((c) >= 'a' && (c) <= 'f') || ((c) >= 'A' && (c) <= 'F'))
#define HEXV(c) ((c) <= '9' ? (c) - '0' : (c) >= 'a' ? (c) - 'a' + 10 : (c) - 'A' + 10)
#define ESC_PRE(str, len, ignore, base) \
  (((base) == 8 && (ignore) == 1 && (len) >= 2 && (len) <= 4 && (str)[0] == '\\' && (str)[1] >= '0' && (str)[1] <= '3' && \
    ((len) < 3 || OCT((str)[2])) && ((len) < 4 || OCT((str)[3]))) || \
   ((base) == 16 && (ignore) == 2 && (len) == 4 && (str)[0] == '\\' && (str)[1] == 'x' && HEXD((str)[2]) && HEXD((str)[3])))
#define ESC_VAL(str, len, base) ((base) == 16 ? HEXV((str)[2]) * 16 + HEXV((str)[3]) : \
   (len) == 2 ? (str)[1] - '0' : (len) == 3 ? ((str)[1] - '0') * 8 + ((str)[2] - '0') : \
   (((str)[1] - '0') * 8 + ((str)[2] - '0')) * 8 + ((str)[3] - '0'))

extern const void *__CPROVER_alloca_object;
char lex_parse_esc_num(const char *str, int len, int ignore, int base)
__CPROVER_requires(len >= 2 && len <= 4 && __CPROVER_is_fresh(str, len))
__CPROVER_requires(ESC_PRE(str, len, ignore, base) && verif_raised == 0)
__CPROVER_ensures(verif_raised == 0)
__CPROVER_ensures((unsigned char)RET == (unsigned char)ESC_VAL(str, len, base))
/* __CPROVER_alloca_object: CBMC's own bookkeeping for the alloca'd buffer (the lowered VLA) */
__CPROVER_assigns(verif_raised, __CPROVER_alloca_object);
#endif
#endif
