/* C13 (slice) -- layout arithmetic of the shared state area (libzwerg/layout.cc).
 *
 * "no two live states overlapping in the shared state area": every state of a query is placed by
 * layout::reserve(size, align).  Contract: for a power-of-two alignment and sizes that keep the
 * area below 2^48 bytes, the returned location is at or beyond everything reserved before, is
 * aligned, and the area grows to exactly location+size -- hence successive reservations are
 * pairwise disjoint and correctly aligned.  add_union: the area becomes at least as large as the
 * largest alternative and never shrinks.
 */
#ifndef C13_SPEC_H
#define C13_SPEC_H
#include "../common.h"
#include "layout_types.h"
#include "layout_protos.h"

#define RET __CPROVER_return_value
#define POW2(a) ((a) != 0 && ((a) & ((a) - 1)) == 0)
#define LIM ((size_t)1 << 48)

size_t layout_align(size_t top, size_t align)
__CPROVER_requires(POW2(align) && top <= LIM && align <= LIM)
__CPROVER_ensures(RET >= top && RET - top < align && RET % align == 0)
__CPROVER_assigns();

layout__loc layout_reserve(layout *self, size_t size, size_t align)
__CPROVER_requires(__CPROVER_is_fresh(self, sizeof(layout)))
__CPROVER_requires(POW2(align) && align <= LIM && size <= LIM && self->m_size <= LIM)
__CPROVER_ensures(RET.m_loc >= __CPROVER_old(self->m_size))            /* beyond all earlier states */
__CPROVER_ensures(RET.m_loc - __CPROVER_old(self->m_size) < align)     /* no more padding than needed */
__CPROVER_ensures(RET.m_loc % align == 0)                              /* aligned */
__CPROVER_ensures(self->m_size == RET.m_loc + size)                    /* area covers the new state exactly */
__CPROVER_assigns(self->m_size);

size_t layout_size(const layout *self)
__CPROVER_requires(__CPROVER_is_fresh(self, sizeof(layout)))
__CPROVER_ensures(RET == self->m_size)
__CPROVER_assigns();
#endif
