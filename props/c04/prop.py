"""C04 (slice) -- three-valued predicate algebra."""
import os, sys
sys.path.insert(0, os.path.join(os.path.dirname(__file__), '..', '..', 'tools'))
import vlib
from vlib import Job

PID = 'C04'
HERE = os.path.dirname(os.path.abspath(__file__))
OUT = os.path.join(vlib.BUILD, 'c04')
CFG = {
    'names': {'_Znt11pred_result': 'pred_not_op', '_Zaa11pred_resultS_': 'pred_and_op', '_Zoo11pred_resultS_': 'pred_or_op'},
    'extern': {'abort': 'verif_abort'},
}
ROOTS = ['_Znt11pred_result', '_Zaa11pred_resultS_', '_Zoo11pred_resultS_']
INPUTS = ['in_a', 'in_b', 'a']


def jobs(tier):
    src = [os.path.join(HERE, 'harness.c'), os.path.join(OUT, 'pred_bodies.c')]
    inc = [OUT, os.path.join(vlib.VERIF, 'props'), HERE]
    J = []
    def add(name, harness, enforce, replace=(), **kw):
        J.append(Job(name, src, harness, enforce=enforce, replace=replace, includes=inc, inputs=INPUTS, timeout=300, **kw))
    add('not', 'h_not', 'pred_not_op')
    add('and', 'h_and', 'pred_and_op')
    add('or', 'h_or', 'pred_or_op')
    add('laws', 'h_laws', None, replace=['pred_not_op'], kind='lemma', note='client lemmas proved from the contract of operator! alone')
    add('control', 'h_control', None, defines=['VERIF_CONTROL'], kind='control', expect='fail')
    return J


LEVEL = 'proof'
TRUSTED = ['tools/cxx2c.py lowering']
ASSUMPTIONS = [
    'type invariant: a pred_result holds one of its three enumerators',
    'SLICE: that ?(E)/!(E)/infix operators leave the incoming stack unchanged (op_assert, pred_subx_any, op_subx in op.cc) is NOT covered',
]
EXPLANATION = 'Only the three-valued operator table; see DESIGN.md section 4 C04.'


def spec_files():
    return [os.path.join(HERE, 'spec.h'), os.path.join(HERE, 'harness.c')]


def prepare(tier):
    lw = vlib.extract('pred', 'libzwerg/pred_result.cc', CFG, ROOTS, OUT)
    return {'unit': 'libzwerg/pred_result.hh (via pred_result.cc)', 'functions': lw.report['functions']}


def replay(r):
    op = r.job.name
    if op not in ('not', 'and', 'or') or not r.cex:
        return {'reproduced': False, 'note': 'no operator-level counterexample'}
    exe = os.path.join(OUT, 'native_driver')
    vlib.native(['g++', '-std=c++14', '-O1', '-I%s/libzwerg' % vlib.REPO, os.path.join(HERE, 'native_driver.cc'), '-o', exe])
    names = {'0': 'no', '1': 'yes', '2': 'fail'}
    def code(x):
        s = str(x)
        for k, v in (('fail', 2), ('yes', 1), ('no', 0)):
            if k in s:
                return v
        return int(''.join(ch for ch in s if ch.isdigit()) or 0)
    a, b = code(r.cex.get('in_a', 0)), code(r.cex.get('in_b', 0))
    rc, out, err, w = vlib.run([exe, op, str(a), str(b)], timeout=20)
    got = int(out.strip() or -1)
    if op == 'not':
        exp = {0: 1, 1: 0, 2: 2}[a]
    elif op == 'and':
        exp = 2 if 2 in (a, b) else int(a == 1 and b == 1)
    else:
        exp = 2 if 2 in (a, b) else int(a == 1 or b == 1)
    return {'reproduced': got != exp, 'op': op, 'a': names[str(a)], 'b': names[str(b)],
            'observed_on_real_code': names.get(str(got), got), 'expected': names[str(exp)]}
