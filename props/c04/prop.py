"""C04 (slice) -- three-valued predicate algebra."""
import os, sys
sys.path.insert(0, os.path.join(os.path.dirname(__file__), '..', '..', 'tools'))
import vlib
from vlib import Job

PID = 'C04'
HERE = os.path.dirname(os.path.abspath(__file__))
OUT = os.path.join(vlib.BUILD, 'c04')
CFG = {
    'names': {'_Znt11pred_result': 'pred_not_op', '_Zaa11pred_resultS_': 'pred_and_op', '_Zoo11pred_resultS_': 'pred_or_op'},
    'extern': {'abort': 'verif_abort'},
}
ROOTS = ['_Znt11pred_result', '_Zaa11pred_resultS_', '_Zoo11pred_resultS_']
INPUTS = ['in_a', 'in_b', 'a']


def jobs(tier):
    src = [os.path.join(HERE, 'harness.c'), os.path.join(OUT, 'pred_bodies.c')]
    inc = [OUT, os.path.join(vlib.VERIF, 'props'), HERE]
    J = []
    def add(name, harness, enforce, replace=(), **kw):
        J.append(Job(name, src, harness, enforce=enforce, replace=replace, includes=inc, inputs=INPUTS, timeout=300, **kw))
    add('not', 'h_not', 'pred_not_op')
    add('and', 'h_and', 'pred_and_op')
    add('or', 'h_or', 'pred_or_op')
    add('laws', 'h_laws', None, replace=['pred_not_op'], kind='lemma', note='client lemmas proved from the contract of operator! alone')
    add('control', 'h_control', None, defines=['VERIF_CONTROL'], kind='control', expect='fail')
    return J


LEVEL = 'proof'
TRUSTED = ['tools/cxx2c.py lowering']
ASSUMPTIONS = [
    'type invariant: a pred_result holds one of its three enumerators',
    'SLICE: that ?(E)/!(E)/infix operators leave the incoming stack unchanged (op_assert, pred_subx_any, op_subx in op.cc) is NOT covered',
]
EXPLANATION = 'Only the three-valued operator table; see DESIGN.md section 4 C04.'


def spec_files():
    return [os.path.join(HERE, 'spec.h'), os.path.join(HERE, 'harness.c')]


def prepare(tier):
    lw = vlib.extract('pred', 'libzwerg/pred_result.cc', CFG, ROOTS, OUT)
    return {'unit': 'libzwerg/pred_result.hh (via pred_result.cc)', 'functions': lw.report['functions']}
