"""C04 (slice) -- three-valued predicate algebra."""
import os, sys
sys.path.insert(0, os.path.join(os.path.dirname(__file__), '..', '..', 'tools'))
import vlib
from vlib import Job
sys.path.insert(0, os.path.join(os.path.dirname(__file__), '..', 'bx'))
import bxcfg

PID = 'C04'
HERE = os.path.dirname(os.path.abspath(__file__))
OUT = os.path.join(vlib.BUILD, 'c04')
CFG = {
    'names': {'_Znt11pred_result': 'pred_not_op', '_Zaa11pred_resultS_': 'pred_and_op', '_Zoo11pred_resultS_': 'pred_or_op'},
    'extern': {'abort': 'verif_abort'},
}
SPO = r'(const )?std::(shared_ptr<op>|__shared_ptr<op.*>|__shared_ptr_access<op.*>)'
UPP = r'(const )?std::(unique_ptr<pred(, std::default_delete<pred>)?>|shared_ptr<pred>|__shared_ptr<pred.*>|__shared_ptr_access<pred.*>)'
UPS = r'(std::)?unique_ptr<stack(, std::default_delete<stack>)?>'
OP_CFG = {
    'names': {'pred_not::result': 'pred_not_result', 'pred_and::result': 'pred_and_result', 'pred_or::result': 'pred_or_result',
              'op_assert::next': 'op_assert_next', '_Znt11pred_result': 'pred_not_op', '_Zaa11pred_resultS_': 'pred_and_op',
              '_Zoo11pred_resultS_': 'pred_or_op'},
    'types': {SPO: 'op *', UPP: 'pred *', UPS: 'stack *', r'std::nullptr_t': 'void *'},
    'opaque_records': ['scon', 'stack'],
    'types_prelude': 'typedef struct scon scon; typedef struct stack stack;\n',
    'bodies_prelude': '#include "op_model.h"\n',
    'virtual': {'pred::result': 'pred_result_model', 'op::next': 'op_next_model'},
    'extern': {r'std::(__shared_ptr_access<(op|pred).*>|unique_ptr<pred.*>)::operator->': {'c': 'PTR_ID', 'by_value': True},
               r'std::(__shared_ptr_access<(op|pred).*>|unique_ptr<pred.*>)::operator\*': {'c': 'PTR_ID', 'by_value': True},
               UPS + r'::operator\*': {'c': 'PTR_ID', 'by_value': True}, UPS + r'::operator bool': {'c': 'PTR_BOOL', 'by_value': True},
               r'abort': 'verif_abort'},
    'loop_contracts': {'op_assert_next': {1: '''__CPROVER_assigns(g_i)
__CPROVER_loop_invariant(g_i <= g_n && g_i >= __CPROVER_loop_entry(g_i))
__CPROVER_loop_invariant(g_k < __CPROVER_loop_entry(g_i) || g_k >= g_i || g_verdict[g_k] != 1)
__CPROVER_decreases(g_n - g_i)'''}},
}
UPV = r'(const )?std::unique_ptr<(zw_)?value(, std::default_delete<(zw_)?value>)?>'
VECV = r'std::vector<' + UPV + r'(, std::allocator<' + UPV + r'>)?>'
SUBX_CFG = {
    'names': {'op_subx::next': 'op_subx_next'},
    'types': {r'(const )?std::(shared_ptr<(op|op_origin)>|__shared_ptr<(op|op_origin).*>|__shared_ptr_access<(op|op_origin).*>)': 'op *',
              r'(const )?' + UPS: 'mstack *', UPV: 'int', VECV: 'ivec', r'stack': 'mstack', r'std::nullptr_t': 'void *',
              r'scon': 'mscon', r'layout::loc': 'unsigned long'},
    'types_are_records': {VECV: True, r'stack': True, r'scon': True},
    'record_ctypes': ['ivec', 'mstack', 'mscon'],
    'record_default': {'ivec': 'ivec_new()'},
    'types_prelude': '#include "subx_model.h"\n',
    'bodies_prelude': '#include "subx_model2.h"\n',
    'virtual': {'op::next': 'op_next_model'},
    'extern_may_raise': ['mstack_pop'],
    'extern': {r'std::__shared_ptr_access<(op|op_origin).*>::operator->': {'c': 'PTR_ID', 'by_value': True},
               r'(const )?' + UPS + r'::operator->': {'c': 'PTR_ID', 'by_value': True},
               r'(const )?' + UPS + r'::operator\*': {'c': 'PTR_ID', 'by_value': True},
               r'(const )?' + UPS + r'::operator bool': {'c': 'PTR_BOOL', 'by_value': True},
               r'std::operator==\|.*nullptr_t\).*': {'c': 'UPTR_IS_NULL', 'by_value': True},
               r'std::operator!=\|.*nullptr_t\).*': {'c': 'UPTR_NOT_NULL', 'by_value': True},
               r'std::make_unique': 'mstack_clone', r'std::move': 'VERIF_MOVE',
               r'scon::get': 'scon_get_state', r'op_origin::set_next': 'origin_set_next',
               r'stack::pop': 'mstack_pop', r'stack::push': 'mstack_push', r'stack::size': 'MSTACK_SIZE',
               VECV + r'::push_back': 'ivec_push_back', VECV + r'::back': 'IVEC_BACK', VECV + r'::pop_back': 'ivec_pop_back'},
}
SUBX_ROOTS = ['op_subx::next']
OP_ROOTS = ['pred_not::result', 'pred_and::result', 'pred_or::result', 'op_assert::next']
ROOTS = ['_Znt11pred_result', '_Zaa11pred_resultS_', '_Zoo11pred_resultS_']
INPUTS = ['in_a', 'in_b', 'a']


def jobs(tier):
    src = [os.path.join(HERE, 'harness.c'), os.path.join(OUT, 'pred_bodies.c')]
    inc = [OUT, os.path.join(vlib.VERIF, 'props'), HERE]
    J = []
    def add(name, harness, enforce, replace=(), **kw):
        J.append(Job(name, src, harness, enforce=enforce, replace=replace, includes=inc, inputs=INPUTS, timeout=300, **kw))
    add('not', 'h_not', 'pred_not_op')
    add('and', 'h_and', 'pred_and_op')
    add('or', 'h_or', 'pred_or_op')
    add('laws', 'h_laws', None, replace=['pred_not_op'], kind='lemma', note='client lemmas proved from the contract of operator! alone')
    osrc = [os.path.join(HERE, 'op_harness.c'), os.path.join(OUT, 'op_bodies.c')]
    J.append(Job('assert_next', osrc, 'h_assert_next', enforce='op_assert_next', loop_contracts=True, includes=inc, timeout=600,
                 inputs=['g_n', 'g_i', 'g_k'], note='loop contract with a ghost index: unbounded in the number of upstream stacks (<= 4096)'))
    for nm in ('not', 'and', 'or'):
        J.append(Job('pred_%s_result' % nm, osrc, 'h_pred_' + nm, enforce='pred_%s_result' % nm,
                     includes=inc, timeout=300, inputs=['g_va', 'g_vb'],
                     note='operator!/&&/|| inlined here (their own contracts are the jobs not/and/or)'))
    xsrc = [os.path.join(HERE, 'subx_harness.c'), os.path.join(OUT, 'subx_bodies.c')]
    J.append(Job('bounded_subx_next', xsrc, 'hb_subx_next', includes=inc, kind='bounded', unwind=10, timeout=1500,
                 cbmc_args=['--object-bits', '10'], inputs=['had_saved'],
                 note='bounded: upstream <= 2 stacks, <= 3 yields of the sub-expression, keep <= 2, incoming depth <= 4; stacks by the abstract model'))
    J.append(Job('subx_control', xsrc, 'hb_subx_control', includes=inc, defines=['VERIF_CONTROL'], kind='control', expect='fail',
                 unwind=10, timeout=600, cbmc_args=['--object-bits', '10']))
    add('control', 'h_control', None, defines=['VERIF_CONTROL'], kind='control', expect='fail')
    J += bxcfg.jobs(vlib, Job, OUT, ['subx_eval', 'assert'], control=False)
    return J


LEVEL = 'proof'
TRUSTED = ['tools/cxx2c.py lowering']
ASSUMPTIONS = [
    'build_exec (build.cc), cases SUBX_EVAL and ASSERT lowered with the other cases of its switch dropped (cxx2c keep_cases); the recursive call, build_pred and the operator constructors are assumed contracts with a ghost log (props/bx/bx_model.h); build_pred itself is checked under C03 (scope of ?( )/!( ))',
    'type invariant: a pred_result holds one of its three enumerators',
    'op_assert::next / pred_not,and,or::result: the virtual calls op::next and pred::result are modelled (props/c04/op_model.h); the model predicate does not modify the stack it is given -- whether real predicates (pred_subx_any, word predicates) do is NOT covered; destruction of rejected stacks (unique_ptr) not modelled',
    'op_subx::next (bounded job): stacks, smart pointers, the state area and the virtual op::next are modelled (props/c04/subx_model*.h); deep copy of a stack is the model\'s copy',
    'SLICE: pred_subx_any, op_bind/let, op_capture and the parser\'s desugaring of infix operators are NOT covered',
]
EXPLANATION = 'Only the three-valued operator table; see DESIGN.md section 4 C04.'


def spec_files():
    return [os.path.join(HERE, 'spec.h'), os.path.join(HERE, 'harness.c'), os.path.join(vlib.VERIF, 'props', 'bx', 'bx_harness.c'), os.path.join(vlib.VERIF, 'props', 'bx', 'bx_model.h')]


def prepare(tier):
    lw = vlib.extract('pred', 'libzwerg/pred_result.cc', CFG, ROOTS, OUT)
    ow = vlib.extract('op', 'libzwerg/op.cc', OP_CFG, OP_ROOTS, OUT)
    xw = vlib.extract('subx', 'libzwerg/op.cc', SUBX_CFG, SUBX_ROOTS, OUT)
    lw.report['functions'] += ow.report['functions'] + xw.report['functions']
    bxw, bxd = bxcfg.prepare(vlib, OUT)
    return {'build_exec_cases_lowered': bxd.get('kept'), 'build_exec_cases_dropped_by_extraction': bxd.get('dropped'), 'build_exec_functions': bxw.report['functions'], 'unit': 'libzwerg/pred_result.hh (via pred_result.cc)', 'functions': lw.report['functions']}


def replay_engine():
    """Metamorphic queries on the real library: an assertion / sub-expression context must hand on the
    incoming stack <1|2> unchanged (or nothing), whatever the sub-expression does with its copy."""
    subs = ['swap', 'drop', 'drop drop', 'swap drop', '7', 'swap 7', 'drop 7 8', 'dup', 'swap 1 == drop', '"x"']
    qs = []
    for e in subs:
        qs += ['1 2 ?(%s)' % e, '1 2 !(%s)' % e]
    qs += ['1 2 let X := swap 7; X', '1 2 let X := drop 7 8; X', '1 2 (swap 1 == drop)', '1 2 [swap]']
    res = vlib.zw_queries(qs, OUT)
    bad = []
    for q, (cnt, txt) in zip(qs, res):
        if cnt is None:
            bad.append('%s: exception' % q)
            continue
        for st in [t for t in txt.split(' ') if t.startswith('<')]:
            body = st.strip('<>')
            if q.startswith('1 2 ?(') or q.startswith('1 2 !(') or q == '1 2 (swap 1 == drop)':
                ok = body == '1|2'
            elif q.startswith('1 2 let'):
                ok = body.startswith('1|2|')
            else:
                ok = body.startswith('1|2|[')
            if not ok:
                bad.append('`%s` yields <%s>' % (q, body))
    return {'reproduced': bool(bad), 'violations_on_real_library': bad[:6], 'queries': len(qs)}


def replay(r):
    if r.job.name in ('bounded_subx_next', 'assert_next', 'pred_not_result', 'pred_and_result', 'pred_or_result'):
        return replay_engine()
    op = r.job.name
    if op not in ('not', 'and', 'or') or not r.cex:
        return {'reproduced': False, 'note': 'no operator-level counterexample'}
    exe = os.path.join(OUT, 'native_driver')
    vlib.native(['g++', '-std=c++14', '-O1', '-I%s/libzwerg' % vlib.REPO, os.path.join(HERE, 'native_driver.cc'), '-o', exe])
    names = {'0': 'no', '1': 'yes', '2': 'fail'}
    def code(x):
        s = str(x)
        for k, v in (('fail', 2), ('yes', 1), ('no', 0)):
            if k in s:
                return v
        return int(''.join(ch for ch in s if ch.isdigit()) or 0)
    a, b = code(r.cex.get('in_a', 0)), code(r.cex.get('in_b', 0))
    rc, out, err, w = vlib.run([exe, op, str(a), str(b)], timeout=20)
    got = int(out.strip() or -1)
    if op == 'not':
        exp = {0: 1, 1: 0, 2: 2}[a]
    elif op == 'and':
        exp = 2 if 2 in (a, b) else int(a == 1 and b == 1)
    else:
        exp = 2 if 2 in (a, b) else int(a == 1 or b == 1)
    return {'reproduced': got != exp, 'op': op, 'a': names[str(a)], 'b': names[str(b)],
            'observed_on_real_code': names.get(str(got), got), 'expected': names[str(exp)]}
