/* C04 (engine slice, BOUNDED): op_subx::next lowered from op.cc -- the operator behind ?(E), !(E),
   infix operators, let and every other sub-expression context.  "Sub-expression evaluation keeps the
   saved outer stack and transfers only `keep` top values": the stack handed on is the incoming stack,
   unchanged, with exactly the `keep` top values of the sub-expression's result on top, in order; the
   incoming stack itself is not modified; the sub-expression is fed a copy of each incoming stack.
   Bounded: upstream of <= 2 stacks, <= 3 yields of the sub-expression, keep <= 2, depth <= 4. */
#include "subx_types.h"
#include "subx_protos.h"
#include "subx_model2.h"
int verif_raised;
op_subx__state g_subx_state;
op g_upstream_op, g_inner_op, g_origin_op;
mstack *g_up[SEQMAX]; unsigned g_un, g_ui;
mstack *g_in[SEQMAX]; unsigned g_inn, g_ii;
mstack g_last_inner, g_fed; unsigned g_feeds;
unsigned nondet_uint(void); _Bool nondet_bool(void); unsigned long nondet_ulong(void);
#define DEPTH 4
static _Bool same(const mstack *a, const mstack *b)
{
  if (a->n != b->n) return 0;
  for (unsigned j = 0; j < SMAX; ++j)
    if (j < a->n && a->v[j] != b->v[j]) return 0;
  return 1;
}

void hb_subx_next(void)
{
  mstack ups[2], ins[3], saved;
  op_subx self; mscon sc;
  self.__base0.m_upstream = &g_upstream_op; self.m_op = &g_inner_op; self.m_origin = &g_origin_op;
  self.m_keep = nondet_ulong(); self.m_ll = 0;
  __CPROVER_assume(self.m_keep <= 2);
  g_un = nondet_uint(); g_inn = nondet_uint(); g_ui = 0; g_ii = 0; g_feeds = 0;
  __CPROVER_assume(g_un <= 2 && g_inn <= 3);
  for (unsigned k = 0; k < 2; ++k) { __CPROVER_assume(ups[k].n <= DEPTH); g_up[k] = &ups[k]; }
  for (unsigned k = 0; k < 3; ++k)
    { __CPROVER_assume(ins[k].n <= DEPTH + 2 && ins[k].n >= self.m_keep); g_in[k] = nondet_bool() ? &ins[k] : (mstack *)0; }
  __CPROVER_assume(saved.n <= DEPTH);
  _Bool had_saved = nondet_bool();
  g_subx_state.m_stk = had_saved ? &saved : (mstack *)0;
  mstack ups0[2] = {ups[0], ups[1]}, saved0 = saved;
  verif_raised = 0;

  mstack *ret = op_subx_next(&self, &sc);

  __CPROVER_assert(verif_raised == 0, "no error when the sub-expression leaves at least `keep` values");
  __CPROVER_assert(same(&ups[0], &ups0[0]) && same(&ups[1], &ups0[1]) && same(&saved, &saved0), "incoming stacks are not modified");
  __CPROVER_assert(g_feeds == g_ui, "the sub-expression is fed once per incoming stack pulled");
  __CPROVER_assert(g_ui == 0 || same(&g_fed, &ups0[g_ui - 1]), "and it is fed a copy of that incoming stack");
  if (ret == 0)
    {
      __CPROVER_assert(g_ui == g_un && g_subx_state.m_stk == 0, "nothing is yielded only when the upstream is exhausted");
    }
  else
    {
      mstack *S = g_subx_state.m_stk;
      __CPROVER_assert(S != 0 && S == (g_ui == 0 ? &saved : &ups[g_ui - 1]), "the current incoming stack stays saved for further results");
      __CPROVER_assert(ret != S, "the result is not the saved incoming stack itself (which must stay intact for further results)");
      __CPROVER_assert(ret->n == S->n + self.m_keep, "result depth = incoming depth + keep");
      for (unsigned j = 0; j < SMAX; ++j)
        {
          __CPROVER_assert(j >= S->n || ret->v[j] == S->v[j], "below the kept values the result is the incoming stack");
          __CPROVER_assert(j < S->n || j >= ret->n ||
                           ret->v[j] == g_last_inner.v[g_last_inner.n - self.m_keep + (j - S->n)],
                           "the kept values are the top `keep` values of the sub-expression's result, in order");
        }
    }
}
#ifdef VERIF_CONTROL
void hb_subx_control(void)
{
  mstack ups[1], ins[1];
  op_subx self; mscon sc;
  self.__base0.m_upstream = &g_upstream_op; self.m_op = &g_inner_op; self.m_origin = &g_origin_op; self.m_keep = 1; self.m_ll = 0;
  g_un = 1; g_inn = 1; g_ui = 0; g_ii = 0; g_feeds = 0;
  __CPROVER_assume(ups[0].n <= DEPTH && ins[0].n >= 1 && ins[0].n <= DEPTH);
  g_up[0] = &ups[0]; g_in[0] = &ins[0]; g_subx_state.m_stk = 0; verif_raised = 0;
  mstack *ret = op_subx_next(&self, &sc);
  __CPROVER_assert(ret == 0, "CONTROL (must fail): a sub-expression context never yields");
}
#endif
