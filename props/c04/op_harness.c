#include "op_spec.h"
int verif_raised;
char g_cells[UP_MAX];
unsigned g_n, g_i, g_k;
unsigned char g_verdict[UP_MAX];
pred g_pa, g_pb;
pred_result g_va, g_vb;
stack *g_seen_a, *g_seen_b;
unsigned nondet_uint(void);
pred_result nondet_pr(void);
op_assert *nondet_oa(void); pred_not *nondet_pn(void); pred_and *nondet_pa(void); pred_or *nondet_po(void);
scon *nondet_sc(void); stack *nondet_stk(void);

void h_assert_next(void)
{
  g_n = nondet_uint(); g_i = nondet_uint(); g_k = nondet_uint();
  op_assert_next(nondet_oa(), nondet_sc());
}
void h_pred_not(void) { g_va = nondet_pr(); pred_not_result(nondet_pn(), nondet_sc(), nondet_stk()); }
void h_pred_and(void) { g_va = nondet_pr(); g_vb = nondet_pr(); pred_and_result(nondet_pa(), nondet_sc(), nondet_stk()); }
void h_pred_or(void) { g_va = nondet_pr(); g_vb = nondet_pr(); pred_or_result(nondet_po(), nondet_sc(), nondet_stk()); }
