// Native replay for C04: the REAL pred_result.hh operators on concrete values.
//   not A | and A B | or A B      (values: 0 = no, 1 = yes, 2 = fail)  -> prints the result code
#include <cstdio>
#include <cstdlib>
#include <cstring>
#include "pred_result.hh"
int main (int argc, char **argv)
{
  pred_result a = (pred_result) atoi (argv[2]);
  pred_result b = argc > 3 ? (pred_result) atoi (argv[3]) : pred_result::no;
  pred_result r;
  if (!strcmp (argv[1], "not")) r = !a;
  else if (!strcmp (argv[1], "and")) r = a && b;
  else r = a || b;
  printf ("%d\n", (int) r);
  return 0;
}
