#include "spec.h"
int verif_raised;
pred_result nondet_pr(void);
void h_not(void) { pred_result in_a = nondet_pr(); pred_not_op(in_a); }
void h_and(void) { pred_result in_a = nondet_pr(), in_b = nondet_pr(); pred_and_op(in_a, in_b); }
void h_or(void) { pred_result in_a = nondet_pr(), in_b = nondet_pr(); pred_or_op(in_a, in_b); }

/* client lemmas from the contracts alone: an assertion and its negation never both hold, exactly
   one holds unless the predicate failed, and double negation is the identity. */
void h_laws(void)
{
  pred_result a = nondet_pr();
  __CPROVER_assume(WFP(a));
  pred_result n = pred_not_op(a);
  __CPROVER_assert(!(a == YES && n == YES), "?X and !X never both hold");
  __CPROVER_assert(a == FAIL || ((a == YES) != (n == YES)), "unless X fails exactly one of ?X, !X holds");
  __CPROVER_assert(a != FAIL || (a != YES && n != YES), "when X fails neither holds");
  pred_result nn = pred_not_op(n);
  __CPROVER_assert(nn == a, "double negation is the identity");
}
#ifdef VERIF_CONTROL
void h_control(void)
{
  pred_result a = nondet_pr();
  __CPROVER_assume(WFP(a));
  __CPROVER_assert(pred_not_op(a) != FAIL, "CONTROL (must fail): negation never fails");
}
#endif
