/* C04 (engine slice) -- op_assert::next and pred_not/and/or::result of libzwerg/op.cc.
 * "?X / !X either yield the incoming stack unchanged or yield nothing": an assertion operator hands on
 * exactly those stacks of its upstream, in order and as the very same objects, on which its predicate
 * says yes; on `no` and on `fail` the stack is not handed on.  The combinators evaluate their
 * operands on the stack they were given and combine the verdicts by the three-valued tables. */
#ifndef C04_OP_SPEC_H
#define C04_OP_SPEC_H
#include "../common.h"
#include "op_types.h"
#include "op_protos.h"
#include "op_model.h"
#define RET __CPROVER_return_value
#define YES pred_result__yes
#define NO pred_result__no
#define FAIL pred_result__fail
#define WFP(a) ((a) == YES || (a) == NO || (a) == FAIL)
#define NOT3(a) ((a) == YES ? NO : (a) == NO ? YES : FAIL)
#define AND3(a, b) (((a) == FAIL || (b) == FAIL) ? FAIL : ((a) == YES && (b) == YES) ? YES : NO)
#define OR3(a, b) (((a) == FAIL || (b) == FAIL) ? FAIL : ((a) == YES || (b) == YES) ? YES : NO)

/* g_k (op_model.h): arbitrary fixed index: a clause about g_k is a clause about every upstream stack */

stack *op_assert_next(const op_assert *self, scon *sc)
__CPROVER_requires(__CPROVER_is_fresh(self, sizeof(op_assert)) && g_i <= g_n && g_n <= UP_MAX && g_k < UP_MAX)
__CPROVER_requires(self->m_pred != &g_pa && self->m_pred != &g_pb)
/* either a stack of the upstream is handed on: the very object, the predicate says yes on it ... */
__CPROVER_ensures(RET != 0 ==> (g_i >= 1 && g_i <= g_n && RET == (stack *)&g_cells[g_i - 1] && g_verdict[g_i - 1] == 1))
/* ... or the upstream is exhausted */
__CPROVER_ensures(RET == 0 ==> g_i == g_n)
/* and every stack pulled and not handed on got `no` or `fail` */
__CPROVER_ensures((g_k >= __CPROVER_old(g_i) && g_k + 1 < g_i) ==> g_verdict[g_k] != 1)
__CPROVER_ensures((RET == 0 && g_k >= __CPROVER_old(g_i) && g_k < g_i) ==> g_verdict[g_k] != 1)
__CPROVER_assigns(g_i);

pred_result pred_not_result(const pred_not *self, scon *sc, stack *stk)
__CPROVER_requires(__CPROVER_is_fresh(self, sizeof(pred_not)) && self->m_a == &g_pa && WFP(g_va))
__CPROVER_ensures(RET == NOT3(g_va) && g_seen_a == stk)
__CPROVER_assigns(g_seen_a, g_seen_b);

pred_result pred_and_result(const pred_and *self, scon *sc, stack *stk)
__CPROVER_requires(__CPROVER_is_fresh(self, sizeof(pred_and)) && self->m_a == &g_pa && self->m_b == &g_pb && WFP(g_va) && WFP(g_vb))
__CPROVER_ensures(RET == AND3(g_va, g_vb) && g_seen_a == stk && g_seen_b == stk)
__CPROVER_assigns(g_seen_a, g_seen_b);

pred_result pred_or_result(const pred_or *self, scon *sc, stack *stk)
__CPROVER_requires(__CPROVER_is_fresh(self, sizeof(pred_or)) && self->m_a == &g_pa && self->m_b == &g_pb && WFP(g_va) && WFP(g_vb))
__CPROVER_ensures(RET == OR3(g_va, g_vb) && g_seen_a == stk && g_seen_b == stk)
__CPROVER_assigns(g_seen_a, g_seen_b);
#endif
