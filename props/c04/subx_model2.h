/* second half of the model: needs the generated types (op, op_subx__state) */
#ifndef C04_SUBX_MODEL2_H
#define C04_SUBX_MODEL2_H
extern op_subx__state g_subx_state;
extern op g_upstream_op, g_inner_op, g_origin_op;
extern mstack *g_up[SEQMAX]; extern unsigned g_un, g_ui;
extern mstack *g_in[SEQMAX]; extern unsigned g_inn, g_ii;
extern mstack g_last_inner;          /* contents of the last stack the inner operator yielded, as yielded */
extern mstack g_fed; extern unsigned g_feeds;   /* what the origin was fed last, and how often */
static inline op_subx__state *scon_get_state(mscon *sc, unsigned long loc) { return &g_subx_state; }
static inline mstack *op_next_model(op *o, mscon *sc)
{
  if (o == &g_upstream_op)
    return g_ui < g_un ? g_up[g_ui++] : (mstack *)0;
  if (g_ii < g_inn)
    {
      mstack *r = g_in[g_ii++];
      if (r != 0) g_last_inner = *r;
      return r;
    }
  return (mstack *)0;
}
static inline void origin_set_next(op *origin, mscon *sc, mstack *s) { g_fed = *s; g_feeds++; }
#endif
