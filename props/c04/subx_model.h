/* Abstract model for the lowering of op_subx::next (TRUSTED):
 *   stack                     a bounded array of value identities (ints, non-zero) -- what the code does
 *                             with a stack here is copy it, pop values off it and push values onto it
 *   unique_ptr<stack>/<value> plain pointer / plain int (ownership not modelled)
 *   vector<unique_ptr<value>> small int vector
 *   scon::get<state>(loc)     the operator's state object g_subx_state
 *   op::next                  upstream yields g_up[0..g_un) then nullptr; the sub-expression's operator
 *                             yields g_in[g_ii++] (an arbitrary sequence of stacks and nullptrs, nullptr
 *                             meaning "exhausted for the current input"), nullptr after g_inn
 *   op_origin::set_next       records the stack it was fed
 */
#ifndef C04_SUBX_MODEL_H
#define C04_SUBX_MODEL_H
#include "../common.h"
#define SMAX 8
#define SEQMAX 6
typedef struct mstack { int v[SMAX]; unsigned n; } mstack;
typedef struct mscon { char dummy; } mscon;
typedef struct ivec { int d[SMAX]; unsigned n; } ivec;
#ifdef VERIF_CBMC
#define M_ASSERT(c, msg) __CPROVER_assert(c, "subx model: " msg)
#else
#define M_ASSERT(c, msg) ((c) ? (void)0 : verif_assert_fail("subx model: " msg))
#endif
#define PTR_ID(p) (p)
#define PTR_BOOL(p) ((_Bool)((p) != 0))
#define UPTR_IS_NULL(p, n) ((_Bool)((p) == 0))
#define UPTR_NOT_NULL(p, n) ((_Bool)((p) != 0))
#define VERIF_MOVE(p) (p)
#define MSTACK_SIZE(s) ((unsigned long)(s)->n)
static inline ivec ivec_new(void) { ivec v; v.n = 0; return v; }
static inline void ivec_push_back(ivec *v, int *x) { M_ASSERT(v->n < SMAX, "kept values fit"); v->d[v->n++] = *x; }
#define IVEC_BACK(v) (M_ASSERT((v)->n > 0, "back() of a non-empty vector"), &(v)->d[(v)->n - 1])
static inline void ivec_pop_back(ivec *v) { M_ASSERT(v->n > 0, "pop_back of a non-empty vector"); v->n--; }
#include <stdlib.h>
static inline mstack *mstack_clone(const mstack *s)
{
  mstack *r = malloc(sizeof(mstack));
#ifdef VERIF_CBMC
  __CPROVER_assume(r != 0);
#endif
  *r = *s;
  return r;
}
static inline int mstack_pop(mstack *s)
{
  if (s->n == 0) { verif_raised = 2; return 0; }   /* stack::need throws "stack overflow" */
  return s->v[--s->n];
}
static inline void mstack_push(mstack *s, int val) { M_ASSERT(s->n < SMAX, "result fits the modelled depth"); s->v[s->n++] = val; }
#endif
