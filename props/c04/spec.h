/* C04 (slice) -- three-valued predicate results (libzwerg/pred_result.hh).
 * "?X holds exactly when !X does not; when X itself reports an error neither holds":
 * negation swaps yes/no and keeps fail; conjunction/disjunction fail iff an operand fails and
 * are the boolean connectives otherwise.  Contracts over all 3 (resp. 3x3) values. */
#ifndef C04_SPEC_H
#define C04_SPEC_H
#include "../common.h"
#include "pred_types.h"
#include "pred_protos.h"

#define RET __CPROVER_return_value
#define YES pred_result__yes
#define NO pred_result__no
#define FAIL pred_result__fail
#define WFP(a) ((a) == YES || (a) == NO || (a) == FAIL)

pred_result pred_not_op(pred_result other)
__CPROVER_requires(WFP(other))
__CPROVER_ensures(WFP(RET))
__CPROVER_ensures((other == YES) == (RET == NO))
__CPROVER_ensures((other == NO) == (RET == YES))
__CPROVER_ensures((other == FAIL) == (RET == FAIL))
__CPROVER_assigns();

pred_result pred_and_op(pred_result a, pred_result b)
__CPROVER_requires(WFP(a) && WFP(b))
__CPROVER_ensures(WFP(RET))
__CPROVER_ensures((RET == FAIL) == (a == FAIL || b == FAIL))
__CPROVER_ensures((RET == YES) == (a == YES && b == YES))
__CPROVER_assigns();

pred_result pred_or_op(pred_result a, pred_result b)
__CPROVER_requires(WFP(a) && WFP(b))
__CPROVER_ensures(WFP(RET))
__CPROVER_ensures((RET == FAIL) == (a == FAIL || b == FAIL))
__CPROVER_ensures((RET == NO) == (a == NO && b == NO))
__CPROVER_assigns();
#endif
