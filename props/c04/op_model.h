/* Models of the two virtual calls made by the text lowered from op.cc (TRUSTED):
 *   op::next(sc)            the upstream operator yields the stacks g_up[0], g_up[1], ... g_up[g_n-1]
 *                           (distinct, non-null), then nullptr
 *   pred::result(sc, stk)   a predicate's verdict on a stack is a fixed three-valued function of
 *                           (predicate, stack); it does NOT modify the stack (assumption: that is the
 *                           part of C04 that lives in pred_subx_any and the word predicates)
 * Ghost state records what the callers did with them. */
#ifndef C04_OP_MODEL_H
#define C04_OP_MODEL_H
#define UP_MAX 4096
extern char g_cells[UP_MAX];          /* one byte per upstream stack: its identity */
extern unsigned g_n, g_i, g_k;        /* how many the upstream has, how many were pulled; g_k: ghost index */
extern unsigned char g_verdict[UP_MAX];   /* verdict of the assertion's predicate on stack k (0 no, 1 yes, 2 fail) */
extern pred g_pa, g_pb;               /* the operand predicates of not/and/or */
extern pred_result g_va, g_vb;        /* their verdicts on the stack under test */
extern stack *g_seen_a, *g_seen_b;    /* the stack each operand predicate was given */
#define PTR_ID(p) (p)
#define PTR_BOOL(p) ((_Bool)((p) != 0))
static inline stack *op_next_model(op *up, scon *sc)
{
  if (g_i < g_n)
    return (stack *)&g_cells[g_i++];
  return (stack *)0;
}
static inline pred_result pred_result_model(pred *p, scon *sc, stack *stk)
{
  if (p == &g_pa) { g_seen_a = stk; return g_va; }
  if (p == &g_pb) { g_seen_b = stk; return g_vb; }
  /* the assertion's own predicate: verdict by the identity of the stack */
  return (pred_result)g_verdict[(unsigned)((char *)stk - g_cells) % UP_MAX];
}
#endif
