/* Model of std::vector<std::unique_ptr<value>> and std::unique_ptr<value> for stack.hh (TRUSTED;
 * assumed contract on libstdc++).  unique_ptr<value> is a plain pointer: OWNERSHIP IS NOT MODELLED
 * (no delete on pop_back/erase; moving does not null the source) -- the check is about the type
 * profile, not about lifetimes.  The vector is (data, len, cap); growth is not modelled
 * (push_back asserts len < cap).  reverse_iterator is a pointer to the element it designates,
 * with reversed arithmetic. */
#ifndef C11_VECP_MODEL_H
#define C11_VECP_MODEL_H
#include "../common.h"
typedef struct zw_value zw_value;
typedef struct vecp { zw_value **data; size_t len; size_t cap; } vecp;
#ifdef VERIF_CBMC
#define VECP_ASSERT(c, msg) __CPROVER_assert(c, "vector<unique_ptr> model: " msg)
#else
#define VECP_ASSERT(c, msg) ((c) ? (void)0 : verif_assert_fail("vector<unique_ptr> model: " msg))
#endif
#define VECP_SIZE(v) ((v)->len)
#define VECP_BEGIN(v) ((v)->data)
#define VECP_END(v) ((v)->data + (v)->len)
#define VECP_BACK(v) (VECP_ASSERT((v)->len > 0, "back() of a non-empty vector"), &(v)->data[(v)->len - 1])
#define VECP_RBEGIN(v) ((v)->data + (v)->len - 1)
#define IT_MINUS(it, n) ((it) - (n))
#define IT_PLUS(it, n) ((it) + (n))
#define RIT_PLUS(it, n) ((it) - (n))
#define RIT_ARROW(it) (it)
#define UPTR_ARROW(p) (p)
#define VERIF_MOVE(p) (p)
static inline void vecp_pop_back(vecp *v) { VECP_ASSERT(v->len > 0, "pop_back of a non-empty vector"); v->len--; }
static inline void vecp_push_back(vecp *v, zw_value **x)
{ VECP_ASSERT(v->len < v->cap, "push_back within modelled capacity"); v->data[v->len] = *x; v->len++; }
static inline zw_value **vecp_erase(vecp *v, zw_value **first, zw_value **last)
{
  /* only erase-to-end is used by stack::drop */
  VECP_ASSERT(last == v->data + v->len && first >= v->data && first <= last, "erase (it, end()) within the vector");
  v->len = (size_t)(first - v->data);
  return first;
}
#endif
