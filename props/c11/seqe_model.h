/* Model for the sequence element producers (TRUSTED): values are objects {content, pos}; clone() yields a new object with the
 * same content; std::vector<unique_ptr<value>> is a small pointer array; shared_ptr<seq_t> a plain pointer. */
#ifndef C11_SEQE_MODEL_H
#define C11_SEQE_MODEL_H
#include "../common.h"
#include <stdlib.h>
#define VMAX 4
typedef struct empty_base { char unused; } empty_base;
typedef struct mvalue { int content; unsigned long pos; } mvalue;
typedef struct pvvec { mvalue *d[VMAX]; unsigned long n; } pvvec;
#ifdef VERIF_CBMC
#define M_ASSERT(c, msg) __CPROVER_assert(c, "sequence model: " msg)
#else
#define M_ASSERT(c, msg) ((c) ? (void)0 : verif_assert_fail("sequence model: " msg))
#endif
#define PTR_ID(p) (p)
#define PVV_SIZE(v) ((v)->n)
static inline mvalue *const *pvv_at(const pvvec *v, unsigned long i) { M_ASSERT(i < v->n && i < VMAX, "operator[] within size()"); return &v->d[i < VMAX ? i : 0]; }
static inline mvalue *val_clone(const mvalue *v)
{
  M_ASSERT(v != 0, "clone() through a non-null pointer");
  mvalue *r = malloc(sizeof(mvalue));
#ifdef VERIF_CBMC
  __CPROVER_assume(r != 0);
#endif
  r->content = v->content; r->pos = v->pos;
  return r;
}
static inline void mval_set_pos(mvalue *v, unsigned long pos) { v->pos = pos; }
#endif
