"""C11 (slice) -- the cached stack type profile used for overload dispatch stays consistent."""
import os, sys
sys.path.insert(0, os.path.join(os.path.dirname(__file__), '..', '..', 'tools'))
import vlib
from vlib import Job

PID = 'C11'
HERE = os.path.dirname(os.path.abspath(__file__))
OUT = os.path.join(vlib.BUILD, 'c11')
UP = r'std::unique_ptr<(zw_)?value(, std::default_delete<(zw_)?value>)?>'
VEC = r'std::vector<' + UP + r'(, std::allocator<' + UP + r'>)?>'
IT = r'__gnu_cxx::__normal_iterator<(const )?' + UP + r' \*, ' + VEC + r'>'
RIT = r'std::reverse_iterator<' + IT + r'>'
CFG = {
    'names': {'stack::push': 'stack_push', 'stack::pop': 'stack_pop', 'stack::drop': 'stack_drop', 'stack::need': 'stack_need',
              'stack::get|value &(unsigned int)': 'stack_get', 'zw_value::get_type': 'value_get_type',
              'value_type::code': 'value_type_code', '_ZN10value_typeC1ERKS_': 'value_type_copy'},
    'types': {VEC: 'vecp', UP: 'zw_value *', IT: 'zw_value **', RIT: 'zw_value **', r'selector::sel_t': 'uint32_t'},
    'types_are_records': {VEC: True},
    'record_ctypes': ['vecp'],
    'types_prelude': '#include "vecp_model.h"\n',
    'exception_kinds': {r'std::runtime_error': 2},
    'extern': {
        VEC + r'::size': 'VECP_SIZE', VEC + r'::back': 'VECP_BACK', VEC + r'::pop_back': 'vecp_pop_back',
        VEC + r'::push_back': 'vecp_push_back', VEC + r'::end': 'VECP_END', VEC + r'::begin': 'VECP_BEGIN',
        VEC + r'::rbegin': 'VECP_RBEGIN', VEC + r'::erase': 'vecp_erase',
        IT + r'::operator-': {'c': 'IT_MINUS', 'by_value': True}, IT + r'::operator\+': {'c': 'IT_PLUS', 'by_value': True},
        RIT + r'::operator\+': {'c': 'RIT_PLUS', 'by_value': True}, RIT + r'::operator->': {'c': 'RIT_ARROW', 'by_value': True},
        UP + r'::operator->': {'c': 'UPTR_ARROW', 'by_value': True}, UP + r'::get': {'c': 'UPTR_ARROW', 'by_value': True},
        UP + r'::operator\*': {'c': 'UPTR_ARROW', 'by_value': True},
        r'std::move': 'VERIF_MOVE',
    },
}
ROOTS = ['stack::push', 'stack::pop', 'stack::drop']
INPUTS = ['in_n']


def jobs(tier):
    src = [os.path.join(HERE, 'harness.c'), os.path.join(OUT, 'stack_bodies.c')]
    inc = [OUT, os.path.join(vlib.VERIF, 'props'), HERE]
    J = []
    def add(name, harness, enforce, **kw):
        J.append(Job(name, src, harness, enforce=enforce, includes=inc, inputs=INPUTS, timeout=900,
                     cbmc_args=['--object-bits', '10'], **kw))
    add('push', 'h_push', 'stack_push')
    add('pop', 'h_pop', 'stack_pop')
    add('drop', 'h_drop', 'stack_drop', unwind=6,
        note='the loop of drop runs at most selector::W = 4 times: full unwinding, complete')
    add('control', 'h_push', 'stack_push', defines=['VERIF_CONTROL'], kind='control', expect='fail',
        note='same enforcement as push with one deliberately false ensures clause')
    return J


LEVEL = 'proof'
TRUSTED = ['tools/cxx2c.py lowering', 'props/c11/vecp_model.h: std::vector<std::unique_ptr<value>> as (data,len,cap), unique_ptr as a plain pointer (ownership not modelled)']
ASSUMPTIONS = [
    'value type codes are 1..127 (value_type::alloc hands them out consecutively; ~20 exist)',
    'stack depth <= 4096 slots (keeps pointer arithmetic in one object); drop(n) checked for n <= 4',
    'SLICE: only the profile invariant of push/pop/drop; overload lookup (find_selector), operand collection and every word implementation are NOT covered',
]
EXPLANATION = 'Profile invariant of the value stack; see DESIGN.md section 4 C11.'


def spec_files():
    return [os.path.join(HERE, 'spec.h'), os.path.join(HERE, 'harness.c'), os.path.join(HERE, 'vecp_model.h')]


def prepare(tier):
    lw = vlib.extract('stack', 'libzwerg/stack.cc', CFG, ROOTS, OUT)
    return {'unit': 'libzwerg/stack.hh (via stack.cc)', 'functions': lw.report['functions'], 'externals': lw.report['externals'],
            'dropped': lw.report.get('throws', [])}


def replay(r):
    """The stale-profile symptom on the real library: after pushes and pops/drops at depth > 4 an overloaded
    word must still dispatch on the true types of the top slots."""
    cases = [('1 2 3 4 5 drop drop drop add', '3'), ('1 2 3 4 5 6 drop drop drop drop add', '3'),
             ('"a" 2 3 4 5 drop drop drop drop length', '1'), ('[7] 2 3 4 5 drop drop drop drop length', '1'),
             ('"x" "y" 3 4 5 6 drop drop drop drop add', 'xy'), ('1 2 3 4 5 6 7 8 drop drop drop drop drop drop add', '3'),
             ('[1] [2] 3 4 5 "s" drop drop drop drop add length', '2'), ('1 2 3 4 "s" 6 drop length', '1')]
    res = vlib.zw_queries([q for q, _ in cases], OUT)
    bad = []
    for (q, want), (cnt, txt) in zip(cases, res):
        top = txt.strip().strip('<>').split('|')[-1] if cnt else None
        if cnt != 1 or top != want:
            bad.append('`%s` yields %s, expected %s' % (q, txt.strip() if cnt else 'nothing', want))
    return {'reproduced': bool(bad), 'violations_on_real_library': bad[:6], 'queries': len(cases)}
