"""C11 (slice) -- the cached stack type profile used for overload dispatch stays consistent."""
import os, sys
sys.path.insert(0, os.path.join(os.path.dirname(__file__), '..', '..', 'tools'))
import vlib
from vlib import Job

PID = 'C11'
HERE = os.path.dirname(os.path.abspath(__file__))
OUT = os.path.join(vlib.BUILD, 'c11')
UP = r'std::unique_ptr<(zw_)?value(, std::default_delete<(zw_)?value>)?>'
VEC = r'std::vector<' + UP + r'(, std::allocator<' + UP + r'>)?>'
IT = r'__gnu_cxx::__normal_iterator<(const )?' + UP + r' \*, ' + VEC + r'>'
RIT = r'std::reverse_iterator<' + IT + r'>'
CFG = {
    'names': {'stack::push': 'stack_push', 'stack::pop': 'stack_pop', 'stack::drop': 'stack_drop', 'stack::need': 'stack_need',
              'stack::get|value &(unsigned int)': 'stack_get', 'zw_value::get_type': 'value_get_type',
              'value_type::code': 'value_type_code', '_ZN10value_typeC1ERKS_': 'value_type_copy'},
    'types': {VEC: 'vecp', UP: 'zw_value *', IT: 'zw_value **', RIT: 'zw_value **', r'selector::sel_t': 'uint32_t'},
    'types_are_records': {VEC: True},
    'record_ctypes': ['vecp'],
    'types_prelude': '#include "vecp_model.h"\n',
    'exception_kinds': {r'std::runtime_error': 2},
    'extern': {
        VEC + r'::size': 'VECP_SIZE', VEC + r'::back': 'VECP_BACK', VEC + r'::pop_back': 'vecp_pop_back',
        VEC + r'::push_back': 'vecp_push_back', VEC + r'::end': 'VECP_END', VEC + r'::begin': 'VECP_BEGIN',
        VEC + r'::rbegin': 'VECP_RBEGIN', VEC + r'::erase': 'vecp_erase',
        IT + r'::operator-': {'c': 'IT_MINUS', 'by_value': True}, IT + r'::operator\+': {'c': 'IT_PLUS', 'by_value': True},
        RIT + r'::operator\+': {'c': 'RIT_PLUS', 'by_value': True}, RIT + r'::operator->': {'c': 'RIT_ARROW', 'by_value': True},
        UP + r'::operator->': {'c': 'UPTR_ARROW', 'by_value': True}, UP + r'::get': {'c': 'UPTR_ARROW', 'by_value': True},
        UP + r'::operator\*': {'c': 'UPTR_ARROW', 'by_value': True},
        r'std::move': 'VERIF_MOVE',
    },
}
ROOTS = ['stack::push', 'stack::pop', 'stack::drop']
SPP = r'(const )?std::(shared_ptr<pred>|__shared_ptr<pred.*>|__shared_ptr_access<pred.*>)'
OVL_CFG = {
    'names': {'overload_pred::result': 'overload_pred_result'},
    'types': {SPP: 'pred *', r'std::nullptr_t': 'void *', r'overload_instance': 'ovl_inst_model'},
    'types_are_records': {r'overload_instance': True},
    'record_ctypes': ['ovl_inst_model'],
    'opaque_records': ['scon', 'stack'],
    'types_prelude': 'typedef struct scon scon; typedef struct stack stack; typedef struct ovl_inst_model { int dummy; } ovl_inst_model;\n',
    'bodies_prelude': '#include "ovl_model.h"\n',
    'virtual': {'pred::result': 'pred_result_model'},
    'drop': ['overload_instance::show_error'],
    'extern': {r'overload_instance::find_pred': 'find_pred_model',
               r'std::__shared_ptr_access<pred.*>::operator->': {'c': 'PTR_ID', 'by_value': True},
               r'std::operator==\|.*nullptr_t\).*': {'c': 'UPTR_IS_NULL', 'by_value': True}},
}
OVL_ROOTS = ['overload_pred::result']
STRT = r'(const )?(std::basic_string<char.*>|std::string|std::__cxx11::basic_string<char.*>)'
BS = r'std::(__cxx11::)?basic_string<char.*>'
STRW_CFG = {
    'names': {'pred_find_str::result': 'w_find_str', 'pred_starts_str::result': 'w_starts_str', 'pred_ends_str::result': 'w_ends_str',
              'value_str::get_string|std::string &()': 'value_str_get', 'value_str::get_string|const std::string &() const': 'value_str_get_const'},
    'types': {STRT: 'verif_str', r'std::(__cxx11::)?basic_string<char.*>::size_type|std::string::size_type': 'size_t'},
    'types_are_records': {STRT: True},
    'record_ctypes': ['verif_str'],
    'types_prelude': '#include "../c09/str_model.h"\n',
    'globals': {r'std::basic_string<char>::npos': 'STR_NPOS', r'std::__cxx11::basic_string<char>::npos': 'STR_NPOS',
                r'std::__cxx11::basic_string<char, std::char_traits<char>, std::allocator<char>>::npos': 'STR_NPOS'},
    'extern': {BS + r'::size': 'STR_SIZE', BS + r'::length': 'STR_SIZE',
               BS + r'::compare\|.*\(.*size_type, .*size_type, const .*basic_string<.*': 'str_compare_sub',
               BS + r'::find\|.*\(const .*basic_string<.*': 'str_find', BS + r'::rfind\|.*\(const .*basic_string<.*': 'str_rfind'},
}
STRW_ROOTS = ['pred_find_str::result', 'pred_starts_str::result', 'pred_ends_str::result']
INPUTS = ['in_n']

SEQ_UPV = r'(const )?std::unique_ptr<(zw_)?value(, std::default_delete<(zw_)?value>)?>'
SEQ_VECV = r'(const )?(std::vector<' + SEQ_UPV + r'(, std::allocator<' + SEQ_UPV + r'>)?>|value_seq::seq_t)'
SEQ_SP = r'(const )?std::(shared_ptr<' + SEQ_VECV + r'>|__shared_ptr<' + SEQ_VECV + r'.*>|__shared_ptr_access<' + SEQ_VECV + r'.*>)'
SEQE_CFG = {
    'names': {'(anonymous namespace)::seq_elem_producer::next': 'seq_elem_producer_next', '(anonymous namespace)::seq_relem_producer::next': 'seq_relem_producer_next'},
    'types': {SEQ_UPV: 'mvalue *', SEQ_VECV: 'pvvec', SEQ_SP: 'pvvec *', r'(zw_)?value': 'mvalue', r'value_producer<(zw_)?value>': 'empty_base'},
    'types_are_records': {SEQ_VECV: True, r'(zw_)?value': True, r'value_producer<(zw_)?value>': True},
    'record_ctypes': ['pvvec', 'mvalue', 'empty_base'],
    'types_prelude': '#include "seqe_model.h"\n',
    'virtual': {'zw_value::clone': 'val_clone'},
    'extern': {SEQ_UPV + r'::operator(->|\*)': {'c': 'PTR_ID', 'by_value': True},
               r'std::__shared_ptr_access<.*>::operator(->|\*)': {'c': 'PTR_ID', 'by_value': True},
               SEQ_VECV + r'::size': 'PVV_SIZE', SEQ_VECV + r'::operator\[\]': 'pvv_at', r'(zw_)?value::set_pos': 'mval_set_pos'},
}
SEQE_ROOTS = ['(anonymous namespace)::seq_elem_producer::next', '(anonymous namespace)::seq_relem_producer::next']


def jobs(tier):
    src = [os.path.join(HERE, 'harness.c'), os.path.join(OUT, 'stack_bodies.c')]
    inc = [OUT, os.path.join(vlib.VERIF, 'props'), HERE]
    J = []
    def add(name, harness, enforce, **kw):
        J.append(Job(name, src, harness, enforce=enforce, includes=inc, inputs=INPUTS, timeout=900,
                     cbmc_args=['--object-bits', '10'], **kw))
    add('push', 'h_push', 'stack_push')
    add('pop', 'h_pop', 'stack_pop')
    add('drop', 'h_drop', 'stack_drop', unwind=6,
        note='the loop of drop runs at most selector::W = 4 times: full unwinding, complete')
    J.append(Job('overload_pred_result', [os.path.join(HERE, 'ovl_harness.c'), os.path.join(OUT, 'ovl_bodies.c')], 'h_overload_pred',
                 enforce='overload_pred_result', includes=inc, timeout=300, inputs=['g_has_overload', 'g_ovl_verdict'],
                 note='overload_pred::result (overload.cc): no overload => fail; lookup and the selected predicate by a model'))
    n = 3 if tier == 'quick' else 4
    J.append(Job('bounded_string_words_len%d' % n, [os.path.join(HERE, 'strw_harness.c'), os.path.join(OUT, 'strw_bodies.c')],
                 'hb_string_words', includes=inc, defines=['STR_N=%d' % n], kind='bounded', unwind=n + 3, timeout=1200,
                 cbmc_args=['--object-bits', '10'], inputs=['hn', 'nn', 'sh[*', 'sn[*'],
                 note='bounded: haystack and needle of length <= %d over all 256 byte values; std::string by a model' % n))
    J.append(Job('bounded_seq_elem_relem', [os.path.join(HERE, 'seqe_harness.c'), os.path.join(OUT, 'seqe_bodies.c')], 'hb_seq_elem', includes=inc,
                 kind='bounded', unwind=7, timeout=300, cbmc_args=['--object-bits', '10'], inputs=['n'],
                 note='elem / relem on sequences of <= 4 values (seq_elem_producer, seq_relem_producer of value-seq.cc): order and numbering'))
    add('control', 'h_push', 'stack_push', defines=['VERIF_CONTROL'], kind='control', expect='fail',
        note='same enforcement as push with one deliberately false ensures clause')
    return J


LEVEL = 'proof'
TRUSTED = ['tools/cxx2c.py lowering', 'props/c11/vecp_model.h: std::vector<std::unique_ptr<value>> as (data,len,cap), unique_ptr as a plain pointer (ownership not modelled)']
ASSUMPTIONS = [
    'value type codes are 1..127 (value_type::alloc hands them out consecutively; ~20 exist)',
    'stack depth <= 4096 slots (keeps pointer arithmetic in one object); drop(n) checked for n <= 4',
    'overload_pred::result: overload lookup (find_pred) and the selected predicate are modelled (props/c11/ovl_model.h); the diagnostic show_error is dropped',
    '?find/?starts/?ends on strings (bounded job): std::string by props/c09/str_model.h (size, compare(pos,n,str), find, rfind)',
    'SLICE: overload lookup (find_selector), operand collection and the other word implementations (sequences, integers, match, elem, add, length, value, radix words, shuffling) are NOT covered',
]
EXPLANATION = 'Profile invariant of the value stack; see DESIGN.md section 4 C11.'


def spec_files():
    return [os.path.join(HERE, 'spec.h'), os.path.join(HERE, 'harness.c'), os.path.join(HERE, 'vecp_model.h')]


def prepare(tier):
    lw = vlib.extract('stack', 'libzwerg/stack.cc', CFG, ROOTS, OUT)
    ow = vlib.extract('ovl', 'libzwerg/overload.cc', OVL_CFG, OVL_ROOTS, OUT)
    sw = vlib.extract('strw', 'libzwerg/value-str.cc', STRW_CFG, STRW_ROOTS, OUT)
    qw = vlib.extract('seqe', 'libzwerg/value-seq.cc', SEQE_CFG, SEQE_ROOTS, OUT)
    sw.report['functions'] += qw.report['functions']
    lw.report['functions'] += sw.report['functions']
    lw.report['functions'] += ow.report['functions']
    lw.report['dropped'] += ow.report['dropped']
    return {'unit': 'libzwerg/stack.hh (via stack.cc)', 'functions': lw.report['functions'], 'externals': lw.report['externals'],
            'dropped': lw.report.get('throws', [])}


def replay_overload():
    cases = ['1 !empty', '1 ?empty', '"foo" 1 !find', '1 "1" !starts', '{} !empty']
    res = vlib.zw_queries(cases, OUT)
    bad = ['`%s` yields %s' % (q, t.strip()) for q, (c, t) in zip(cases, res) if c]
    return {'reproduced': bool(bad), 'violations_on_real_library': bad, 'queries': len(cases),
            'expected': 'an assertion word on operand types it has no overload for holds in neither polarity'}


def replay_string_words(r):
    def num(x):
        t = str(x)
        neg = t.strip().startswith('-')
        v = int(''.join(ch for ch in t if ch.isdigit()) or 0)
        return (-v if neg else v) & 255
    def lit(prefix, n):
        bs = bytes(num(r.cex.get('%s[%dl]' % (prefix, i), 0)) for i in range(n))
        return bs, '"' + ''.join('\\x%02x' % b for b in bs) + '"'
    hn = int(''.join(ch for ch in str(r.cex.get('hn', 0)) if ch.isdigit()) or 0)
    nn = int(''.join(ch for ch in str(r.cex.get('nn', 0)) if ch.isdigit()) or 0)
    (hb, hl), (nb, nl) = lit('sh', hn), lit('sn', nn)
    qs = ['%s %s ?find' % (hl, nl), '%s %s ?starts' % (hl, nl), '%s %s ?ends' % (hl, nl)]
    res = vlib.zw_queries(qs, OUT)
    got = [bool(c) for c, _ in res]
    exp = [nb in hb, hb.startswith(nb), hb.endswith(nb)]
    return {'reproduced': got != exp, 'haystack': list(hb), 'needle': list(nb), 'queries': qs,
            'real_library_find_starts_ends': got, 'expected': exp}


def replay(r):
    if r.job.name.startswith('bounded_string_words'):
        return replay_string_words(r)
    if r.job.name == 'overload_pred_result':
        return replay_overload()
    return replay_profile(r)


def replay_profile(r):
    """The stale-profile symptom on the real library: after pushes and pops/drops at depth > 4 an overloaded
    word must still dispatch on the true types of the top slots."""
    cases = [('1 2 3 4 5 drop drop drop add', '3'), ('1 2 3 4 5 6 drop drop drop drop add', '3'),
             ('"a" 2 3 4 5 drop drop drop drop length', '1'), ('[7] 2 3 4 5 drop drop drop drop length', '1'),
             ('"x" "y" 3 4 5 6 drop drop drop drop add', 'xy'), ('1 2 3 4 5 6 7 8 drop drop drop drop drop drop add', '3'),
             ('[1] [2] 3 4 5 "s" drop drop drop drop add length', '2'), ('1 2 3 4 "s" 6 drop length', '1')]
    res = vlib.zw_queries([q for q, _ in cases], OUT)
    bad = []
    for (q, want), (cnt, txt) in zip(cases, res):
        top = txt.strip().strip('<>').split('|')[-1] if cnt else None
        if cnt != 1 or top != want:
            bad.append('`%s` yields %s, expected %s' % (q, txt.strip() if cnt else 'nothing', want))
    return {'reproduced': bool(bad), 'violations_on_real_library': bad[:6], 'queries': len(cases)}
