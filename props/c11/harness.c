#include "spec.h"
int verif_raised;
stack *nondet_stack(void);
zw_value *nondet_value(void);
unsigned nondet_uint(void);
void h_push(void) { stack *s = nondet_stack(); zw_value *v = nondet_value(); verif_raised = 0; stack_push(s, v); }
void h_pop(void) { stack *s = nondet_stack(); verif_raised = 0; stack_pop(s); }
void h_drop(void) { stack *s = nondet_stack(); unsigned in_n = nondet_uint(); verif_raised = 0; stack_drop(s, in_n); }
