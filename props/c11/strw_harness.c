/* C11: ?find, ?starts, ?ends on strings (libzwerg/value-str.cc) "agree with the obvious byte-string model
   (including empty operands, embedded NUL, needles longer than haystacks)": over all haystacks and
   needles of length <= STR_N and all byte values. */
#include "strw_types.h"
#include "strw_protos.h"
int verif_raised;
unsigned char nondet_uchar(void); size_t nondet_size(void);
#ifndef STR_N
#define STR_N 3
#endif
static _Bool occurs_at(const char *h, size_t hn, const char *n, size_t nn, size_t at)
{
  if (at + nn > hn) return 0;
  for (size_t j = 0; j < STR_N; ++j)
    if (j < nn && h[at + j] != n[j]) return 0;
  return 1;
}
void hb_string_words(void)
{
  char sh[STR_N + 1], sn[STR_N + 1];
  size_t hn = nondet_size(), nn = nondet_size();
  __CPROVER_assume(hn <= STR_N && nn <= STR_N);
  sh[hn] = 0; sn[nn] = 0;
  value_str hay, need;
  hay.m_str.p = sh; hay.m_str.n = hn; need.m_str.p = sn; need.m_str.n = nn;
  _Bool anywhere = 0;
  for (size_t at = 0; at <= STR_N; ++at)
    if (occurs_at(sh, hn, sn, nn, at)) anywhere = 1;
  _Bool starts = occurs_at(sh, hn, sn, nn, 0);
  _Bool ends = nn <= hn && occurs_at(sh, hn, sn, nn, hn - nn);
#define P(b) ((b) ? pred_result__yes : pred_result__no)
  __CPROVER_assert(w_find_str(0, &hay, &need) == P(anywhere), "?find: the needle occurs somewhere in the haystack");
  __CPROVER_assert(w_starts_str(0, &hay, &need) == P(starts), "?starts: the haystack begins with the needle");
  __CPROVER_assert(w_ends_str(0, &hay, &need) == P(ends), "?ends: the haystack ends with the needle");
}
