/* Model for overload_pred::result (TRUSTED): overload lookup by the stack profile returns either no
   predicate (no overload takes these operand types) or the selected one, whose verdict is g_ovl_verdict;
   the diagnostic (show_error) is dropped. */
#ifndef C11_OVL_MODEL_H
#define C11_OVL_MODEL_H
extern pred g_selected; extern _Bool g_has_overload; extern pred_result g_ovl_verdict; extern stack *g_ovl_seen;
#define PTR_ID(p) (p)
#define UPTR_IS_NULL(p, n) ((_Bool)((p) == 0))
static inline pred *find_pred_model(const ovl_inst_model *o, stack *stk) { return g_has_overload ? &g_selected : (pred *)0; }
static inline pred_result pred_result_model(pred *p, scon *sc, stack *stk) { g_ovl_seen = stk; return g_ovl_verdict; }
#endif
