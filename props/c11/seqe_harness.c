/* C11 (slice, BOUNDED length <= 4): `elem` numbers its results 0,1,2,... and yields the elements in order; `relem` numbers
   the reversed walk -- seq_elem_producer::next / seq_relem_producer::next of value-seq.cc.  Each result is a copy (the
   sequence itself is not modified), and every new producer numbers afresh. */
#include "seqe_types.h"
#include "seqe_protos.h"
int verif_raised;
unsigned long nondet_ulong(void); int nondet_int(void);

void hb_seq_elem(void)
{
  mvalue src[VMAX]; pvvec vec; int content0[VMAX]; unsigned long pos0[VMAX];
  unsigned long n = nondet_ulong(); __CPROVER_assume(n <= VMAX); vec.n = n;
  for (unsigned i = 0; i < VMAX; ++i)
    { src[i].content = nondet_int(); src[i].pos = nondet_ulong(); content0[i] = src[i].content; pos0[i] = src[i].pos; vec.d[i] = i < n ? &src[i] : 0; }
  _anonymous_namespace___seq_elem_producer fwd; _anonymous_namespace___seq_relem_producer bwd;
  fwd.__base1.m_seq = &vec; fwd.__base1.m_idx = 0;          /* seq_elem_producer_base (seq): m_idx {0} */
  bwd.__base1.m_seq = &vec; bwd.__base1.m_idx = 0;
  verif_raised = 0;
  for (unsigned k = 0; k < VMAX + 1; ++k)
    {
      mvalue *a = seq_elem_producer_next(&fwd), *b = seq_relem_producer_next(&bwd);
      if (k < n)
        {
          __CPROVER_assert(a != 0 && b != 0, "elem and relem yield as many values as the sequence has");
          __CPROVER_assert(a->content == content0[k] && a->pos == k, "elem yields the k-th element, numbered k");
          __CPROVER_assert(b->content == content0[n - 1 - k] && b->pos == k, "relem yields the k-th element from the end, numbered k");
          for (unsigned j = 0; j < VMAX; ++j) __CPROVER_assert(a != &src[j] && b != &src[j], "results are copies, not the elements themselves");
        }
      else
        __CPROVER_assert(a == 0 && b == 0, "then both report exhaustion");
    }
  __CPROVER_assert(verif_raised == 0 && vec.n == n, "no error; the sequence keeps its length");
  for (unsigned i = 0; i < VMAX; ++i)
    __CPROVER_assert(i >= n || (vec.d[i] == &src[i] && src[i].content == content0[i] && src[i].pos == pos0[i]), "the sequence and its elements are not modified (positions included)");
}
