/* C11: "an operand of an unsupported type produces a diagnostic and no result rather than a wrong one":
   an overloaded assertion word on a stack no overload accepts reports `fail` (so neither ?w nor !w
   holds); otherwise it is the selected overload's verdict on the very stack it was given. */
#include "../common.h"
#include "ovl_types.h"
#include "ovl_protos.h"
#include "ovl_model.h"
int verif_raised;
pred g_selected; _Bool g_has_overload; pred_result g_ovl_verdict; stack *g_ovl_seen;
#define RET __CPROVER_return_value
pred_result overload_pred_result(const overload_pred *self, scon *sc, stack *stk)
__CPROVER_requires(__CPROVER_is_fresh(self, sizeof(overload_pred)))
__CPROVER_ensures(!g_has_overload ==> RET == pred_result__fail)
__CPROVER_ensures(g_has_overload ==> (RET == g_ovl_verdict && g_ovl_seen == stk))
__CPROVER_assigns(g_ovl_seen);
_Bool nondet_bool(void); pred_result nondet_pr(void); overload_pred *nondet_op(void); scon *nondet_sc(void); stack *nondet_stk(void);
void h_overload_pred(void)
{
  g_has_overload = nondet_bool(); g_ovl_verdict = nondet_pr();
  overload_pred_result(nondet_op(), nondet_sc(), nondet_stk());
}
