/* C11 (slice) -- the cached stack type profile (libzwerg/stack.hh push/pop/drop, selector).
 *
 * Overloaded words are selected by stack::m_profile: byte d holds the type code of the slot at depth
 * d for the top four slots (selector::W = 4), 0 where the stack is shallower.  The profile is
 * maintained incrementally by push/pop and recomputed by drop.  Invariant PROFILE_OK: the profile
 * equals a recomputation from the slots.  Contracts: each operation preserves it, for ANY depth
 * (only the top five slots are read); pop/drop on a too shallow stack raise and change nothing.
 */
#ifndef C11_SPEC_H
#define C11_SPEC_H
#include "stack_types.h"
#include "stack_protos.h"

#define RET __CPROVER_return_value
#define VEC_MAX 4096
#define SV(s) ((s)->m_values)
#define SLOT(s, d) (SV(s).data[SV(s).len - 1 - (d)])
#define CODE(p) ((unsigned)(p)->m_type.m_code)
#define BYTE(x, d) (((x) >> (8 * (d))) & 0xffu)
/* fewer than 128 value types exist (value_type::alloc hands out 1, 2, ...); 0 means "no slot" */
#define CODE_OK(p) (CODE(p) >= 1 && CODE(p) <= 127)
#define SLOT_OK(s, d) (SV(s).len <= (d) || CODE_OK(SLOT(s, d)))
#define PROFILE_BYTE_OK(s, d) (BYTE((s)->m_profile, d) == (SV(s).len > (d) ? CODE(SLOT(s, d)) : 0u))
#define PROFILE_OK(s) (PROFILE_BYTE_OK(s, 0) && PROFILE_BYTE_OK(s, 1) && PROFILE_BYTE_OK(s, 2) && PROFILE_BYTE_OK(s, 3))

/* memory shape: the stack object, its slot array, and the value objects in the top eight slots (drop(n), n <= 4, makes old depths 4..7 the new top four);
   one requires clause each (is_fresh under `==>` is the documented conditional form) */
#define REQ_SHAPE(s, room) \
  __CPROVER_requires(__CPROVER_is_fresh((s), sizeof(stack))) \
  __CPROVER_requires(SV(s).cap <= VEC_MAX && SV(s).cap >= (room) && SV(s).len <= SV(s).cap - (room)) \
  __CPROVER_requires(__CPROVER_is_fresh(SV(s).data, SV(s).cap * sizeof(zw_value *))) \
  __CPROVER_requires(SV(s).len > 0 ==> __CPROVER_is_fresh(SLOT(s, 0), sizeof(zw_value))) \
  __CPROVER_requires(SV(s).len > 1 ==> __CPROVER_is_fresh(SLOT(s, 1), sizeof(zw_value))) \
  __CPROVER_requires(SV(s).len > 2 ==> __CPROVER_is_fresh(SLOT(s, 2), sizeof(zw_value))) \
  __CPROVER_requires(SV(s).len > 3 ==> __CPROVER_is_fresh(SLOT(s, 3), sizeof(zw_value))) \
  __CPROVER_requires(SV(s).len > 4 ==> __CPROVER_is_fresh(SLOT(s, 4), sizeof(zw_value))) \
  __CPROVER_requires(SV(s).len > 5 ==> __CPROVER_is_fresh(SLOT(s, 5), sizeof(zw_value))) \
  __CPROVER_requires(SV(s).len > 6 ==> __CPROVER_is_fresh(SLOT(s, 6), sizeof(zw_value))) \
  __CPROVER_requires(SV(s).len > 7 ==> __CPROVER_is_fresh(SLOT(s, 7), sizeof(zw_value))) \
  __CPROVER_requires(SLOT_OK(s, 0) && SLOT_OK(s, 1) && SLOT_OK(s, 2) && SLOT_OK(s, 3) && SLOT_OK(s, 4) && \
                     SLOT_OK(s, 5) && SLOT_OK(s, 6) && SLOT_OK(s, 7))

void stack_push(stack *self, zw_value *vp)
REQ_SHAPE(self, 1)
__CPROVER_requires(PROFILE_OK(self) && verif_raised == 0)
__CPROVER_requires(__CPROVER_is_fresh(vp, sizeof(zw_value)) && CODE_OK(vp))
__CPROVER_ensures(verif_raised == 0)
__CPROVER_ensures(SV(self).len == __CPROVER_old(SV(self).len) + 1 && SLOT(self, 0) == vp)
#ifdef VERIF_CONTROL
__CPROVER_ensures(self->m_profile == 0)   /* CONTROL (must fail): were the preconditions contradictory, this would hold */
#endif
__CPROVER_ensures(PROFILE_OK(self))
__CPROVER_assigns(self->m_profile, SV(self).len, __CPROVER_object_whole(SV(self).data));

zw_value *stack_pop(stack *self)
REQ_SHAPE(self, 0)
__CPROVER_requires(PROFILE_OK(self) && verif_raised == 0)
__CPROVER_ensures((verif_raised != 0) == (__CPROVER_old(SV(self).len) == 0))
__CPROVER_ensures(verif_raised != 0 ==> (SV(self).len == __CPROVER_old(SV(self).len) && self->m_profile == __CPROVER_old(self->m_profile)))
__CPROVER_ensures(verif_raised == 0 ==> (SV(self).len == __CPROVER_old(SV(self).len) - 1 && RET == SV(self).data[SV(self).len])) /* the slot array is not assigned, so this is the old top */
__CPROVER_ensures(PROFILE_OK(self))
__CPROVER_assigns(verif_raised, self->m_profile, SV(self).len);

void stack_drop(stack *self, unsigned n)
REQ_SHAPE(self, 0)
__CPROVER_requires(PROFILE_OK(self) && verif_raised == 0 && n <= 4)
__CPROVER_ensures((verif_raised != 0) == (n > __CPROVER_old(SV(self).len)))
__CPROVER_ensures(verif_raised != 0 ==> (SV(self).len == __CPROVER_old(SV(self).len) && self->m_profile == __CPROVER_old(self->m_profile)))
__CPROVER_ensures(verif_raised == 0 ==> SV(self).len == __CPROVER_old(SV(self).len) - n)
__CPROVER_ensures(PROFILE_OK(self))
__CPROVER_assigns(verif_raised, self->m_profile, SV(self).len);
#endif
