/* Generic model of std::vector<T> for element types whose vector is only iterated / indexed
   (TRUSTED).  VERIF_VEC(NAME, T) declares the (data, len, cap) struct; iterators are element pointers. */
#ifndef VERIF_VECGEN_H
#define VERIF_VECGEN_H
#include <stddef.h>
#define VERIF_VEC(NAME, T) typedef struct NAME { T *data; size_t len; size_t cap; } NAME
#define GVEC_SIZE(v) ((v)->len)
#define GVEC_BEGIN(v) ((v)->data)
#define GVEC_END(v) ((v)->data + (v)->len)
#define GIT_NE(a, b) ((_Bool)((a) != (b)))
#define GIT_EQ(a, b) ((_Bool)((a) == (b)))
#define GIT_PREINC(pit) (++*(pit), (pit))
#define GIT_DEREF(it) (it)
#endif
