/* Generic model of std::vector<T> for element types whose vector is only iterated / indexed
   (TRUSTED).  VERIF_VEC(NAME, T) declares the (data, len, cap) struct; iterators are element pointers. */
#ifndef VERIF_VECGEN_H
#define VERIF_VECGEN_H
#include <stddef.h>
#define VERIF_VEC(NAME, T) typedef struct NAME { T *data; size_t len; size_t cap; } NAME
#define GVEC_SIZE(v) ((v)->len)
#define GVEC_BEGIN(v) ((v)->data)
#define GVEC_END(v) ((v)->data + (v)->len)
#define GIT_NE(a, b) ((_Bool)((a) != (b)))
#define GIT_EQ(a, b) ((_Bool)((a) == (b)))
#define GIT_PREINC(pit) (++*(pit), (pit))
#define GIT_DEREF(it) (it)
/* growing operations against a fixed modelled capacity (growth itself is not modelled) */
#ifdef VERIF_CBMC
#define GVEC_ASSERT(c, msg) __CPROVER_assert(c, "std::vector model: " msg)
#else
#define GVEC_ASSERT(c, msg) ((c) ? (void)0 : verif_assert_fail("std::vector model: " msg))
#endif
#define GVEC_AT(v, i) (GVEC_ASSERT((size_t)(i) < (v)->len, "operator[] within size()"), &(v)->data[(i)])
#define GVEC_PUSH_BACK(v, px) (GVEC_ASSERT((v)->len < (v)->cap, "push_back within modelled capacity"), (v)->data[(v)->len] = *(px), (void)(v)->len++)
/* std::reverse on element pointers [first, last) of a char vector */
static inline void gvec_reverse_char(char *first, char *last)
{
  while (first < last && first < --last)
    { char t = *first; *first = *last; *last = t; ++first; }
}
#endif
