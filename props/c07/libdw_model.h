/* Model of dwarf_formsdata for fix_dwarf_formsdata (TRUSTED; assumed contract on elfutils):
 * returns -1 on error and leaves *ret alone, else 0 and stores a value whose low N bytes are the N
 * bytes stored in the file for DW_FORM_dataN -- zero-extended (elfutils <= 0.170) or sign-extended
 * (later versions); the upper bytes are therefore left open (ghost g_formsdata_value is arbitrary). */
#ifndef C07_LIBDW_MODEL_H
#define C07_LIBDW_MODEL_H
#include "../common.h"
extern long g_formsdata_value;
extern int g_formsdata_err;
static inline int verif_dwarf_formsdata(void *attr, long *ret)
{
  if (g_formsdata_err != 0)
    return -1;
  *ret = g_formsdata_value;
  return 0;
}
#endif
