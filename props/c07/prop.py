"""C07 (slice) -- signedness fix-up of DW_FORM_data1/2/4 values."""
import os, sys
sys.path.insert(0, os.path.join(os.path.dirname(__file__), '..', '..', 'tools'))
import vlib
from vlib import Job

PID = 'C07'
HERE = os.path.dirname(os.path.abspath(__file__))
OUT = os.path.join(vlib.BUILD, 'c07')
CFG = {
    'names': {'(anonymous namespace)::fix_dwarf_formsdata': 'fix_dwarf_formsdata'},
    'types': {r'(struct )?Dwarf_CU': 'void', r'Dwarf_Sword': 'long'},
    'extern': {'dwarf_formsdata': 'verif_dwarf_formsdata'},
    'bodies_prelude': '#include "libdw_model.h"\n',
}
ROOTS = ['(anonymous namespace)::fix_dwarf_formsdata']


def jobs(tier):
    src = [os.path.join(HERE, 'harness.c'), os.path.join(OUT, 'atval_bodies.c')]
    inc = [OUT, os.path.join(vlib.VERIF, 'props'), HERE]
    J = [Job('fix_formsdata', src, 'h_fix', enforce='fix_dwarf_formsdata', includes=inc, timeout=300),
         Job('form_codes', src, 'h_forms', includes=inc, timeout=300, kind='lemma',
             note='concrete anchors: the form codes used in the spec are the ones the extracted switch tests'),
         Job('control', src, 'h_control', includes=inc, defines=['VERIF_CONTROL'], kind='control', expect='fail', timeout=300)]
    J += [j for j in C17.lx_jobs() if j.kind != 'control']      # operands of location-expression operations (shared with C17)
    return J


def _load_c17():
    import importlib.util
    spec = importlib.util.spec_from_file_location('prop_c17_for_c07', os.path.join(HERE, '..', 'c17', 'prop.py'))
    m = importlib.util.module_from_spec(spec)
    spec.loader.exec_module(m)
    return m


C17 = _load_c17()
LEVEL = 'proof'
TRUSTED = ['tools/cxx2c.py lowering', 'props/c07/libdw_model.h: dwarf_formsdata returns the stored N bytes zero- or sign-extended (assumed contract on elfutils)']
ASSUMPTIONS = ['SLICE: fix_dwarf_formsdata, and the operand decoding of location-expression operations (locexpr_op_values, job op_operands, models in props/c17/lx_model.h). Form dispatch (at_value), type-encoding lookup (handle_at_dependent_value), location '
               'list iteration, strings, references and everything else that calls libdw are NOT covered']
EXPLANATION = 'fix_dwarf_formsdata only; see DESIGN.md section 4 C07.'


def spec_files():
    return [os.path.join(HERE, 'spec.h'), os.path.join(HERE, 'harness.c'), os.path.join(HERE, 'libdw_model.h')]


def prepare(tier):
    lw = vlib.extract('atval', 'libzwerg/atval.cc', CFG, ROOTS, OUT)
    lx = C17.prepare(tier)
    return {'unit': 'libzwerg/atval.cc', 'functions': lw.report['functions'] + lx['functions'], 'externals': lw.report['externals']}


def replay(r):
    if r.job.name == 'op_operands':
        return C17.replay(r)
    return {'reproduced': False, 'note': 'no native replay for this job'}
