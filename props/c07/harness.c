#include "spec.h"
int verif_raised;
long g_formsdata_value;
int g_formsdata_err;
long nondet_long(void); int nondet_int(void);
Dwarf_Attribute *nondet_attr(void); long *nondet_sw(void);
void h_fix(void)
{
  g_formsdata_value = nondet_long(); g_formsdata_err = nondet_int();
  fix_dwarf_formsdata(nondet_attr(), nondet_sw());
}
/* the three forms really are the DWARF codes the header defines (guards the constants in spec.h) */
void h_forms(void)
{
  Dwarf_Attribute a; long out = 0;
  g_formsdata_err = 0; g_formsdata_value = 0x1ff;
  a.form = F_DATA1; fix_dwarf_formsdata(&a, &out);
  __CPROVER_assert(out == -1, "data1: 0xff reads as -1");
  g_formsdata_value = 0x18000;
  a.form = F_DATA2; fix_dwarf_formsdata(&a, &out);
  __CPROVER_assert(out == -32768, "data2: 0x8000 reads as -32768");
}
#ifdef VERIF_CONTROL
void h_control(void)
{
  Dwarf_Attribute a; long out = 0;
  g_formsdata_err = 0; g_formsdata_value = nondet_long(); a.form = nondet_int();
  fix_dwarf_formsdata(&a, &out);
  __CPROVER_assert(out == g_formsdata_value, "CONTROL (must fail): the value is never changed");
}
#endif
