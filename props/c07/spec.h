/* C07 (slice) -- signedness fix-up of fixed-width data forms (libzwerg/atval.cc fix_dwarf_formsdata).
 * "integral data with the signedness implied by the form": for DW_FORM_data1/2/4 the value handed to
 * the signed path is the sign extension of the N stored bytes, whichever way libdw extended them;
 * for every other form it is libdw's value unchanged; an error of libdw is passed on. */
#ifndef C07_SPEC_H
#define C07_SPEC_H
#include "atval_types.h"
#include "atval_protos.h"
#include "libdw_model.h"
#define RET __CPROVER_return_value
#define F_DATA1 0x0b
#define F_DATA2 0x05
#define F_DATA4 0x06
#define SEXT(v, form) ((form) == F_DATA1 ? (long)(signed char)(unsigned char)(v) : \
                       (form) == F_DATA2 ? (long)(short)(unsigned short)(v) : \
                       (form) == F_DATA4 ? (long)(int)(unsigned int)(v) : (long)(v))

int fix_dwarf_formsdata(Dwarf_Attribute *attr, long *sval)
__CPROVER_requires(__CPROVER_is_fresh(attr, sizeof(Dwarf_Attribute)) && __CPROVER_is_fresh(sval, sizeof(long)))
__CPROVER_ensures((RET != 0) == (g_formsdata_err != 0))
__CPROVER_ensures(RET == 0 ==> *sval == SEXT(g_formsdata_value, attr->form))
__CPROVER_ensures(RET != 0 ==> *sval == __CPROVER_old(*sval))
__CPROVER_assigns(*sval);
#endif
