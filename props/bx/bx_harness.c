/* Contracts for single cases of build_exec (build.cc), lowered per run with the other cases dropped (cxx2c keep_cases).
 * The recursive call and the operator constructors are the models of bx_model.h (assumed contracts with a ghost log).
 * What is checked is what build.cc itself decides: which tree, which layout object, which scope object and which
 * upstream every sub-expression is built with, in which order, and where the new operator's own state is placed. */
#include "bx_types.h"
#include "bx_protos.h"
#ifndef BX_N
#define BX_N 3
#endif
#ifndef BX_ATOM
#define BX_ATOM 1        /* the name being read: which atom it is is immaterial (the tables are symmetric in the atoms) */
#endif
mop g_pool[POOL]; unsigned g_npool; bx_call g_calls[CMAX]; unsigned g_ncalls; int verif_raised;
static mtree g_kids[BX_N]; static mtree T; static mlayout L; static mbindings g_root; mbindings g_bn; muprefs g_up;
_Bool g_has_local[NATOMS], g_has_upv[NATOMS]; mbinding g_local[NATOMS]; mupref g_upv[NATOMS]; midmap g_refd;
unsigned g_npreds; const mtree *g_pred_tree; const mlayout *g_pred_lay; const mbindings *g_pred_scope; const muprefs *g_pred_up; unsigned long g_pred_rdv;
unsigned g_nbinds; const mbindings *g_bind_scope; matom g_bind_name; const mop *g_bind_op; const mlayout *g_rdv_lay; unsigned long g_rdv_inner;
int nondet_int(void); _Bool nondet_bool(void);
static unsigned long L0, g_rdv; static int g_fixed_name;
static mop *g_upstream;
#define CHECK(c, msg) __CPROVER_assert(c, msg)

static mop *run(int tt, unsigned long n)
{
  __CPROVER_assume(n <= BX_N);
  T.m_tt = tt; T.m_children.d = g_kids; T.m_children.n = n;
  L.m_size = nondet_ulong(); __CPROVER_assume(L.m_size <= (1UL << 40)); L0 = L.m_size;
  g_bn.m_super = &g_root; g_root.m_super = 0; g_rdv = nondet_ulong();
  g_npool = 0; g_ncalls = 0; g_nbinds = 0; g_npreds = 0; verif_raised = 0; T.m_cstval = nondet_ulong();
  if (!g_fixed_name) { T.m_str = nondet_int(); __CPROVER_assume(T.m_str >= 0 && T.m_str < NATOMS); }
  g_upstream = new_op(K_UPSTREAM);
  mop *r = build_exec(&T, &L, g_rdv, g_upstream, &g_bn, &g_up);
  CHECK(verif_raised != 0 || r != 0, "build_exec returns an operator unless it raises");
  CHECK(L.m_size >= L0, "the layout never shrinks (re-establishes the assumed contract of the recursive call)");
  return r;
}
static void check_up_rdv(void)
{
  for (unsigned i = 0; i < CMAX; ++i) if (i < g_ncalls) {
    CHECK(g_calls[i].up == &g_up, "sub-expressions are built with the up-value table of the enclosing block");
    CHECK(g_calls[i].rdv == g_rdv, "sub-expressions get the rendezvous slot of the enclosing block");
  }
}
/* origin o was created for call k in layout `lay`: the sub-expression is built ON that origin, in the same layout, after it */
static void check_origin_of(mop *o, unsigned k, const mlayout *lay)
{
  CHECK(o != 0 && o->kind == K_ORIGIN, "each sub-expression has an op_origin");
  CHECK(g_calls[k].upstream == o, "the sub-expression is built on its own origin");
  CHECK(o->lay == lay && g_calls[k].lay == lay, "origin and sub-expression reserve their state in the same layout");
  CHECK(o->hi <= g_calls[k].entry, "the origin's state lies before the states of the sub-expression");
}

/* if-then-else: C13 (layout union) and C01 (wiring) */
void h_bx_ifelse(void)
{
  mop *r = run(tree_type__IFELSE, 3);
  check_up_rdv();
  CHECK(r->kind == K_IFELSE && r->a[0] == g_upstream, "IFELSE builds an op_ifelse on the current upstream");
  CHECK(g_ncalls == 3, "condition, then and else are built, each once");
  for (unsigned i = 0; i < 3; ++i) {
    CHECK(g_calls[i].tree == &g_kids[i], "child i is the i-th sub-expression (condition, then, else)");
    mop *o = r->a[1 + 2 * i], *c = r->a[2 + 2 * i];
    CHECK(c != 0 && c->kind == K_SUBCHAIN && c->call == (int)i, "op_ifelse gets condition, then, else in this order");
    check_origin_of(o, i, g_calls[i].lay);
    CHECK(g_calls[i].lay != &L, "each arm is laid out in a copy of the enclosing layout (arms share space)");
    CHECK(o->lo >= L0, "an arm's states lie beyond everything reserved before the if");
    CHECK(g_calls[i].exit <= r->lo, "op_ifelse's own state lies beyond EVERY arm's states (no two live states overlap)");
    CHECK(g_calls[i].exit <= L.m_size, "the enclosing layout covers every arm (no out-of-bounds state)");
    CHECK(g_calls[i].scope == &g_bn, "arms are built in the current scope (their own scope is the SCOPE node the parser wraps them in)");
    for (unsigned j = 0; j < i; ++j) {
      CHECK(r->a[1 + 2 * j] != o, "one origin per sub-expression");
      CHECK(g_calls[j].lay != g_calls[i].lay, "one layout copy per arm");
    }
  }
  CHECK(r->lay == &L && r->hi <= L.m_size, "op_ifelse's own state is reserved in the enclosing layout");
}

/* ALT: C03 (a scope per branch) and C01 (wiring, order) */
void h_bx_alt(void)
{
  unsigned long n = nondet_ulong();
  mop *r = run(tree_type__ALT, n);
  check_up_rdv();
  CHECK(r->kind == K_MERGE && r->a[0] == g_upstream && r->lay == &L, "ALT builds an op_merge on the current upstream");
  CHECK(g_ncalls == n && r->nbranches == n, "one branch per alternative");
  for (unsigned i = 0; i < BX_N; ++i) if (i < n) {
    CHECK(g_calls[i].tree == &g_kids[i], "alternatives are built in written order");
    mop *tine = g_calls[i].upstream;
    CHECK(tine->kind == K_TINE && tine->a[0] == r && tine->extra == i, "branch i is built on tine i of this merge");
    CHECK(r->branch[i]->kind == K_SUBCHAIN && r->branch[i]->call == (int)i, "branch i of the merge is alternative i");
    CHECK(g_calls[i].scope != &g_bn && g_calls[i].scope_super == &g_bn, "each alternative gets a scope of its own nested in the current one");
    CHECK(g_calls[i].lay == &L && g_calls[i].entry >= r->hi, "alternatives are live together: laid out one after another in the enclosing layout, after the merge's state");
  }
}

/* SCOPE: C03 */
void h_bx_scope(void)
{
  mop *r = run(tree_type__SCOPE, 1);
  check_up_rdv();
  CHECK(g_ncalls == 1 && g_calls[0].tree == &g_kids[0], "the body is built once");
  CHECK(r->kind == K_SUBCHAIN && r->call == 0, "SCOPE adds no operator");
  CHECK(g_calls[0].scope != &g_bn && g_calls[0].scope_super == &g_bn, "the body gets a scope of its own nested in the current one");
  CHECK(g_calls[0].upstream == g_upstream && g_calls[0].lay == &L, "the body is built on the current upstream in the current layout");
}

static void check_one_sub(mop *r, int kind)
{
  check_up_rdv();
  CHECK(r->kind == kind && r->a[0] == g_upstream, "the operator is built on the current upstream");
  CHECK(g_ncalls == 1 && g_calls[0].tree == &g_kids[0], "the sub-expression is built once");
  CHECK(r->a[2] != 0 && r->a[2]->kind == K_SUBCHAIN && r->a[2]->call == 0, "the operator drives the sub-expression it was built for");
  check_origin_of(r->a[1], 0, &L);
  CHECK(g_calls[0].scope == &g_bn, "built in the current scope");
}
void h_bx_capture(void) { mop *r = run(tree_type__CAPTURE, 1); check_one_sub(r, K_CAPTURE); }
void h_bx_close_star(void)
{
  mop *r = run(tree_type__CLOSE_STAR, 1); check_one_sub(r, K_CLOSURE);
  CHECK(r->extra == (unsigned long)op_tr_closure_kind__star, "E* builds a star closure");
  CHECK(r->lay == &L && r->lo >= g_calls[0].exit, "the closure's own state lies beyond the body's states");
}
void h_bx_close_plus(void)
{
  mop *r = run(tree_type__CLOSE_PLUS, 1); check_one_sub(r, K_CLOSURE);
  CHECK(r->extra == (unsigned long)op_tr_closure_kind__plus, "E+ builds a plus closure");
  CHECK(r->lay == &L && r->lo >= g_calls[0].exit, "the closure's own state lies beyond the body's states");
}
void h_bx_or(void)
{
  unsigned long n = nondet_ulong();
  mop *r = run(tree_type__OR, n);
  check_up_rdv();
  CHECK(r->kind == K_OR && r->a[0] == g_upstream && r->lay == &L, "|| builds an op_or on the current upstream");
  CHECK(g_ncalls == n && r->nbranches == n, "one branch per operand");
  for (unsigned i = 0; i < BX_N; ++i) if (i < n) {
    CHECK(g_calls[i].tree == &g_kids[i], "operands are built in written order");
    CHECK(r->branch[i]->kind == K_SUBCHAIN && r->branch[i]->call == (int)i, "branch i is operand i");
    check_origin_of(r->borigin[i], i, &L);
    for (unsigned j = 0; j < i; ++j) CHECK(r->borigin[j] != r->borigin[i], "one origin per operand");
  }
}
void h_bx_cat(void)
{
  unsigned long n = nondet_ulong();
  mop *r = run(tree_type__CAT, n);
  check_up_rdv();
  CHECK(g_ncalls == n, "each element of a concatenation is built once");
  mop *prev = g_upstream;
  for (unsigned i = 0; i < BX_N; ++i) if (i < n) {
    CHECK(g_calls[i].tree == &g_kids[i], "elements are built in written order");
    CHECK(g_calls[i].upstream == prev, "element i is built on what element i-1 returned (the first on the current upstream)");
    CHECK(g_calls[i].scope == &g_bn && g_calls[i].lay == &L, "same scope (names bound by one element are visible to the next), same layout");
    CHECK(g_pool[1 + i].kind == K_SUBCHAIN && g_pool[1 + i].call == (int)i, "model: call i returned pool entry 1+i");
    prev = &g_pool[1 + i];
  }
  CHECK(r == prev, "the concatenation is its last element's operator");
}

/* ---- names (C03) ---- */
static mop g_binders[NATOMS]; static mbuiltin g_builtins[2 * NATOMS];
/* what the current scope chain and the enclosing block's up-value table know: anything, per name */
static void choose_names(void)
{
  for (int a = 0; a < NATOMS; ++a) {
    g_has_local[a] = nondet_bool(); g_has_upv[a] = nondet_bool();
    g_local[a].m_bind = &g_binders[a]; g_local[a].m_bi = nondet_bool() ? &g_builtins[a] : 0;
    g_upv[a].builtin = nondet_bool(); g_upv[a].bi = &g_builtins[NATOMS + a]; g_upv[a].id = (unsigned)nondet_int();
  }
}
/* what the scope chain / the enclosing block's table know about the name being read: unknown, a binder (an up-value), a builtin --
   enumerated concretely (3 x 3 combinations, each run on a fresh model state), the up-value id stays symbolic */
static void read_case(int lc, int uc)
{
  for (int a = 0; a < NATOMS; ++a) { g_has_local[a] = 0; g_has_upv[a] = 0; }
  mop *r = 0;
  T.m_str = BX_ATOM; g_fixed_name = 1;
  matom n = BX_ATOM;
  g_has_local[n] = lc != 0; g_local[n].m_bind = &g_binders[n]; g_local[n].m_bi = lc == 2 ? &g_builtins[n] : 0;
  g_has_upv[n] = uc != 0; g_upv[n].builtin = uc == 2; g_upv[n].bi = &g_builtins[NATOMS + n]; g_upv[n].id = (unsigned)nondet_int();
  r = run(tree_type__READ, 0);
  CHECK(g_ncalls == 0 && g_nbinds == 0, "a read builds no sub-expression and binds nothing");
  if (lc == 1) {         /* the scope chain wins over the up-value table: inner binders shadow outer ones */
    CHECK(verif_raised == 0 && r != 0 && r->kind == K_APPLY && r->lay == &L && r->extra == 1, "reading a name applies its value if it is a block");
    CHECK(r->a[0]->kind == K_READ && r->a[0]->a[0] == g_upstream && r->a[0]->a[1] == &g_binders[n], "the read is wired to the binder the scope chain resolves the name to, whatever the enclosing block's up-value table knows");
  } else if (lc == 2)
    CHECK(verif_raised == 0 && r != 0 && r->kind == K_BUILTIN && r->bi == &g_builtins[n] && r->a[0] == g_upstream, "a name bound to a builtin builds that builtin");
  else if (uc == 1) {
    CHECK(verif_raised == 0 && r != 0 && r->kind == K_APPLY && r->lay == &L && r->extra == 1, "reading an up-value applies it if it is a block");
    CHECK(r->a[0]->kind == K_UPREAD && r->a[0]->a[0] == g_upstream && r->a[0]->extra == g_upv[n].id && r->a[0]->extra2 == g_rdv, "the up-value read uses the id the table gave this name and the block's rendezvous slot");
  } else if (uc == 2)
    CHECK(verif_raised == 0 && r != 0 && r->kind == K_BUILTIN && r->bi == &g_builtins[NATOMS + n] && r->a[0] == g_upstream, "a builtin reached through the up-value table builds that builtin");
  else
    CHECK(verif_raised != 0, "reading an unbound name is a compile-time error");
}
void h_bx_read(void)
{
  for (int lc = 0; lc < 3; ++lc)
    for (int uc = 0; uc < 3; ++uc)
      read_case(lc, uc);
}
void h_bx_bind(void)
{
  mop *r = run(tree_type__BIND, 0);
  CHECK(verif_raised == 0 && r->kind == K_BIND && r->a[0] == g_upstream && r->lay == &L, "a binder is built on the current upstream, its state in the current layout");
  CHECK(g_nbinds == 1 && g_bind_scope == &g_bn && g_bind_name == T.m_str && g_bind_op == r, "exactly this name is bound, in the CURRENT scope, to exactly this binder");
  CHECK(g_ncalls == 0, "no sub-expression");
}
void h_bx_block(void)
{
  choose_names();
#ifdef BX_REFD
  g_refd.n = BX_REFD;      /* number of up-values of the body: one job per value (keeps the operator pool index concrete) */
#else
  g_refd.n = nondet_ulong(); __CPROVER_assume(g_refd.n <= 3);
#endif
  for (unsigned k = 0; k < 3; ++k) {
    g_refd.d[k].first = k; g_refd.d[k].second = (matom)k;   /* distinct names; which atoms they are is immaterial (the tables are symmetric in the atoms) */
    if (k < g_refd.n) {           /* a name the body refers to as an up-value is visible at the block and is not a builtin (uprefs constructor / uprefs::find, C03 bind unit) */
      matom a = g_refd.d[k].second;
      __CPROVER_assume(g_has_local[a] ? g_local[a].m_bi == 0 : (g_has_upv[a] && !g_upv[a].builtin));
    }
  }
  mop *r = run(tree_type__BLOCK, 1);
  CHECK(verif_raised == 0 && r->kind == K_LEXCLOSURE, "a block builds an op_lex_closure");
  CHECK(r->extra == g_refd.n, "the closure captures as many values as the body has up-values");
  CHECK(g_ncalls == 1 && g_calls[0].tree == &g_kids[0], "the body is built once");
  CHECK(r->a[2] != 0 && r->a[2]->kind == K_SUBCHAIN && r->a[2]->call == 0, "the closure holds the body");
  CHECK(g_calls[0].lay != &L && g_rdv_lay == g_calls[0].lay, "the body has a layout of its own, with the rendezvous slot in it");
  CHECK(g_calls[0].rdv == g_rdv_inner && r->extra2 == g_rdv_inner, "the body and the closure use the block's own rendezvous slot");
  check_origin_of(r->a[1], 0, g_calls[0].lay);
  CHECK(r->a[1]->lo > g_rdv_inner, "the rendezvous slot is not overlapped by the origin's state");
  CHECK(r->lo >= g_calls[0].exit, "the closure is given the body's complete layout");
  CHECK(g_calls[0].scope != &g_bn && g_calls[0].scope_super == 0, "the body is built in a fresh root scope: outer names reach it only as up-values");
  CHECK(g_calls[0].up != &g_up && g_calls[0].up_from_bn == &g_bn && g_calls[0].up_from_up == &g_up, "the body's up-value table is built from the scope chain and table visible at the block");
  /* the reads emitted in front of the closure: the operator nearest to the closure pushes up-value 0 (top of stack), and each
     name is resolved as a direct read would resolve it: scope chain first, enclosing block's up-values second */
  mop *cur = r->a[0];
#if !defined(BX_REFD) || BX_REFD > 0
  for (unsigned k = 0; k < 3; ++k) if (k < g_refd.n) {
    matom a = g_refd.d[k].second;
    if (g_has_local[a])
      CHECK(cur->kind == K_READ && cur->a[1] == &g_binders[a], "captured name bound in the enclosing scope chain: read from ITS binder (inner binders shadow the enclosing block's up-values)");
    else
      CHECK(cur->kind == K_UPREAD && cur->extra == g_upv[a].id && cur->extra2 == g_rdv, "captured name that is an up-value of the enclosing block: passed along with the enclosing id and rendezvous slot");
    cur = cur->a[0];
  }
#endif
  CHECK(cur == g_upstream, "exactly one read per up-value, in id order from the closure upwards, on the current upstream");
}

/* ---- format strings: C03 (a scope per directive) and wiring ----
 * child i is a literal piece iff bit i of BX_FMT_MASK is clear, else a %( %) / %s directive; number and kinds of the pieces are
 * fixed per job (keeps the model's operator pool index concrete), the checks are selected by the preprocessor accordingly */
#ifdef BX_FMT_N
#define FMT_IS_DIR(i) (((BX_FMT_MASK) >> (i)) & 1)
#define FMT_NDIR (((BX_FMT_N) > 0 ? FMT_IS_DIR(0) : 0) + ((BX_FMT_N) > 1 ? FMT_IS_DIR(1) : 0) + ((BX_FMT_N) > 2 ? FMT_IS_DIR(2) : 0))
#if FMT_NDIR > 0
static void check_dir(mop *cur, unsigned i, unsigned k)     /* directives are built last to first: directive d (written order) is call ndir-1-d */
{
  CHECK(cur->kind == K_SOP && cur->lay == &L, "piece i of the string is a directive");
  CHECK(cur->a[2]->kind == K_SUBCHAIN && cur->a[2]->call == (int)k && g_calls[k].tree == &g_kids[i], "the directive evaluates child i");
  check_origin_of(cur->a[1], k, &L);
  CHECK(g_calls[k].scope != &g_bn && g_calls[k].scope_super == &g_bn, "each directive gets a scope of its own nested in the current one: names bound inside %( %) do not leak");
}
#endif
#if FMT_NDIR < BX_FMT_N
static void check_lit(mop *cur, unsigned i)
{ CHECK(cur->kind == K_SLIT && cur->extra == (unsigned long)g_kids[i].m_str, "piece i of the string is the literal text of child i"); }
#endif
void h_bx_format(void)
{
  for (unsigned i = 0; i < BX_N; ++i) { g_kids[i].m_tt = FMT_IS_DIR(i) ? tree_type__NOP : tree_type__STR; g_kids[i].m_str = nondet_int(); }
  mop *r = run(tree_type__FORMAT, BX_FMT_N);
#if FMT_NDIR > 0
  check_up_rdv();
#endif
  CHECK(verif_raised == 0 && r->kind == K_FORMAT && r->a[0] == g_upstream && r->lay == &L, "a format string builds an op_format on the current upstream");
  CHECK(r->a[1] != 0 && r->a[1]->kind == K_SORIGIN && r->a[1]->lay == &L, "with a stringer origin of its own");
  CHECK(g_ncalls == FMT_NDIR, "every directive is built once, literal pieces build nothing");
  mop *cur = r->a[2];
  unsigned d = 0;
#if BX_FMT_N > 0
#if FMT_IS_DIR(0)
  check_dir(cur, 0, FMT_NDIR - 1 - d); d++;
#else
  check_lit(cur, 0);
#endif
  cur = cur->a[0];
#endif
#if BX_FMT_N > 1
#if FMT_IS_DIR(1)
  check_dir(cur, 1, FMT_NDIR - 1 - d); d++;
#else
  check_lit(cur, 1);
#endif
  cur = cur->a[0];
#endif
#if BX_FMT_N > 2
#if FMT_IS_DIR(2)
  check_dir(cur, 2, FMT_NDIR - 1 - d); d++;
#else
  check_lit(cur, 2);
#endif
  cur = cur->a[0];
#endif
  (void)d;
  CHECK(cur == r->a[1], "the chain of pieces, in written order, ends in the stringer origin");
}
#endif

/* ---- C04 wiring: sub-expression evaluation and assertions ---- */
void h_bx_subx_eval(void)
{
  mop *r = run(tree_type__SUBX_EVAL, 1); check_one_sub(r, K_SUBX);
  CHECK(r->extra == T.m_cstval, "the operator keeps as many values of the sub-expression's result as the parser recorded");
  CHECK(r->lay == &L && r->lo >= g_calls[0].exit, "its own state lies beyond the sub-expression's states");
}
void h_bx_assert(void)
{
  mop *r = run(tree_type__ASSERT, 1);
  CHECK(r->kind == K_ASSERT && r->a[0] == g_upstream, "an assertion is an op_assert on the current upstream");
  CHECK(g_npreds == 1 && r->extra == 4242, "driven by the one predicate built for it");
  CHECK(g_pred_tree == &g_kids[0] && g_pred_lay == &L && g_pred_scope == &g_bn && g_pred_up == &g_up && g_pred_rdv == g_rdv, "the predicate is built from the asserted expression, in the current scope, layout and block");
  CHECK(g_ncalls == 0, "nothing else is built");
}
#ifdef VERIF_CONTROL
void h_bx_control(void) { mop *r = run(tree_type__SCOPE, 1); CHECK(g_calls[0].scope == &g_bn, "CONTROL: deliberately false (the body's scope is a new one)"); }
#endif
