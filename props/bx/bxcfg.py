"""Shared lowering config for slices of build_exec (build.cc): only the listed cases of its switch are lowered
(cxx2c keep_cases); everything the builder constructs is modelled by props/bx/bx_model.h."""
import copy
SP = r'(const )?std::(shared_ptr<%s>|__shared_ptr<%s.*>|__shared_ptr_access<%s.*>)'
OPK = r'(op|op_read|op_upread|op_apply|op_lex_closure|op_origin|op_ifelse|op_merge|op_tine|op_capture|op_subx|op_tr_closure|op_or|op_nop|op_bind|stringer|stringer_origin|stringer_lit|stringer_op|op_format)'
TV = r'(const )?std::vector<tree(, std::allocator<tree>)?>'
TVIT = r'__gnu_cxx::__normal_iterator<(const )?tree \*, std::vector<tree.*>>'
STRT = r'(const )?(std::basic_string<char.*>|std::string|std::__cxx11::basic_string<char.*>)'
IDMAP = r'(const )?std::map<unsigned int, std::(__cxx11::)?basic_string<char.*>.*>'
IDMAP_RIT = r'std::reverse_iterator<std::_Rb_tree_iterator<std::pair<const unsigned int, .*>>>|std::map<unsigned int, .*>::reverse_iterator'
IDPAIR = r'(const )?std::pair<const unsigned int, std::(__cxx11::)?basic_string<char.*>>'
TVRIT = r'std::reverse_iterator<' + TVIT + r'>|std::vector<tree>::(const_)?reverse_iterator'
BX_CFG = {
    'names': {'(anonymous namespace)::build_exec': 'build_exec'},
    'bodies_prelude': '',
    'types': {SP % (OPK, OPK, OPK): 'mop *', r'(std::)?shared_ptr<_NonArray<' + OPK + r'>>': 'mop *',
              r'(const )?std::(shared_ptr<const builtin>|__shared_ptr<const builtin.*>|__shared_ptr_access<const builtin.*>)': 'mbuiltin *',
              r'layout::loc': 'unsigned long', r'(const )?layout': 'mlayout', r'uprefs': 'muprefs', r'(const )?tree': 'mtree', r'bindings': 'mbindings',
              r'(const )?std::vector<tree(, std::allocator<tree>)?>': 'mtreevec', r'builtin': 'mbuiltin',
              r'(const )?std::vector<layout(, std::allocator<layout>)?>': 'mlayvec',
              r'std::initializer_list<layout>': 'mlayvec',
              r'(const )?std::unique_ptr<pred(, std::default_delete<pred>)?>': 'int',
              r'op_merge|op_tine|op_bind': 'mop', STRT: 'matom', r'(const )?binding': 'mbinding', r'(const )?upref': 'mupref',
              IDMAP: 'midmap', IDMAP_RIT: 'const midname *', IDPAIR: 'midname', TVRIT: 'const mtree *', TVIT + r'|std::vector<tree>::(const_)?iterator': 'const mtree *'},
    'types_are_records': {r'(const )?layout': True, r'uprefs': True, r'(const )?tree': True, r'bindings': True,
                          r'(const )?std::vector<tree(, std::allocator<tree>)?>': True, r'builtin': True,
                          r'(const )?std::vector<layout(, std::allocator<layout>)?>': True, r'std::initializer_list<layout>': True,
                          r'op_merge|op_tine|op_bind': True, r'(const )?binding': True, r'(const )?upref': True, IDMAP: True, IDPAIR: True},
    'record_default': {'mbindings': 'mbindings_root()', 'mlayout': '(mlayout){0}'},
    'exception_kinds': {r'std::runtime_error': 2},
    'record_ctypes': ['mbinding', 'mupref', 'midmap', 'midname', 'mlayout', 'muprefs', 'mtree', 'mbindings', 'mtreevec', 'mbuiltin', 'mlayvec', 'mop'],
    'types_prelude': '#include "../bx/bx_model.h"\n',
    'extern': {'__assert_fail': 'verif_assert_fail_libc', 'abort': 'verif_abort',
               r'std::make_shared\|(std::)?shared_ptr<(_NonArray<)?op_ifelse>.*': 'mk_ifelse',
               r'std::make_shared\|(std::)?shared_ptr<(_NonArray<)?op_origin>.*': 'mk_origin',
               r'std::make_shared\|(std::)?shared_ptr<(_NonArray<)?op_capture>.*': 'mk_capture',
               r'\(anonymous namespace\)::build_exec': 'build_exec_rec',
               r'std::make_shared\|(std::)?shared_ptr<(_NonArray<)?op_merge>.*': 'mk_merge', r'std::make_shared\|(std::)?shared_ptr<(_NonArray<)?op_tine>.*': 'mk_tine',
               r'op_merge::add_branch': 'merge_add_branch', r'op_or::add_branch': 'or_add_branch',
               r'std::make_shared\|(std::)?shared_ptr<(_NonArray<)?op_tr_closure>.*': 'mk_closure',
               r'std::make_shared\|(std::)?shared_ptr<(_NonArray<)?op_or>.*': 'mk_or',
               TV + r'::begin': 'MTV_BEGIN', TV + r'::end': 'MTV_END',
               r'__gnu_cxx::operator!=.*': {'c': 'IT_NE', 'by_value': True},
               TVIT + r'::operator\*': {'c': 'IT_DEREF', 'by_value': True},
               TVIT + r'::operator\+\+': 'IT_PREINC',
               r'layout::add_union': 'mlayout_add_union',
               r'std::vector<layout.*>::ctor\|.*initializer_list.*': 'MLAYVEC_FROM_IL',
               r'tree::child': 'mtree_child', r'(const )?std::vector<tree.*>::operator\[\]': 'mtreevec_at',
               r'(const )?std::vector<tree.*>::size': 'mtreevec_size',
               r'bindings::ctor\|void \(bindings &\)': 'mbindings_nested',
               r'std::__shared_ptr_access<.*>::operator(->|\*)': {'c': 'PTR_ID', 'by_value': True},
               r'std::move': 'VERIF_MOVE',
               r'tree::str': 'mtree_str', r'bindings::find': 'mb_find', r'bindings::bind': 'mb_bind', r'uprefs::find': 'mu_find',
               r'binding::is_builtin': 'mbinding_is_builtin', r'binding::get_bind': 'mbinding_get_bind', r'binding::get_builtin': 'mbinding_get_builtin',
               r'upref::is_builtin': 'mupref_is_builtin', r'upref::get_id': 'mupref_get_id', r'upref::get_builtin': 'mupref_get_builtin',
               r'\(anonymous namespace\)::build_builtin': 'mk_builtin',
               r'std::make_shared\|(std::)?shared_ptr<(_NonArray<)?op_read>.*': 'mk_read',
               r'std::make_shared\|(std::)?shared_ptr<(_NonArray<)?op_upread>.*': 'mk_upread',
               r'std::make_shared\|(std::)?shared_ptr<(_NonArray<)?op_apply>.*': 'mk_apply',
               r'std::make_shared\|(std::)?shared_ptr<(_NonArray<)?op_bind>.*': 'mk_bind',
               r'std::make_shared\|(std::)?shared_ptr<(_NonArray<)?op_lex_closure>.*': 'mk_lex_closure',
               r'uprefs::ctor\|void \(bindings &, uprefs &\)': 'muprefs_nested', r'uprefs::refd_ids': 'mu_refd_ids',
               r'op_apply::reserve_rendezvous': 'model_reserve_rdv',
               r'std::make_shared\|(std::)?shared_ptr<(_NonArray<)?op_subx>.*': 'mk_subx',
               r'std::make_shared\|(std::)?shared_ptr<(_NonArray<)?op_assert>.*': 'mk_assert',
               r'\(anonymous namespace\)::build_pred': 'build_pred_model',
               r'tree::cst': 'mtree_cst', r'constant::value': 'mconst_value', r'mpz_class::uval': 'mmpz_uval',
               r'std::make_shared\|(std::)?shared_ptr<(_NonArray<)?stringer_origin>.*': 'mk_sorigin',
               r'std::make_shared\|(std::)?shared_ptr<(_NonArray<)?stringer_lit>.*': 'mk_slit',
               r'std::make_shared\|(std::)?shared_ptr<(_NonArray<)?stringer_op>.*': 'mk_sop',
               r'std::make_shared\|(std::)?shared_ptr<(_NonArray<)?op_format>.*': 'mk_format',
               TV + r'::rbegin': 'MTV_RBEGIN', TV + r'::rend': 'MTV_REND',
               r'std::reverse_iterator<.*>::operator\*': {'c': 'RIT_ARROW', 'by_value': True},
               IDMAP + r'::rbegin': 'IDMAP_RBEGIN', IDMAP + r'::rend': 'IDMAP_REND', IDMAP + r'::size': 'IDMAP_SIZE',
               r'std::operator!=\|.*reverse_iterator.*': {'c': 'IT_NE', 'by_value': True}, r'std::reverse_iterator<.*>::operator\+\+': 'RIT_PREINC',
               r'std::reverse_iterator<.*>::operator->': {'c': 'RIT_ARROW', 'by_value': True}},
}
BX_ROOTS = ['(anonymous namespace)::build_exec']


def cfg(cases):
    c = copy.deepcopy(BX_CFG)
    c['keep_cases'] = {'build_exec': list(cases)}
    return c


import os, sys
HERE = os.path.dirname(os.path.abspath(__file__))
ALL_CASES = ['IFELSE', 'ALT', 'SCOPE', 'CAPTURE', 'CLOSE_STAR', 'CLOSE_PLUS', 'OR', 'CAT', 'READ', 'BIND', 'BLOCK', 'FORMAT', 'SUBX_EVAL', 'ASSERT']
LOOPING = {'alt', 'or', 'cat', 'block', 'format'}


def prepare(vlib, out):
    lw = vlib.extract('bx', 'libzwerg/build.cc', cfg(ALL_CASES), BX_ROOTS, out)
    dc = lw.report.get('dropped_cases', [])
    return lw, (dc[0] if dc else {})


def jobs(vlib, Job, out, names, control=False):
    inc = [out, os.path.join(vlib.VERIF, 'props'), HERE]
    src = [os.path.join(HERE, 'bx_harness.c'), os.path.join(out, 'bx_bodies.c')]
    J = []
    expanded = []
    for nm in names:
        if nm == 'block':
            expanded += [('block', 'block_upvalues%d' % k, ['BX_REFD=%d' % k]) for k in range(4)]
        elif nm == 'format':
            expanded += [('format', 'format_n%d_kinds%d' % (n, m), ['BX_FMT_N=%d' % n, 'BX_FMT_MASK=%d' % m]) for n in range(4) for m in range(1 << n)]
        elif nm == 'read':
            expanded.append(('read', 'read', ['BX_ATOM=1']))
        else:
            expanded.append((nm, nm, []))
    for nm, jn, defs in expanded:
        loop = nm in LOOPING
        J.append(Job(('bounded_' if loop else '') + 'build_exec_' + jn, src, 'h_bx_' + nm, includes=inc, kind='bounded' if loop else 'proof', defines=defs,
                     unwind=9, timeout=300, cbmc_args=['--object-bits', '10'],
                     note=('build_exec case of build.cc, <= 3 sub-expressions' if loop else 'build_exec case of build.cc: loop-free, complete against the model of the recursive call and constructors')))
    if control:
        J.append(Job('build_exec_control', src, 'h_bx_control', includes=inc, defines=['VERIF_CONTROL'], kind='control', expect='fail', unwind=9,
                     timeout=300, cbmc_args=['--object-bits', '10']))
    return J
