/* Model for the lowering of single cases of build_exec (build.cc) (TRUSTED, hand-written).
 *   layout                {m_size}; every constructor that takes `layout &` reserves its state there: model_reserve logs
 *                         (layout object, [lo,hi)) with arbitrary padding/size, like layout::reserve (contract proved in C13)
 *   layout::add_union     by its contract proved in C13: the size never shrinks and covers every alternative
 *   shared_ptr<op...>     plain pointer into a pool of model operators {kind, layout it reserved in, what it was given}
 *   bindings              {m_super}; bindings(bindings &super) = a new object whose m_super is &super (bindings.hh)
 *   build_exec (recursive call)  ASSUMED CONTRACT with a ghost log: records tree, layout, scope, upstream and the layout
 *                         size at entry; may reserve any amount in the layout it was given (never shrinks it); returns
 *                         a new operator.  The harnesses re-establish "never shrinks" for the cases they lower.
 */
#ifndef BX_MODEL_H
#define BX_MODEL_H
#include "../common.h"
#ifdef VERIF_CBMC
#define M_ASSERT(c, msg) __CPROVER_assert(c, "build model: " msg)
#define M_ASSUME(c) __CPROVER_assume(c)
#else
#define M_ASSERT(c, msg) ((c) ? (void)0 : verif_assert_fail("build model: " msg))
#define M_ASSUME(c) ((void)0)
#endif
#define verif_dropped_case() M_ASSERT(0, "a case of build_exec that the extraction dropped was reached")
#define verif_assert_fail_libc(a, b, c, d) verif_assert_fail("assert in build.cc")
unsigned long nondet_ulong(void);
enum mop_kind { K_NONE, K_UPSTREAM, K_ORIGIN, K_SUBCHAIN, K_IFELSE, K_MERGE, K_TINE, K_CAPTURE, K_SUBX, K_CLOSURE, K_OR };
typedef struct mlayout { unsigned long m_size; } mlayout;
typedef struct mlayvec { mlayout d[4]; unsigned long n; } mlayvec;
#define MLAYVEC_FROM_IL(il) (il)
typedef struct mop {
  int kind;
  const mlayout *lay;           /* the layout object this operator reserved its state in (0: none) */
  unsigned long lo, hi;         /* its state */
  struct mop *a[7];             /* constructor arguments that are operators, in order */
  int call;                     /* K_SUBCHAIN: index of the build_exec call that returned it */
  unsigned long extra;          /* further scalar argument (tine index, closure kind, ...) */
  unsigned nbranches; struct mop *branch[4]; struct mop *borigin[4];
} mop;
typedef struct muprefs { char unused; } muprefs;
typedef struct mbuiltin { char unused; } mbuiltin;
typedef struct mbindings { struct mbindings *m_super; } mbindings;
struct mtree;
typedef struct mtreevec { struct mtree *d; unsigned long n; } mtreevec;
typedef struct mtree { int m_tt; mtreevec m_children; mbuiltin *m_builtin; } mtree;
#define PTR_ID(p) (p)
#define VERIF_MOVE(p) (p)
static inline const mtree *mtreevec_at(const mtreevec *v, unsigned long i) { M_ASSERT(i < v->n, "child index within the tree"); return &v->d[i < v->n ? i : 0]; }
static inline unsigned long mtreevec_size(const mtreevec *v) { return v->n; }
static inline const mtree *mtree_child(const mtree *t, unsigned long i) { return mtreevec_at(&t->m_children, i); }
static inline mbindings mbindings_nested(mbindings *super) { mbindings b; b.m_super = super; return b; }

#define POOL 12
extern mop g_pool[POOL]; extern unsigned g_npool;
static inline mop *new_op(int kind)
{
  M_ASSERT(g_npool < POOL, "operator pool large enough");
  mop *o = &g_pool[g_npool < POOL ? g_npool : 0]; g_npool++;
  o->kind = kind; o->lay = 0; o->lo = o->hi = 0; o->call = -1; o->extra = 0; o->nbranches = 0;
  for (int i = 0; i < 7; ++i) o->a[i] = 0;
  return o;
}
static inline void model_reserve(mop *o, mlayout *l)
{
  unsigned long pad = nondet_ulong(), sz = nondet_ulong();
  M_ASSUME(pad < 64 && sz >= 1 && sz <= 4096 && l->m_size <= (1UL << 40));
  o->lay = l; o->lo = l->m_size + pad; o->hi = o->lo + sz; l->m_size = o->hi;
}
static inline void mlayout_add_union(mlayout *l, mlayvec v)
{
  /* contract of layout::add_union (props/c13/spec.h, proved there on the text of layout.cc) */
  unsigned long n = nondet_ulong();
  M_ASSUME(n >= l->m_size);
  for (unsigned i = 0; i < 4; ++i) if (i < v.n) M_ASSUME(n >= v.d[i].m_size);
  l->m_size = n;
}
/* ghost log of the recursive build_exec calls */
#define CMAX 4
typedef struct bx_call { const mtree *tree; mlayout *lay; unsigned long entry, exit; mop *upstream; mbindings *scope, *scope_super; muprefs *up; unsigned long rdv; } bx_call;
extern bx_call g_calls[CMAX]; extern unsigned g_ncalls;
static inline mop *build_exec_rec(const mtree *t, mlayout *l, unsigned long rdv, mop *upstream, mbindings *scope, muprefs *up)
{
  M_ASSERT(g_ncalls < CMAX, "call log large enough");
  M_ASSERT(upstream != 0, "a sub-expression is built on a non-null upstream");
  unsigned k = g_ncalls < CMAX ? g_ncalls : 0; g_ncalls++;
  g_calls[k].tree = t; g_calls[k].lay = l; g_calls[k].entry = l->m_size; g_calls[k].upstream = upstream;
  g_calls[k].scope = scope; g_calls[k].scope_super = scope->m_super; g_calls[k].up = up; g_calls[k].rdv = rdv;
  mop *o = new_op(K_SUBCHAIN); o->call = (int)k; o->a[0] = upstream;
  unsigned long grow = nondet_ulong();
  M_ASSUME(grow <= (1UL << 20) && l->m_size <= (1UL << 40));
  o->lay = l; o->lo = l->m_size; l->m_size += grow; o->hi = l->m_size;
  g_calls[k].exit = l->m_size;
  return o;
}
static inline mop *mk_origin(mlayout *l) { mop *o = new_op(K_ORIGIN); model_reserve(o, l); return o; }
static inline mop *mk_ifelse(mlayout *l, mop *const *up, mop *const *co, mop *const *c, mop *const *to, mop *const *t, mop *const *eo, mop *const *e)
{
  mop *o = new_op(K_IFELSE); o->a[0] = *up; o->a[1] = *co; o->a[2] = *c; o->a[3] = *to; o->a[4] = *t; o->a[5] = *eo; o->a[6] = *e;
  model_reserve(o, l); return o;
}
static inline mop *mk_merge(mlayout *l, mop *const *up) { mop *o = new_op(K_MERGE); o->a[0] = *up; model_reserve(o, l); return o; }
static inline mop *mk_tine(mop *merge, const unsigned long *i) { mop *o = new_op(K_TINE); o->a[0] = merge; o->extra = *i; return o; }
static inline void merge_add_branch(mop *m, mop *b) { M_ASSERT(m->nbranches < 4, "branches fit"); if (m->nbranches < 4) m->branch[m->nbranches++] = b; }
static inline mop *mk_capture(mop *const *up, mop *const *origin, mop *const *op) { mop *o = new_op(K_CAPTURE); o->a[0] = *up; o->a[1] = *origin; o->a[2] = *op; return o; }
static inline mop *mk_closure(mlayout *l, mop *const *up, mop *const *origin, mop *const *op, const int *kind)
{ mop *o = new_op(K_CLOSURE); o->a[0] = *up; o->a[1] = *origin; o->a[2] = *op; o->extra = (unsigned long)*kind; model_reserve(o, l); return o; }
static inline mop *mk_or(mlayout *l, mop *const *up) { mop *o = new_op(K_OR); o->a[0] = *up; model_reserve(o, l); return o; }
static inline void or_add_branch(mop *m, mop *origin, mop *b)
{ M_ASSERT(m->nbranches < 4, "branches fit"); if (m->nbranches < 4) { m->borigin[m->nbranches] = origin; m->branch[m->nbranches++] = b; } }
#define MTV_BEGIN(v) (&(v)->d[0])
#define MTV_END(v) (&(v)->d[(v)->n])
#define IT_NE(a, b) ((_Bool)((a) != (b)))
#define IT_DEREF(a) (a)
#define IT_PREINC(ap) (++*(ap), (ap))
#endif
