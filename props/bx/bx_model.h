/* Model for the lowering of single cases of build_exec (build.cc) (TRUSTED, hand-written).
 *   layout                {m_size}; every constructor that takes `layout &` reserves its state there: model_reserve logs
 *                         (layout object, [lo,hi)) with arbitrary padding/size, like layout::reserve (contract proved in C13)
 *   layout::add_union     by its contract proved in C13: the size never shrinks and covers every alternative
 *   shared_ptr<op...>     plain pointer into a pool of model operators {kind, layout it reserved in, what it was given}
 *   bindings              {m_super}; bindings(bindings &super) = a new object whose m_super is &super (bindings.hh)
 *   build_exec (recursive call)  ASSUMED CONTRACT with a ghost log: records tree, layout, scope, upstream and the layout
 *                         size at entry; may reserve any amount in the layout it was given (never shrinks it); returns
 *                         a new operator.  The harnesses re-establish "never shrinks" for the cases they lower.
 */
#ifndef BX_MODEL_H
#define BX_MODEL_H
#include "../common.h"
#ifdef VERIF_CBMC
#define M_ASSERT(c, msg) __CPROVER_assert(c, "build model: " msg)
#define M_ASSUME(c) __CPROVER_assume(c)
#else
#define M_ASSERT(c, msg) ((c) ? (void)0 : verif_assert_fail("build model: " msg))
#define M_ASSUME(c) ((void)0)
#endif
#define verif_dropped_case() M_ASSERT(0, "a case of build_exec that the extraction dropped was reached")
#define verif_assert_fail_libc(a, b, c, d) verif_assert_fail("assert in build.cc")
unsigned long nondet_ulong(void);
enum mop_kind { K_NONE, K_UPSTREAM, K_ORIGIN, K_SUBCHAIN, K_IFELSE, K_MERGE, K_TINE, K_CAPTURE, K_SUBX, K_CLOSURE, K_OR, K_READ, K_UPREAD, K_APPLY, K_BIND, K_BUILTIN, K_LEXCLOSURE, K_SORIGIN, K_SLIT, K_SOP, K_FORMAT, K_ASSERT };
typedef struct mlayout { unsigned long m_size; } mlayout;
typedef struct mlayvec { mlayout d[4]; unsigned long n; } mlayvec;
#define MLAYVEC_FROM_IL(il) (il)
typedef struct mop {
  int kind;
  const mlayout *lay;           /* the layout object this operator reserved its state in (0: none) */
  unsigned long lo, hi;         /* its state */
  struct mop *a[7];             /* constructor arguments that are operators, in order */
  int call;                     /* K_SUBCHAIN: index of the build_exec call that returned it */
  unsigned long extra, extra2;  /* further scalar arguments (tine index, closure kind, up-value id, rendezvous ...) */
  const struct mbuiltin *bi;
  unsigned nbranches; struct mop *branch[4]; struct mop *borigin[4];
} mop;
struct mbindings;
typedef struct muprefs { const struct mbindings *from_bn; const struct muprefs *from_up; } muprefs;
typedef struct mbuiltin { char unused; } mbuiltin;
typedef struct mbindings { struct mbindings *m_super; } mbindings;
struct mtree;
typedef struct mtreevec { struct mtree *d; unsigned long n; } mtreevec;
typedef int matom;              /* an identifier (std::string in tree::str, bindings, uprefs): atoms 0..3 */
#define NATOMS 4
typedef struct mtree { int m_tt; mtreevec m_children; mbuiltin *m_builtin; matom m_str; unsigned long m_cstval; } mtree;
#define PTR_ID(p) (p)
#define VERIF_MOVE(p) (p)
static inline const mtree *mtreevec_at(const mtreevec *v, unsigned long i) { M_ASSERT(i < v->n, "child index within the tree"); return &v->d[i < v->n ? i : 0]; }
static inline unsigned long mtreevec_size(const mtreevec *v) { return v->n; }
static inline const mtree *mtree_child(const mtree *t, unsigned long i) { return mtreevec_at(&t->m_children, i); }
static inline mbindings mbindings_nested(mbindings *super) { mbindings b; b.m_super = super; return b; }

#define POOL 12
extern mop g_pool[POOL]; extern unsigned g_npool;
static inline mop *new_op(int kind)
{
  M_ASSERT(g_npool < POOL, "operator pool large enough");
  mop *o = &g_pool[g_npool < POOL ? g_npool : 0]; g_npool++;
  o->kind = kind; o->lay = 0; o->lo = o->hi = 0; o->call = -1; o->extra = 0; o->extra2 = 0; o->bi = 0; o->nbranches = 0;
  for (int i = 0; i < 7; ++i) o->a[i] = 0;
  return o;
}
static inline void model_reserve(mop *o, mlayout *l)
{
  unsigned long pad = nondet_ulong(), sz = nondet_ulong();
  M_ASSUME(pad < 64 && sz >= 1 && sz <= 4096 && l->m_size <= (1UL << 40));
  o->lay = l; o->lo = l->m_size + pad; o->hi = o->lo + sz; l->m_size = o->hi;
}
static inline void mlayout_add_union(mlayout *l, mlayvec v)
{
  /* contract of layout::add_union (props/c13/spec.h, proved there on the text of layout.cc) */
  unsigned long n = nondet_ulong();
  M_ASSUME(n >= l->m_size);
  for (unsigned i = 0; i < 4; ++i) if (i < v.n) M_ASSUME(n >= v.d[i].m_size);
  l->m_size = n;
}
/* ghost log of the recursive build_exec calls */
#define CMAX 4
typedef struct bx_call { const mtree *tree; mlayout *lay; unsigned long entry, exit; mop *upstream; mbindings *scope, *scope_super; muprefs *up; const mbindings *up_from_bn; const muprefs *up_from_up; unsigned long rdv; } bx_call;
extern bx_call g_calls[CMAX]; extern unsigned g_ncalls;
static inline mop *build_exec_rec(const mtree *t, mlayout *l, unsigned long rdv, mop *upstream, mbindings *scope, muprefs *up)
{
  M_ASSERT(g_ncalls < CMAX, "call log large enough");
  M_ASSERT(upstream != 0, "a sub-expression is built on a non-null upstream");
  unsigned k = g_ncalls < CMAX ? g_ncalls : 0; g_ncalls++;
  g_calls[k].tree = t; g_calls[k].lay = l; g_calls[k].entry = l->m_size; g_calls[k].upstream = upstream;
  g_calls[k].scope = scope; g_calls[k].scope_super = scope->m_super; g_calls[k].up = up; g_calls[k].up_from_bn = up->from_bn; g_calls[k].up_from_up = up->from_up; g_calls[k].rdv = rdv;
  mop *o = new_op(K_SUBCHAIN); o->call = (int)k; o->a[0] = upstream;
  unsigned long grow = nondet_ulong();
  M_ASSUME(grow <= (1UL << 20) && l->m_size <= (1UL << 40));
  o->lay = l; o->lo = l->m_size; l->m_size += grow; o->hi = l->m_size;
  g_calls[k].exit = l->m_size;
  return o;
}
static inline mop *mk_origin(mlayout *l) { mop *o = new_op(K_ORIGIN); model_reserve(o, l); return o; }
static inline mop *mk_ifelse(mlayout *l, mop *const *up, mop *const *co, mop *const *c, mop *const *to, mop *const *t, mop *const *eo, mop *const *e)
{
  mop *o = new_op(K_IFELSE); o->a[0] = *up; o->a[1] = *co; o->a[2] = *c; o->a[3] = *to; o->a[4] = *t; o->a[5] = *eo; o->a[6] = *e;
  model_reserve(o, l); return o;
}
static inline mop *mk_merge(mlayout *l, mop *const *up) { mop *o = new_op(K_MERGE); o->a[0] = *up; model_reserve(o, l); return o; }
static inline mop *mk_tine(mop *merge, const unsigned long *i) { mop *o = new_op(K_TINE); o->a[0] = merge; o->extra = *i; return o; }
static inline void merge_add_branch(mop *m, mop *b) { M_ASSERT(m->nbranches < 4, "branches fit"); if (m->nbranches < 4) m->branch[m->nbranches++] = b; }
static inline mop *mk_capture(mop *const *up, mop *const *origin, mop *const *op) { mop *o = new_op(K_CAPTURE); o->a[0] = *up; o->a[1] = *origin; o->a[2] = *op; return o; }
static inline mop *mk_closure(mlayout *l, mop *const *up, mop *const *origin, mop *const *op, const int *kind)
{ mop *o = new_op(K_CLOSURE); o->a[0] = *up; o->a[1] = *origin; o->a[2] = *op; o->extra = (unsigned long)*kind; model_reserve(o, l); return o; }
static inline mop *mk_or(mlayout *l, mop *const *up) { mop *o = new_op(K_OR); o->a[0] = *up; model_reserve(o, l); return o; }
static inline void or_add_branch(mop *m, mop *origin, mop *b)
{ M_ASSERT(m->nbranches < 4, "branches fit"); if (m->nbranches < 4) { m->borigin[m->nbranches] = origin; m->branch[m->nbranches++] = b; } }
#define MTV_BEGIN(v) (&(v)->d[0])
#define MTV_END(v) (&(v)->d[(v)->n])
#define IT_NE(a, b) ((_Bool)((a) != (b)))
#define IT_DEREF(a) (a)
#define IT_PREINC(ap) (++*(ap), (ap))
/* ---- names: READ, BIND, BLOCK -------------------------------------------------------------------------------------
 * bindings::find / uprefs::find are ASSUMED by their contracts proved in the C03 bind unit (innermost binding of the chain or
 * nullptr; the up-value known under this name or nullptr); the harness chooses what the current scope chain (g_local) and the
 * enclosing block's up-value table (g_upv) know.  uprefs::refd_ids: the (id, name) pairs in use, ids 0..n-1 ascending. */
typedef struct mbinding { mop *m_bind; const mbuiltin *m_bi; } mbinding;
typedef struct mupref { _Bool builtin; unsigned id; const mbuiltin *bi; } mupref;
typedef struct midname { unsigned first; matom second; } midname;
typedef struct midmap { midname d[NATOMS]; unsigned long n; } midmap;
extern mbindings g_bn; extern muprefs g_up;
extern _Bool g_has_local[NATOMS], g_has_upv[NATOMS]; extern mbinding g_local[NATOMS]; extern mupref g_upv[NATOMS];
extern midmap g_refd;
extern unsigned g_nbinds; extern const mbindings *g_bind_scope; extern matom g_bind_name; extern const mop *g_bind_op;
extern const mlayout *g_rdv_lay; extern unsigned long g_rdv_inner;
static inline const matom *mtree_str(const mtree *t) { return &t->m_str; }
static inline mbindings mbindings_root(void) { mbindings b; b.m_super = 0; return b; }
static inline muprefs muprefs_nested(const mbindings *bn, const muprefs *up) { muprefs u; u.from_bn = bn; u.from_up = up; return u; }
static inline mbinding *mb_find(mbindings *bn, matom name)
{
  M_ASSERT(bn == &g_bn, "names are looked up in the current scope chain");
  M_ASSERT(name >= 0 && name < NATOMS, "a name of the program");
  return (name >= 0 && name < NATOMS && g_has_local[name]) ? &g_local[name] : 0;
}
static inline mupref *mu_find(muprefs *up, matom name)
{
  M_ASSERT(up == &g_up, "up-values are looked up in the enclosing block's table");
  M_ASSERT(name >= 0 && name < NATOMS, "a name of the program");
  return (name >= 0 && name < NATOMS && g_has_upv[name]) ? &g_upv[name] : 0;
}
static inline void mb_bind(mbindings *bn, matom name, mop *op) { g_nbinds++; g_bind_scope = bn; g_bind_name = name; g_bind_op = op; }
static inline _Bool mbinding_is_builtin(const mbinding *b) { return b->m_bi != 0; }
static inline mop *mbinding_get_bind(const mbinding *b) { M_ASSERT(b->m_bi == 0, "get_bind on a binder"); return b->m_bind; }
static inline const mbuiltin *mbinding_get_builtin(const mbinding *b) { M_ASSERT(b->m_bi != 0, "get_builtin on a builtin"); return b->m_bi; }
static inline _Bool mupref_is_builtin(const mupref *u) { return u->builtin; }
static inline unsigned mupref_get_id(const mupref *u) { M_ASSERT(!u->builtin, "get_id on an up-value"); return u->id; }
static inline const mbuiltin *mupref_get_builtin(const mupref *u) { M_ASSERT(u->builtin, "get_builtin on a builtin"); return u->bi; }
static inline midmap mu_refd_ids(const muprefs *inner) { M_ASSERT(inner->from_bn == &g_bn && inner->from_up == &g_up, "refd_ids of the block's own table"); return g_refd; }
#define IDMAP_RBEGIN(m) (&(m)->d[(m)->n <= NATOMS ? (m)->n : 0])   /* reverse iterator = pointer one past its element, as in the library */
#define IDMAP_REND(m) (&(m)->d[0])
#define IDMAP_SIZE(m) ((m)->n)
#define RIT_ARROW(it) ((it) - 1)
#define RIT_PREINC(ap) (--*(ap), (ap))
static inline unsigned long model_reserve_rdv(mlayout *l)
{ mop tmp; model_reserve(&tmp, l); g_rdv_lay = l; g_rdv_inner = tmp.lo; return tmp.lo; }
static inline mop *mk_read(mop *const *up, mop *bind) { mop *o = new_op(K_READ); o->a[0] = *up; o->a[1] = bind; return o; }
static inline mop *mk_upread(mop *const *up, const unsigned *id, const unsigned long *rdv) { mop *o = new_op(K_UPREAD); o->a[0] = *up; o->extra = *id; o->extra2 = *rdv; return o; }
static inline mop *mk_apply(mlayout *l, mop *const *op, const _Bool *skip) { mop *o = new_op(K_APPLY); o->a[0] = *op; o->extra = *skip; model_reserve(o, l); return o; }
static inline mop *mk_bind(mlayout *l, mop *const *up) { mop *o = new_op(K_BIND); o->a[0] = *up; model_reserve(o, l); return o; }
static inline mop *mk_builtin(const mbuiltin *bi, mop *up, mlayout *l) { mop *o = new_op(K_BUILTIN); o->a[0] = up; o->bi = bi; return o; }
static inline mop *mk_lex_closure(mop *const *up, const mlayout *il, const unsigned long *irdv, mop *const *origin, mop *const *op, const unsigned long *n)
{ mop *o = new_op(K_LEXCLOSURE); o->a[0] = *up; o->a[1] = *origin; o->a[2] = *op; o->extra = *n; o->extra2 = *irdv; o->lo = il->m_size; return o; }
/* ---- format strings ---- */
#define MTV_RBEGIN(v) (&(v)->d[(v)->n])      /* reverse iterator = pointer one past its element */
#define MTV_REND(v) (&(v)->d[0])
static inline mop *mk_sorigin(mlayout *l) { mop *o = new_op(K_SORIGIN); model_reserve(o, l); return o; }
static inline mop *mk_slit(mop *const *s, const matom *str) { mop *o = new_op(K_SLIT); o->a[0] = *s; o->extra = (unsigned long)*str; return o; }
static inline mop *mk_sop(mlayout *l, mop *const *s, mop *const *origin, mop *const *op) { mop *o = new_op(K_SOP); o->a[0] = *s; o->a[1] = *origin; o->a[2] = *op; model_reserve(o, l); return o; }
static inline mop *mk_format(mlayout *l, mop *const *up, mop *const *so, mop *const *s) { mop *o = new_op(K_FORMAT); o->a[0] = *up; o->a[1] = *so; o->a[2] = *s; model_reserve(o, l); return o; }
/* ---- sub-expression evaluation and assertions (C04 wiring) ---- */
static inline const unsigned long *mtree_cst(const mtree *t) { return &t->m_cstval; }     /* tree::cst().value().uval(): the number the parser stored */
#define mconst_value(p) (p)
#define mmpz_uval(p) (*(p))
static inline mop *mk_subx(mlayout *l, mop *const *up, mop *const *origin, mop *const *op, const unsigned long *keep)
{ mop *o = new_op(K_SUBX); o->a[0] = *up; o->a[1] = *origin; o->a[2] = *op; o->extra = *keep; model_reserve(o, l); return o; }
extern unsigned g_npreds; extern const mtree *g_pred_tree; extern const mlayout *g_pred_lay; extern const mbindings *g_pred_scope; extern const muprefs *g_pred_up; extern unsigned long g_pred_rdv;
static inline int build_pred_model(const mtree *t, mlayout *l, unsigned long rdv, mbindings *bn, muprefs *up)
{ g_npreds++; g_pred_tree = t; g_pred_lay = l; g_pred_scope = bn; g_pred_up = up; g_pred_rdv = rdv; return 4242; }
static inline mop *mk_assert(mop *const *up, const int *pred) { mop *o = new_op(K_ASSERT); o->a[0] = *up; o->extra = (unsigned long)*pred; return o; }
#endif
