"""C05 (slice, bounded) -- raw-mode child / parent agreement over the libdw forest model."""
import os, sys, importlib.util
sys.path.insert(0, os.path.join(os.path.dirname(__file__), '..', '..', 'tools'))
import vlib
from vlib import Job

PID = 'C05'
HERE = os.path.dirname(os.path.abspath(__file__))
OUT = os.path.join(vlib.BUILD, 'c05')
C02DIR = os.path.join(HERE, '..', 'c02')


def _load_c02():
    spec = importlib.util.spec_from_file_location('prop_c02_for_c05', os.path.join(C02DIR, 'prop.py'))
    m = importlib.util.module_from_spec(spec)
    spec.loader.exec_module(m)
    return m


C02 = _load_c02()
CI_CFG = {
    'names': {'_ZN14child_iteratorC1E9Dwarf_Die': 'child_iterator_ctor', '_ZN14child_iteratorppEv': 'child_iterator_preinc',
              '_ZN14child_iteratordeEv': 'child_iterator_deref', '_ZNK14child_iteratorneERKS_': 'child_iterator_ne', 'child_iterator::end': 'child_iterator_end'},
    'types': {r'std::iterator<.*>': 'empty_base', r'(struct )?Dwarf': 'void', r'(struct )?Dwarf_CU': 'void', r'(struct )?Dwarf_Abbrev': 'void', r'Dwarf_Off': 'unsigned long'},
    'types_are_records': {r'std::iterator<.*>': True},
    'record_ctypes': ['empty_base'],
    'record_copy': {'child_iterator': 'child_iterator_copy'},
    'types_prelude': '#define DW_MODEL_ATTRS 1\n#include "dw_model.h"\n',
    'bodies_prelude': '#define C05_CHILD 1\n#define DW_MODEL_ATTRS 1\n#include "dw_model2.h"\n',
    'extern': {'__assert_fail': 'verif_assert_fail_libc', 'abort': 'verif_abort',
               r'dwarf_child': 'm_dwarf_child', r'dwarf_siblingof': 'm_dwarf_siblingof', r'dwarf_dieoffset': 'm_dwarf_dieoffset',
               r'dwarf_haschildren': 'm_dwarf_haschildren', r'throw_libdw.*': 'm_throw_libdw',
               r'dwarf_attr_integrate': 'm_dwarf_attr_integrate', r'dwarf_attr': 'm_dwarf_attr', r'dwarf_formref_die': 'm_dwarf_formref_die'},
}
CI_ROOTS = ['_ZN14child_iteratorC1E9Dwarf_Die', '_ZN14child_iteratorppEv', '_ZN14child_iteratordeEv', '_ZNK14child_iteratorneERKS_']
FN = 4
VOFF = r'(const )?(std::vector<(unsigned long|Dwarf_Off)(, std::allocator<(unsigned long|Dwarf_Off)>)?>|root_cache::off_vect)'
VOFF_IT = r'(const )?(__gnu_cxx::__normal_iterator<(const )?(unsigned long|Dwarf_Off) \*, ' + VOFF + r'>|' + VOFF + r'::(const_)?iterator)'
RCMAP = r'(const )?(std::map<Dwarf \*, ' + VOFF + r'(, .*)?>|root_cache::cache_t)'
RCENT = r'(const )?std::pair<Dwarf \*(const)?, ' + VOFF + r'>'
RCENT2 = r'(const )?std::pair<Dwarf \*const, ' + VOFF + r'>'
RCIT = r'(const )?std::(_Rb_tree_(const_)?iterator<' + RCENT2 + r'>|map<.*>::(const_)?iterator)'
RCINS = r'(const )?std::pair<std::_Rb_tree_iterator<' + RCENT2 + r'>, bool>'
# cu_iterator's member functions are defined in dwit.cc: here they are externs bound, by name, to the functions lowered from that unit
RC_CFG = {
    'names': {'root_cache::is_root': 'root_cache_is_root'},
    'types': {r'std::iterator<.*>': 'empty_base', VOFF: 'vec_off', VOFF_IT: 'unsigned long *', RCMAP: 'rcmap', RCENT: 'rcentry', RCENT2: 'rcentry', RCIT: 'rcentry *', RCINS: 'rcins',
              r'(struct )?Dwarf': 'void', r'(struct )?Dwarf_CU': 'void', r'(struct )?Dwarf_Abbrev': 'void', r'Dwarf_Off': 'unsigned long'},
    'types_are_records': {r'std::iterator<.*>': True, VOFF: True, RCMAP: True, RCENT: True, RCENT2: True, RCINS: True},
    'record_ctypes': ['empty_base', 'vec_off', 'rcmap', 'rcentry', 'rcins'],
    'record_default': {'vec_off': 'vec_off_new()'},
    'record_copy': {'cu_iterator': 'cu_iterator_copy'},
    'types_prelude': '#include "dw_model.h"\n#include "rc_model.h"\n',
    'bodies_prelude': '#define C05_ROOT 1\n#include "dw_model2.h"\n#include "rc_model2.h"\n',
    'functor_types': [r'\(lambda at .*\)'],
    'extern': {'__assert_fail': 'verif_assert_fail_libc', 'abort': 'verif_abort',
               r'dwarf_dieoffset': 'm_dwarf_dieoffset', r'dwarf_cu_getdwarf': 'm_dwarf_cu_getdwarf', r'throw_libdw.*': 'm_throw_libdw',
               r'cu_iterator::ctor\|void \(Dwarf \*\)': 'cu_iterator_ctor_dw', r'cu_iterator::end': 'cu_iterator_end',
               r'cu_iterator::operator!=': 'cu_iterator_ne', r'cu_iterator::operator\+\+\|cu_iterator \(\)': 'cu_iterator_preinc',
               r'cu_iterator::operator\*': 'cu_iterator_deref',
               RCMAP + r'::find': 'rcmap_find', RCMAP + r'::end': 'rcmap_end', RCMAP + r'::insert': 'rcmap_insert',
               r'std::make_pair': 'make_rcentry', r'std::move': 'VERIF_MOVE',
               r'std::operator==\|.*_Rb_tree_.*': {'c': 'IT_EQ', 'by_value': True}, r'std::_Rb_tree_(const_)?iterator<.*>::operator==': {'c': 'IT_EQ', 'by_value': True},
               r'std::_Rb_tree_(const_)?iterator<.*>::operator->': {'c': 'PTR_ID', 'by_value': True},
               VOFF + r'::push_back': 'vec_off_push_back', VOFF + r'::begin': 'VOFF_BEGIN', VOFF + r'::end': 'VOFF_END',
               r'std::lower_bound': 'vec_off_lower_bound',
               r'__gnu_cxx::operator!=.*': {'c': 'IT_NE', 'by_value': True}, r'__gnu_cxx::operator==.*': {'c': 'IT_EQ', 'by_value': True},
               r'__gnu_cxx::__normal_iterator<.*>::operator\*': {'c': 'PTR_ID', 'by_value': True}},
}
RC_ROOTS = ['root_cache::is_root']
CUI_CFG = dict(C02.IT_CFG)
CUI_CFG['names'] = dict(C02.IT_CFG['names'], **{'_ZN11cu_iteratorC1EP5Dwarf': 'cu_iterator_ctor_dw', '_ZN11cu_iteratordeEv': 'cu_iterator_deref',
                                                 '_ZNK11cu_iteratorneERKS_': 'cu_iterator_ne'})
CUI_CFG['bodies_prelude'] = '#define C05_CUI 1\n#include "dw_model2.h"\n'
CUI_ROOTS = ['_ZN11cu_iteratorC1EP5Dwarf', '_ZN11cu_iteratorppEv', '_ZN11cu_iteratordeEv', '_ZNK11cu_iteratorneERKS_', 'cu_iterator::end']


def jobs(tier):
    inc = [OUT, os.path.join(vlib.VERIF, 'props'), C02DIR, HERE]
    src = [os.path.join(HERE, 'nav_harness.c'), os.path.join(HERE, 'ci_wrap.c'), os.path.join(OUT, 'ci_bodies.c'), os.path.join(OUT, 'pf_bodies.c')]
    nf = len(C02.forests(FN))
    A = ['--object-bits', '13']
    return [Job('bounded_child_parent_n%d' % FN, src, 'hb_child_parent', includes=inc, defines=['NN=%d' % FN], kind='bounded', unwind=nf + 4, timeout=600,
                mem_gb=32, cbmc_args=A, note='child_iterator and parent_cache::find on every forest shape of <= %d DIEs (%d shapes enumerated, offsets symbolic), every DIE' % (FN, nf)),
            Job('bounded_child_parent_attrs_n3', src, 'hb_child_parent', includes=[os.path.join(OUT, 'f3')] + inc, defines=['NN=3', 'ATTR_SYMBOLIC'], kind='bounded',
                unwind=len(C02.forests(3)) + 6, timeout=900, mem_gb=32, cbmc_args=A,
                note='as bounded_child_parent on forests of <= 3 DIEs, with an arbitrary DW_AT_sibling / DW_AT_abstract_origin layer in the libdw model (matters only to code that consults those attributes)'),
            Job('bounded_is_root_n3', [os.path.join(HERE, 'root_harness.c'), os.path.join(OUT, 'rc_bodies.c'), os.path.join(OUT, 'cui_bodies.c')], 'hb_is_root',
                includes=[os.path.join(OUT, 'f3')] + inc, defines=['NN=3'], kind='bounded', unwind=len(C02.forests(3)) + 6, timeout=900, mem_gb=32, cbmc_args=A,
                note='root_cache::is_root (?root) with the real cu_iterator: every forest shape of <= 3 DIEs (fixed offsets), every ordered pair of DIEs on one cache'),
            Job('child_parent_control', src, 'hb_child_parent_control', includes=inc, defines=['NN=%d' % FN, 'VERIF_CONTROL'], kind='control', expect='fail',
                unwind=nf + 4, timeout=600, mem_gb=32, cbmc_args=A)]


LEVEL = 'other'      # bounded stand-in only
TRUSTED = ['tools/cxx2c.py lowering', 'props/c02/dw_model*.h: assumed contract of dwarf_child / dwarf_siblingof / dwarf_dieoffset on a well-formed .debug_info forest']
ASSUMPTIONS = [
    'libdw is replaced by the forest model of C02 (props/c02/dw_model*.h); the parent cache (std::map) and std::lower_bound are modelled (props/c02/pf_model.h)',
    'BOUNDED: every forest shape of <= 4 DIEs enumerated concretely, offsets symbolic',
    'SLICE of C05: only "every DIE yielded by child of D has D as parent, and child yields exactly the DIEs whose parent is D, in section order" in RAW mode. and "?root holds exactly for unit DIEs" (root_cache::is_root). Cooked mode (import chains), root, unit, entry, equality of DIEs reached twice are NOT covered',
]
EXPLANATION = 'Raw-mode child/parent agreement on the real child_iterator and parent_cache::find over a libdw model; see DESIGN.md section 4 C05.'


def spec_files():
    return [os.path.join(HERE, f) for f in ('nav_harness.c', 'ci_wrap.c', 'root_harness.c', 'rc_model.h', 'rc_model2.h')] + [os.path.join(C02DIR, f) for f in ('dw_model.h', 'dw_model2.h', 'pf_model.h')]


def prepare(tier):
    ci = vlib.extract('ci', 'libzwerg/dwit.cc', CI_CFG, CI_ROOTS, OUT)
    pf = vlib.extract('pf', 'libzwerg/cache.cc', C02.PF_CFG, C02.PF_ROOTS, OUT)
    rc = vlib.extract('rc', 'libzwerg/cache.cc', RC_CFG, RC_ROOTS, OUT)
    cui = vlib.extract('cui', 'libzwerg/dwit.cc', CUI_CFG, CUI_ROOTS, OUT)
    pf.report['functions'] += rc.report['functions'] + cui.report['functions']
    out = C02.OUT
    C02.OUT = OUT
    try:
        C02.write_forests(FN)
        os.makedirs(os.path.join(OUT, 'f3'), exist_ok=True)
        C02.OUT = os.path.join(OUT, 'f3')
        C02.write_forests(3)
    finally:
        C02.OUT = out
    return {'unit': 'libzwerg/dwit.cc (child_iterator), libzwerg/cache.cc (parent_cache::find)', 'functions': ci.report['functions'] + pf.report['functions']}


def replay(r):
    return C02.replay(r)
