/* Model of root_cache::cache_t = std::map<Dwarf *, std::vector<Dwarf_Off>> and std::lower_bound on the offset vector (TRUSTED). */
#ifndef C05_RC_MODEL_H
#define C05_RC_MODEL_H
#define RCK 2
typedef struct rcentry { void *first; vec_off second; _Bool used; } rcentry;
typedef struct rcmap { rcentry e[RCK + 1]; } rcmap;
typedef struct rcins { rcentry *first; _Bool second; } rcins;
#define PTR_ID(p) (p)
#define VERIF_MOVE(p) (p)
#define IT_EQ(a, b) ((_Bool)((a) == (b)))
#define IT_NE(a, b) ((_Bool)((a) != (b)))
static inline rcentry make_rcentry(void *const *dw, const vec_off *v) { rcentry e; e.first = *dw; e.second = *v; e.used = 1; return e; }
static inline rcentry *rcmap_end(rcmap *m) { return &m->e[RCK]; }
static inline rcentry *rcmap_find(rcmap *m, void *const *k)
{ for (unsigned i = 0; i < RCK; ++i) if (m->e[i].used && m->e[i].first == *k) return &m->e[i]; return &m->e[RCK]; }
static inline rcins rcmap_insert(rcmap *m, const rcentry *v)
{
  rcins r; r.first = rcmap_find(m, &v->first); r.second = 0;
  if (r.first != &m->e[RCK]) return r;
  for (unsigned i = 0; i < RCK; ++i) if (!m->e[i].used) { m->e[i] = *v; m->e[i].used = 1; r.first = &m->e[i]; r.second = 1; return r; }
  M_ASSERT(0, "cache model large enough");
  return r;
}
#define VOFF_BEGIN(v) (&(v)->d[0])
#define VOFF_END(v) (&(v)->d[(v)->n <= VMAXO ? (v)->n : VMAXO])
static inline unsigned long *vec_off_lower_bound(unsigned long *b, unsigned long *e, const unsigned long *key)
{ for (unsigned i = 0; i < VMAXO; ++i) if (b + i < e && !(b[i] < *key)) return b + i; return e; }
#endif
