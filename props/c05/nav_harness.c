/* C05 (slice, BOUNDED): "every DIE yielded by `child` of D has D as `parent`" in raw mode -- child_iterator (dwit.cc) and
   parent_cache::find (cache.cc) over the libdw forest model.  For every forest shape of <= NN DIEs, arbitrary ascending
   offsets and every DIE D: iterating child_iterator(D) yields exactly the DIEs whose parent is D, each once, in section
   order, and parent_cache::find of each of them is D's offset. */
#include "pf_types.h"
#include "pf_protos.h"
#include "dw_model2.h"
int ci_children(const void *die, void *out_dies, int max);      /* ci_wrap.c: the real child_iterator */
#include "pf_forests.h"
int verif_raised;
int g_par[NN]; unsigned long g_off[NN]; unsigned g_n; _Bool g_claims_children[NN];
_Bool g_has_sibling_attr[NN]; int g_origin[NN];     /* attribute layer of the libdw model: arbitrary (used only by code that looks at DW_AT_sibling) */
int nondet_int(void);
unsigned long nondet_ulong(void);

void hb_child_parent(void)
{
  for (int i = 0; i < NN; ++i)
    {
      g_off[i] = nondet_ulong(); g_claims_children[i] = nondet_ulong() & 1;
#ifdef ATTR_SYMBOLIC
      g_has_sibling_attr[i] = nondet_ulong() & 1; g_origin[i] = nondet_int(); __CPROVER_assume(g_origin[i] >= -1 && g_origin[i] < NN);
#else
      g_has_sibling_attr[i] = 0; g_origin[i] = -1;      /* no DW_AT_sibling / DW_AT_abstract_origin anywhere (the ATTR_SYMBOLIC job varies them) */
#endif
      __CPROVER_assume(g_off[i] < 1000000);
      if (i == 0) __CPROVER_assume(g_off[0] == HS); else __CPROVER_assume(g_off[i] > g_off[i - 1] + HS);
    }
  for (unsigned t = 0; t < N_FORESTS; ++t)
    {
      g_n = FOREST_N[t];
      for (int i = 0; i < NN; ++i) g_par[i] = FOREST_PAR[t][i];
      for (unsigned d = 0; d < NN; ++d)
        if (d < g_n)
          {
            parent_cache pc;
            for (unsigned k = 0; k <= PCK; ++k) pc.m_cache.e[k].used = 0;
            Dwarf_Die D; set_die(&D, (int)d);
            verif_raised = 0;
            Dwarf_Die kids[NN];
            int nk = ci_children(&D, kids, NN);
            int expect = -1, seen = 0;             /* next expected child: smallest index > expect with parent d */
            for (unsigned step = 0; step < NN; ++step)
              {
                int nxt = -1;
                for (int j = NN - 1; j > expect; --j) if (j < (int)g_n && g_par[j] == (int)d) nxt = j;
                if (nxt < 0) break;
                __CPROVER_assert(seen < nk, "child yields every DIE whose parent is D");
                if (seen < nk)
                  {
                    __CPROVER_assert(kids[seen].addr == (void *)(unsigned long)(nxt + 1), "children come in section order, each exactly once");
                    Dwarf_Die c; set_die(&c, nxt);        /* the same DIE (asserted just above), spelled concretely so that the
                                                             recursion in populate_unit stays concrete for the symbolic execution */
                    __CPROVER_assert(parent_cache_find(&pc, c) == g_off[d], "a DIE yielded by child of D has D as parent");
                  }
                expect = nxt; seen++;
              }
            __CPROVER_assert(nk == seen, "child yields nothing but the DIEs whose parent is D");
            __CPROVER_assert(verif_raised == 0, "no error, no failed assert()");
          }
    }
}
#ifdef VERIF_CONTROL
void hb_child_parent_control(void)
{
  g_n = 3; g_par[0] = -1; g_par[1] = 0; g_par[2] = 0; g_off[0] = HS; g_off[1] = 40; g_off[2] = 80;
  Dwarf_Die D; set_die(&D, 0); verif_raised = 0;
  Dwarf_Die kids[NN];
  __CPROVER_assert(ci_children(&D, kids, NN) <= 1, "CONTROL (must fail): a DIE has at most one child");
}
#endif
