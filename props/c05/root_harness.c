/* C05 (slice, BOUNDED): `?root` -- root_cache::is_root (cache.cc) with the real cu_iterator (dwit.cc) over the libdw forest
   model; the cache (std::map keyed by Dwarf) and std::lower_bound are modelled.  For every forest shape of <= NN DIEs
   (any number of units), fixed ascending offsets and every ordered pair of DIEs asked on one cache: is_root holds
   exactly for unit DIEs. */
#include "rc_types.h"
#include "rc_protos.h"
#define C05_ROOT 1
#include "dw_model2.h"
#include "pf_forests.h"
int verif_raised;
int g_par[NN]; unsigned long g_off[NN]; unsigned g_n; _Bool g_claims_children[NN];
unsigned long nondet_ulong(void);

void hb_is_root(void)
{
  for (int i = 0; i < NN; ++i)
    {
      /* offsets are fixed here (unit iteration compares offsets at every step; symbolic ones made the symbolic execution
         of the 8 x 9 x 2 lookups run away): 11, 36, 61, ... */
      g_off[i] = HS + 25ul * (unsigned long)i; g_claims_children[i] = nondet_ulong() & 1;
    }
  for (unsigned t = 0; t < N_FORESTS; ++t)
    {
      g_n = FOREST_N[t];
      for (int i = 0; i < NN; ++i) g_par[i] = FOREST_PAR[t][i];
      for (unsigned a = 0; a < NN; ++a) for (unsigned b = 0; b < NN; ++b)
        if (a < g_n && b < g_n)
          {
            root_cache rc;
            for (unsigned k = 0; k <= RCK; ++k) rc.m_cache.e[k].used = 0;
            Dwarf_Die da, db; set_die(&da, (int)a); set_die(&db, (int)b);
            verif_raised = 0;
            _Bool ra = root_cache_is_root(&rc, da);
            _Bool rb = root_cache_is_root(&rc, db);
            __CPROVER_assert(verif_raised == 0, "no error, no failed assert()");
            __CPROVER_assert(ra == (g_par[a] < 0), "?root holds exactly for unit DIEs (first lookup fills the cache)");
            __CPROVER_assert(rb == (g_par[b] < 0), "?root holds exactly for unit DIEs (second lookup uses the cache)");
          }
    }
}
