/* Second translation unit of the C05 harness: the lowered child_iterator (from dwit.cc) and the lowered parent_cache (from
   cache.cc) come with their own generated type headers, which both define Dwarf_Die; this file sees the former only and
   hands the children of a DIE to the harness as a plain array.  It uses the iterator exactly as `for (auto it =
   child_iterator {d}; it != child_iterator::end (); ++it)` does. */
#include "ci_types.h"
#include "ci_protos.h"
#define C05_CHILD 1
#define DW_MODEL_ATTRS 1
#include "dw_model2.h"
int ci_children(const void *die, void *out_dies, int max)
{
  const Dwarf_Die *D = (const Dwarf_Die *)die; Dwarf_Die *out = (Dwarf_Die *)out_dies;
  int n = 0;
  child_iterator it = child_iterator_ctor(*D), e = child_iterator_end();
  for (int step = 0; step < NN + 1; ++step)
    {
      if (!child_iterator_ne(&it, &e)) return n;
      if (n >= max) return -1;
      out[n++] = *child_iterator_deref(&it);
      child_iterator_preinc(&it);
    }
  return -1;
}
