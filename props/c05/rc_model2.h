#ifndef C05_RC_MODEL2_H
#define C05_RC_MODEL2_H
/* cu_iterator's member functions: lowered from dwit.cc in the other unit (same names), linked in */
cu_iterator cu_iterator_ctor_dw(void *dw);
cu_iterator cu_iterator_end(void);
_Bool cu_iterator_ne(const cu_iterator *self, const cu_iterator *other);
cu_iterator cu_iterator_preinc(cu_iterator *self);
Dwarf_Die *cu_iterator_deref(cu_iterator *self);
static inline cu_iterator cu_iterator_copy(const cu_iterator *p) { return *p; }
#endif
