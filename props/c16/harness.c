/* C16 harnesses.  Arguments are unconstrained; the contract's requires clause (assumed by the
   enforcement wrapper) supplies fresh objects and the representation invariant. */
#include "spec.h"

int verif_raised;
uint64_t g_x;
_Bool g_was_member, g_was_overlap, g_was_covered;

uint64_t nondet_u64(void);
_Bool nondet_bool(void);
coverage *nondet_cov(void);

#define ARGS                                                                    \
  coverage *c = nondet_cov();                                                   \
  uint64_t start = nondet_u64(), length = nondet_u64();                         \
  g_x = nondet_u64();                                                           \
  g_was_member = nondet_bool(); g_was_overlap = nondet_bool(); g_was_covered = nondet_bool();

void h_find_const(void) { ARGS coverage_find_const(c, start); }
void h_find(void) { ARGS coverage_find(c, start); }
void h_add(void) { ARGS coverage_add(c, start, length); }
vec_cov_range *nondet_vec(void); cov_range *nondet_rng(void);
void h_vec_push_back(void) { vec_push_back(nondet_vec(), nondet_rng()); }
void h_vec_insert(void) { vec_insert(nondet_vec(), nondet_rng(), nondet_rng()); }
void h_vec_erase(void) { vec_erase(nondet_vec(), nondet_rng(), nondet_rng()); }
void h_is_covered(void) { ARGS coverage_is_covered(c, start, length); }
void h_is_overlap(void) { ARGS coverage_is_overlap(c, start, length); }

#ifdef VERIF_CONTROL
void h_control(void)
{
  ARGS
  __CPROVER_assume(__CPROVER_r_ok(c, sizeof(coverage)));
  _Bool r = coverage_is_covered(c, start, length);
  __CPROVER_assert(r, "CONTROL (must fail): every range is covered");
}
#endif
