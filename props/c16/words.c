/* C16 bounded harnesses for the Zwerg words over address sets (libzwerg/builtin-aset.cc):
   ?contains, ?overlaps, overlap, add, sub on two sets; the coverage operations they call are the
   bodies lowered from coverage.cc (linked in, not contracts).  BOUNDED in the number of ranges. */
#include "aset_types.h"
#include "aset_protos.h"
#include "specfn.h"

int verif_raised;
value_type g_vtype_aset, g_vtype_cst;
uint64_t nondet_u64(void);
size_t nondet_size(void);

#define CAP (2 * C16_NMAX + 2)
#define MKSET(v, arr, maxlen)                                                    \
  cov_range arr[CAP]; value_aset v;                                              \
  V(&v.cov).data = arr; V(&v.cov).cap = CAP; V(&v.cov).len = nondet_size();      \
  __CPROVER_assume(V(&v.cov).len <= (maxlen));                                   \
  __CPROVER_assume(cov_wf(&v.cov));

void hw_contains(void)
{
  MKSET(a, arr, C16_NMAX) MKSET(b, arr2, C16_NMAX)
  uint64_t x = nondet_u64();
  _Bool all = 1;
  for (size_t i = 0; i < V(&b.cov).len; ++i)
    if (!cov_covers(&a.cov, arr2[i].start, arr2[i].length))
      all = 0;
  pred_result r = w_contains_aset_aset(0, &a, &b);
  __CPROVER_assert(r == (all ? pred_result__yes : pred_result__no), "?contains: holds iff every run of B lies within A");
  __CPROVER_assert(!(r == pred_result__yes && cov_member(&b.cov, x)) || cov_member(&a.cov, x), "?contains: then every address of B is in A");
}

void hw_overlaps(void)
{
  MKSET(a, arr, C16_NMAX) MKSET(b, arr2, C16_NMAX)
  uint64_t x = nondet_u64();
  _Bool any = 0;
  for (size_t i = 0; i < V(&b.cov).len; ++i)
    if (cov_overlaps(&a.cov, arr2[i].start, arr2[i].length))
      any = 1;
  pred_result r = w_overlaps_aset_aset(0, &a, &b);
  __CPROVER_assert(r == (any ? pred_result__yes : pred_result__no), "?overlaps: holds iff some run of B intersects A");
  __CPROVER_assert(!(r == pred_result__no && cov_member(&b.cov, x)) || !cov_member(&a.cov, x), "?overlaps: otherwise no address is in both");
}

void hw_overlap(void)
{
  MKSET(a, arr, C16_NMAX) MKSET(b, arr2, C16_NMAX)
  uint64_t x = nondet_u64();
  _Bool ina = cov_member(&a.cov, x), inb = cov_member(&b.cov, x);
  value_aset r = w_overlap(0, &a, &b);
  __CPROVER_assert(cov_wf(&r.cov), "overlap: result satisfies the representation invariant");
  __CPROVER_assert(cov_member(&r.cov, x) == (ina && inb), "overlap: intersection, at every address");
}

void hw_add(void)
{
  MKSET(a, arr, C16_NMAX) MKSET(b, arr2, C16_NMAX)
  uint64_t x = nondet_u64();
  _Bool ina = cov_member(&a.cov, x), inb = cov_member(&b.cov, x);
  value_aset r = w_add_aset_aset(0, &a, &b);
  __CPROVER_assert(cov_wf(&r.cov), "add: result satisfies the representation invariant");
  __CPROVER_assert(cov_member(&r.cov, x) == (ina || inb), "add: union, at every address");
  __CPROVER_assert(cov_member(&a.cov, x) == ina, "add: operand unchanged");
}

void hw_sub(void)
{
  MKSET(a, arr, C16_NMAX) MKSET(b, arr2, C16_NMAX)
  uint64_t x = nondet_u64();
  _Bool ina = cov_member(&a.cov, x), inb = cov_member(&b.cov, x);
  value_aset r = w_sub_aset_aset(0, &a, &b);
  __CPROVER_assert(cov_wf(&r.cov), "sub: result satisfies the representation invariant");
  __CPROVER_assert(cov_member(&r.cov, x) == (ina && !inb), "sub: difference, at every address");
}

void hw_length(void)
{
  MKSET(a, arr, C16_NMAX)
  uint64_t sum = 0;
  for (size_t i = 0; i < V(&a.cov).len; ++i)
    sum += arr[i].length;
  value_cst r = w_length(0, &a);
  __CPROVER_assert(r.m_cst.m_value.m_u == sum && r.m_cst.m_value.m_sign == signedness__unsign, "length: number of addresses in the set");
}
