/* C16 bounded harnesses for the Zwerg words over address sets (libzwerg/builtin-aset.cc):
   ?contains, ?overlaps, overlap, add, sub on two sets; the coverage operations they call are the
   bodies lowered from coverage.cc (linked in, not contracts).  BOUNDED in the number of ranges. */
#include "aset_types.h"
#include "aset_protos.h"
#include "specfn.h"

int verif_raised;
value_type g_vtype_aset, g_vtype_cst;
uint64_t nondet_u64(void);
size_t nondet_size(void);

#define CAP (2 * C16_NMAX + 2)
#define MKSET(v, arr, maxlen)                                                    \
  cov_range arr[CAP]; value_aset v;                                              \
  V(&v.cov).data = arr; V(&v.cov).cap = CAP; V(&v.cov).len = nondet_size();      \
  __CPROVER_assume(V(&v.cov).len <= (maxlen));                                   \
  __CPROVER_assume(cov_wf(&v.cov));

void hw_contains(void)
{
  MKSET(a, arr, C16_NMAX) MKSET(b, arr2, C16_NMAX)
  uint64_t x = nondet_u64();
  _Bool all = 1;
  for (size_t i = 0; i < V(&b.cov).len; ++i)
    if (!cov_covers(&a.cov, arr2[i].start, arr2[i].length))
      all = 0;
  pred_result r = w_contains_aset_aset(0, &a, &b);
  __CPROVER_assert(r == (all ? pred_result__yes : pred_result__no), "?contains: holds iff every run of B lies within A");
  __CPROVER_assert(!(r == pred_result__yes && cov_member(&b.cov, x)) || cov_member(&a.cov, x), "?contains: then every address of B is in A");
}

void hw_overlaps(void)
{
  MKSET(a, arr, C16_NMAX) MKSET(b, arr2, C16_NMAX)
  uint64_t x = nondet_u64();
  _Bool any = 0;
  for (size_t i = 0; i < V(&b.cov).len; ++i)
    if (cov_overlaps(&a.cov, arr2[i].start, arr2[i].length))
      any = 1;
  pred_result r = w_overlaps_aset_aset(0, &a, &b);
  __CPROVER_assert(r == (any ? pred_result__yes : pred_result__no), "?overlaps: holds iff some run of B intersects A");
  __CPROVER_assert(!(r == pred_result__no && cov_member(&b.cov, x)) || !cov_member(&a.cov, x), "?overlaps: otherwise no address is in both");
}

void hw_overlap(void)
{
  MKSET(a, arr, C16_NMAX) MKSET(b, arr2, C16_NMAX)
  uint64_t x = nondet_u64();
  _Bool ina = cov_member(&a.cov, x), inb = cov_member(&b.cov, x);
  value_aset r = w_overlap(0, &a, &b);
  __CPROVER_assert(cov_wf(&r.cov), "overlap: result satisfies the representation invariant");
  __CPROVER_assert(cov_member(&r.cov, x) == (ina && inb), "overlap: intersection, at every address");
}

void hw_add(void)
{
  MKSET(a, arr, C16_NMAX) MKSET(b, arr2, C16_NMAX)
  uint64_t x = nondet_u64();
  _Bool ina = cov_member(&a.cov, x), inb = cov_member(&b.cov, x);
  value_aset r = w_add_aset_aset(0, &a, &b);
  __CPROVER_assert(cov_wf(&r.cov), "add: result satisfies the representation invariant");
  __CPROVER_assert(cov_member(&r.cov, x) == (ina || inb), "add: union, at every address");
  __CPROVER_assert(cov_member(&a.cov, x) == ina, "add: operand unchanged");
}

void hw_sub(void)
{
  MKSET(a, arr, C16_NMAX) MKSET(b, arr2, C16_NMAX)
  uint64_t x = nondet_u64();
  _Bool ina = cov_member(&a.cov, x), inb = cov_member(&b.cov, x);
  value_aset r = w_sub_aset_aset(0, &a, &b);
  __CPROVER_assert(cov_wf(&r.cov), "sub: result satisfies the representation invariant");
  __CPROVER_assert(cov_member(&r.cov, x) == (ina && !inb), "sub: difference, at every address");
}

void hw_length(void)
{
  MKSET(a, arr, C16_NMAX)
  uint64_t sum = 0;
  for (size_t i = 0; i < V(&a.cov).len; ++i)
    sum += arr[i].length;
  value_cst r = w_length(0, &a);
  __CPROVER_assert(r.m_cst.m_value.m_u == sum && r.m_cst.m_value.m_sign == signedness__unsign, "length: number of addresses in the set");
}

/* ---- words with a constant operand: aset, add, sub, ?contains (addressify clamps negatives to 0) ---- */
_Bool nondet_bool(void);
static value_cst mkcst(uint64_t u, _Bool s)
{
  value_cst c;
  c.m_cst.m_value.m_u = u;
  c.m_cst.m_value.m_sign = s ? signedness__sign : signedness__unsign;
  c.m_cst.m_dom = (const zw_cdom *)0;
  return c;
}
#define ADDR(u, s) (((s) && (int64_t)(u) < 0) ? (uint64_t)0 : (uint64_t)(u))   /* what an operand denotes as an address */

void hw_aset_cst_cst(void)
{
  uint64_t au = nondet_u64(), bu = nondet_u64(), x = nondet_u64(); _Bool as = nondet_bool(), bs = nondet_bool();
  value_cst a = mkcst(au, as), b = mkcst(bu, bs);
  uint64_t lo = ADDR(au, as) < ADDR(bu, bs) ? ADDR(au, as) : ADDR(bu, bs);
  uint64_t hi = ADDR(au, as) < ADDR(bu, bs) ? ADDR(bu, bs) : ADDR(au, as);
  verif_raised = 0;
  value_aset r = w_aset_cst_cst(0, &a, &b);
  __CPROVER_assert(verif_raised == 0, "aset: no error for two integer operands");
  __CPROVER_assert(cov_wf(&r.cov), "aset: result satisfies the representation invariant");
  __CPROVER_assert(cov_member(&r.cov, x) == (x >= lo && x < hi), "aset: the half-open interval between the operands, in either order");
}

void hw_add_cst(void)
{
  MKSET(a, arr, C16_NMAX)
  uint64_t bu = nondet_u64(), x = nondet_u64(); _Bool bs = nondet_bool();
  value_cst b = mkcst(bu, bs);
  uint64_t v = ADDR(bu, bs);
  __CPROVER_assume(v != UINT64_MAX);                 /* addresses below 2^64-1 */
  _Bool ina = cov_member(&a.cov, x);
  value_aset r = w_add_aset_cst(0, &a, &b);
  __CPROVER_assert(cov_wf(&r.cov), "add (address): representation invariant");
  __CPROVER_assert(cov_member(&r.cov, x) == (ina || x == v), "add (address): union with the single address");
}

void hw_sub_cst(void)
{
  MKSET(a, arr, C16_NMAX)
  uint64_t bu = nondet_u64(), x = nondet_u64(); _Bool bs = nondet_bool();
  value_cst b = mkcst(bu, bs);
  uint64_t v = ADDR(bu, bs);
  __CPROVER_assume(v != UINT64_MAX);
  _Bool ina = cov_member(&a.cov, x);
  value_aset r = w_sub_aset_cst(0, &a, &b);
  __CPROVER_assert(cov_wf(&r.cov), "sub (address): representation invariant");
  __CPROVER_assert(cov_member(&r.cov, x) == (ina && x != v), "sub (address): difference with the single address");
}

void hw_contains_cst(void)
{
  MKSET(a, arr, C16_NMAX)
  uint64_t bu = nondet_u64(); _Bool bs = nondet_bool();
  value_cst b = mkcst(bu, bs);
  uint64_t v = ADDR(bu, bs);
  __CPROVER_assume(v != UINT64_MAX);
  pred_result r = w_contains_aset_cst(0, &a, &b);
  __CPROVER_assert(r == (cov_member(&a.cov, v) ? pred_result__yes : pred_result__no), "?contains (address): membership");
}

