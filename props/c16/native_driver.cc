// Native driver for C16: links the REAL libzwerg/coverage.cc (compiled from /repo's working tree)
// and the C text extracted from it (with the std::vector model).
//   replay OP  n s0 l0 .. | m t0 k0 .. | start length     -> behaviour of the real code
//   fidelity SEED N   -> real code vs extracted C on N random operation sequences
#include <cstdint>
#include <cstdio>
#include <cstdlib>
#include <cstring>
#include <string>
#include <vector>
#include "coverage.hh"

extern "C" {
struct c_range { unsigned long start, length; };
struct c_vec { c_range *data; size_t len, cap; };
struct c_cov { c_vec base; };
c_vec vec_new (void);
void coverage_add (c_cov *, unsigned long, unsigned long);
bool coverage_remove (c_cov *, unsigned long, unsigned long);
bool coverage_is_covered (const c_cov *, unsigned long, unsigned long);
bool coverage_is_overlap (const c_cov *, unsigned long, unsigned long);
c_cov coverage_intersect (const c_cov *, unsigned long, unsigned long);
void coverage_add_all (c_cov *, const c_cov *);
bool coverage_remove_all (c_cov *, const c_cov *);
extern int verif_raised;
}
int verif_raised;

static bool collect (uint64_t s, uint64_t l, void *d)
{
  auto v = static_cast<std::vector<std::pair<uint64_t, uint64_t>> *> (d);
  v->push_back ({s, l});
  return true;
}
typedef std::vector<std::pair<uint64_t, uint64_t>> ranges;
static ranges dump (coverage const &c) { ranges v; c.find_ranges (collect, &v); return v; }
static ranges dump (c_cov const &c)
{ ranges v; for (size_t i = 0; i < c.base.len; ++i) v.push_back ({c.base.data[i].start, c.base.data[i].length}); return v; }
static void print (ranges const &r)
{ printf ("%zu", r.size ()); for (auto &p : r) printf (" %lu %lu", p.first, p.second); }

static uint64_t rs;
static uint64_t rnd () { rs ^= rs << 13; rs ^= rs >> 7; rs ^= rs << 17; return rs; }

int main (int argc, char **argv)
{
  if (argc < 2) return 2;
  std::string mode = argv[1];
  if (mode == "replay")
    {
      std::string op = argv[2];
      int k = 3;
      coverage a, b;
      int n = atoi (argv[k++]);
      for (int i = 0; i < n; ++i) { uint64_t s = strtoull (argv[k++], 0, 10), l = strtoull (argv[k++], 0, 10); a.add (s, l); }
      int m = atoi (argv[k++]);
      for (int i = 0; i < m; ++i) { uint64_t s = strtoull (argv[k++], 0, 10), l = strtoull (argv[k++], 0, 10); b.add (s, l); }
      uint64_t start = strtoull (argv[k++], 0, 10), length = strtoull (argv[k++], 0, 10);
      printf ("built "); print (dump (a)); printf ("\n");
      if (op == "add") { a.add (start, length); printf ("ret -\nset "); print (dump (a)); }
      else if (op == "remove") { bool r = a.remove (start, length); printf ("ret %d\nset ", (int) r); print (dump (a)); }
      else if (op == "is_covered") { printf ("ret %d\nset ", (int) a.is_covered (start, length)); print (dump (a)); }
      else if (op == "is_overlap") { printf ("ret %d\nset ", (int) a.is_overlap (start, length)); print (dump (a)); }
      else if (op == "intersect") { coverage r = a.intersect (start, length); printf ("ret -\nset "); print (dump (r)); }
      else if (op == "add_all") { a.add_all (b); printf ("ret -\nset "); print (dump (a)); }
      else if (op == "remove_all") { bool r = a.remove_all (b); printf ("ret %d\nset ", (int) r); print (dump (a)); }
      else return 2;
      printf ("\n");
      return 0;
    }
  rs = strtoull (argv[2], 0, 10) * 0x9E3779B97F4A7C15ull + 1234567;
  long N = atol (argv[3]);
  long evals = 0, bad = 0;
  static const uint64_t bases[] = {0, 0xfffffff0ull, 0x7ffffffffffffff0ull, 0xffffffffffffffc0ull};
  for (long it = 0; it < N; ++it)
    {
      uint64_t base = bases[rnd () % 4];
      coverage ra, rb;
      c_cov ea, eb;
      ea.base = vec_new (); eb.base = vec_new ();
      int steps = 1 + rnd () % 8;
      for (int st = 0; st < steps; ++st)
	{
	  int op = rnd () % 7;
	  uint64_t s = base + rnd () % 24, l = rnd () % 10;
	  if (s + l < s || s + l == 0) continue;
	  if (ea.base.len + eb.base.len + 2 >= ea.base.cap) break;
	  bool r1 = false, r2 = false;
	  ++evals;
	  switch (op)
	    {
	    case 0: ra.add (s, l); coverage_add (&ea, s, l); break;
	    case 1: r1 = ra.remove (s, l); r2 = coverage_remove (&ea, s, l); break;
	    case 2: rb.add (s, l); coverage_add (&eb, s, l); break;
	    case 3: if (l) { r1 = ra.is_covered (s, l); r2 = coverage_is_covered (&ea, s, l); } break;
	    case 4: if (l) { r1 = ra.is_overlap (s, l); r2 = coverage_is_overlap (&ea, s, l); } break;
	    case 5: { coverage x = ra.intersect (s, l); c_cov y = coverage_intersect (&ea, s, l);
		if (dump (x) != dump (y)) { if (bad++ < 5) printf ("DISAGREE intersect %lu %lu\n", s, l); }
		free (y.base.data); break; }
	    case 6: if (rnd () & 1) { ra.add_all (rb); coverage_add_all (&ea, &eb); }
		    else { r1 = ra.remove_all (rb); r2 = coverage_remove_all (&ea, &eb); } break;
	    }
	  if (r1 != r2 || dump (ra) != dump (ea) || dump (rb) != dump (eb))
	    { if (bad++ < 5) printf ("DISAGREE op=%d s=%lu l=%lu\n", op, s, l); break; }
	}
      free (ea.base.data); free (eb.base.data);
    }
  printf ("DONE evals=%ld bad=%ld\n", evals, bad);
  return 0;
}
