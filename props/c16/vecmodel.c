/* Bodies of the three mutating std::vector operations of the model (TRUSTED). */
#include "cov_types.h"
#include "vecmodel.h"

#include <stdlib.h>
vec_cov_range vec_new(void)
{
  vec_cov_range v;
  v.data = malloc(VEC_NEW_CAP * sizeof(cov_range));
  v.len = 0;
  v.cap = VEC_NEW_CAP;
#ifdef VERIF_CBMC
  __CPROVER_assume(v.data != 0);
#endif
  return v;
}

vec_cov_range vec_copy(const vec_cov_range *src)
{
  vec_cov_range v = vec_new();
  VEC_ASSERT(src->len <= v.cap, "copy within modelled capacity");
  for (size_t i = 0; i < src->len; ++i)
    v.data[i] = src->data[i];
  v.len = src->len;
  return v;
}

void vec_push_back(vec_cov_range *v, const cov_range *x)
{
  VEC_ASSERT(v->len < v->cap, "push_back within modelled capacity");
  cov_range tmp = *x;
  v->data[v->len] = tmp;
  v->len++;
}

cov_range *vec_insert(vec_cov_range *v, const cov_range *pos, const cov_range *x)
{
  VEC_ASSERT(v->len < v->cap, "insert within modelled capacity");
  size_t idx = (size_t)(pos - v->data);
  VEC_ASSERT(idx <= v->len, "insert position within [begin, end]");
  cov_range tmp = *x;               /* x may alias an element */
  for (size_t i = v->len; i > idx; --i)
#ifdef VEC_LOOP_CONTRACTS
    __CPROVER_assigns(i, __CPROVER_object_whole(v->data))
    __CPROVER_loop_invariant(idx <= i && i <= v->len)
    __CPROVER_decreases(i)
#endif
    v->data[i] = v->data[i - 1];
  v->data[idx] = tmp;
  v->len++;
  return v->data + idx;
}

cov_range *vec_erase(vec_cov_range *v, const cov_range *first, const cov_range *last)
{
  size_t a = (size_t)(first - v->data), b = (size_t)(last - v->data);
  VEC_ASSERT(a <= b && b <= v->len, "erase range within [begin, end]");
  size_t n = b - a;
  for (size_t i = b; i < v->len; ++i)
#ifdef VEC_LOOP_CONTRACTS
    __CPROVER_assigns(i, __CPROVER_object_whole(v->data))
    __CPROVER_loop_invariant(b <= i && i <= v->len)
    __CPROVER_decreases(v->len - i)
#endif
    v->data[i - n] = v->data[i];
  v->len -= n;
  return v->data + a;
}
