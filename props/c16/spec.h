/* C16 -- contracts for the address-set class of libzwerg/coverage.cc.
 *
 * Abstract view: an address set is the set of 64-bit addresses x with MEMBER(c, x).
 * Representation invariant WF(c): ranges have non-zero length, do not wrap, and are strictly
 * ascending with a gap between neighbours (sorted, disjoint, non-adjacent) -- the canonical form
 * that structural comparison (value_aset::cmp) relies on.
 *
 * Functional contracts are *pointwise*: g_x is one symbolic probe address, fixed for the whole
 * run and unconstrained, so a clause about g_x is a clause about every address.  Ghost variables
 * g_was_member / g_was_overlap hold the pre-state views (set by the harness, tied to the pre-state
 * by a requires clause), because __CPROVER_old cannot wrap a call.
 *
 * Two strengths, both on the same extracted text:
 *   SAFE_*  : memory safety, index ranges, arithmetic, termination; loop contracts, unbounded in
 *             the number of ranges (n <= VEC_MAX only to keep pointer arithmetic in one object).
 *   bounded : WF preservation + pointwise set semantics (bounded.c, words.c); spec functions contain
 *             loops over the vector, so these are BOUNDED in the number of ranges (--unwind).  They
 *             are assumed/asserted around a direct call, not enforced as contracts: --dfcc with
 *             looping spec functions ran out of 16 GB.
 */
#ifndef C16_SPEC_H
#define C16_SPEC_H
#include "cov_types.h"
#include "cov_protos.h"

#ifndef C16_NMAX
#define C16_NMAX 4
#endif
#ifdef C16_FIXED_CAP
/* jobs that replace several callee contracts: a constant capacity (symbolic allocation sizes made the
   SAT encoding exceed 45 GB); the number of live ranges stays symbolic and loops are still closed by
   their invariants, not unrolled */
#define VEC_MAX C16_FIXED_CAP
#define CAP_OK(v) ((v)->cap == VEC_MAX)
#define DATA_BYTES(v) (VEC_MAX * sizeof(cov_range))
#else
#define VEC_MAX 4096
#define CAP_OK(v) ((v)->cap <= VEC_MAX)
#define DATA_BYTES(v) ((v)->cap * sizeof(cov_range))
#endif

#define RET __CPROVER_return_value

extern uint64_t g_x;
extern _Bool g_was_member, g_was_overlap, g_was_covered;

/* shape of the representation: pointers valid, len within capacity */
#define SHAPE(c, room) (__CPROVER_is_fresh((c), sizeof(coverage)) && CAP_OK(&V(c)) && \
   V(c).cap >= (room) && V(c).len <= V(c).cap - (room) && __CPROVER_is_fresh(V(c).data, DATA_BYTES(&V(c))))

#include "specfn.h"

#ifdef C16_SAFE
/* ---- safety contracts (unbounded in the number of ranges; loop contracts) ------------------ */
const cov_range *coverage_find_const(const coverage *self, uint64_t start)
__CPROVER_requires(SHAPE(self, 0) && V(self).len > 0)
__CPROVER_ensures(__CPROVER_same_object(RET, V(self).data))
__CPROVER_ensures(__CPROVER_POINTER_OFFSET(RET) <= V(self).len * sizeof(cov_range))
__CPROVER_ensures(__CPROVER_POINTER_OFFSET(RET) % sizeof(cov_range) == 0)
__CPROVER_assigns();

cov_range *coverage_find(coverage *self, uint64_t start)
__CPROVER_requires(SHAPE(self, 0) && V(self).len > 0)
__CPROVER_ensures(__CPROVER_same_object(RET, V(self).data))
__CPROVER_ensures(__CPROVER_POINTER_OFFSET(RET) <= V(self).len * sizeof(cov_range))
__CPROVER_ensures(__CPROVER_POINTER_OFFSET(RET) % sizeof(cov_range) == 0)
__CPROVER_assigns();

/* pointer p designates an element boundary of c's array, at most `upto` elements in */
#define OFF(p) __CPROVER_POINTER_OFFSET(p)
#define ESZ sizeof(cov_range)
#define INARR(c, p, upto) (__CPROVER_same_object((p), V(c).data) && OFF(p) <= (upto) * ESZ && OFF(p) % ESZ == 0)
#define VSHAPE(v, room) (__CPROVER_is_fresh((v), sizeof(vec_cov_range)) && CAP_OK(v) && (v)->cap >= (room) && \
   (v)->len <= (v)->cap - (room) && __CPROVER_is_fresh((v)->data, DATA_BYTES(v)))
#define INV(v, p, upto) (__CPROVER_same_object((p), (v)->data) && OFF(p) <= (upto) * ESZ && OFF(p) % ESZ == 0)

/* the three mutating operations of the vector model, under contract themselves so that add/remove can
   be verified against them (and they against their own loops) */
void vec_push_back(vec_cov_range *v, const cov_range *x)
__CPROVER_requires(VSHAPE(v, 1) && __CPROVER_is_fresh(x, sizeof(cov_range)))
__CPROVER_ensures(v->len == __CPROVER_old(v->len) + 1)
__CPROVER_assigns(v->len, __CPROVER_object_whole(v->data));

cov_range *vec_insert(vec_cov_range *v, const cov_range *pos, const cov_range *x)
__CPROVER_requires(VSHAPE(v, 1) && INV(v, pos, v->len))
__CPROVER_requires(__CPROVER_is_fresh(x, sizeof(cov_range)))
__CPROVER_ensures(v->len == __CPROVER_old(v->len) + 1 && INV(v, RET, v->len - 1))
__CPROVER_assigns(v->len, __CPROVER_object_whole(v->data));

cov_range *vec_erase(vec_cov_range *v, const cov_range *first, const cov_range *last)
__CPROVER_requires(VSHAPE(v, 0) && INV(v, first, v->len) && INV(v, last, v->len) && OFF(first) <= OFF(last))
__CPROVER_ensures(v->len == __CPROVER_old(v->len) - (OFF(last) - OFF(first)) / ESZ && RET == first)
__CPROVER_assigns(v->len, __CPROVER_object_whole(v->data));

void coverage_add(coverage *self, uint64_t start, uint64_t length)
__CPROVER_requires(SHAPE(self, 1))
__CPROVER_ensures(V(self).len <= __CPROVER_old(V(self).len) + 1)
__CPROVER_ensures(length == 0 || V(self).len >= 1)
__CPROVER_assigns(V(self).len, __CPROVER_object_whole(V(self).data));

_Bool coverage_is_covered(const coverage *self, uint64_t start, uint64_t length)
__CPROVER_requires(SHAPE(self, 0))
__CPROVER_assigns();

_Bool coverage_is_overlap(const coverage *self, uint64_t start, uint64_t length)
__CPROVER_requires(SHAPE(self, 0))
__CPROVER_assigns();
#endif

#endif
