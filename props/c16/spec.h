/* C16 -- contracts for the address-set class of libzwerg/coverage.cc.
 *
 * Abstract view: an address set is the set of 64-bit addresses x with MEMBER(c, x).
 * Representation invariant WF(c): ranges have non-zero length, do not wrap, and are strictly
 * ascending with a gap between neighbours (sorted, disjoint, non-adjacent) -- the canonical form
 * that structural comparison (value_aset::cmp) relies on.
 *
 * Functional contracts are *pointwise*: g_x is one symbolic probe address, fixed for the whole
 * run and unconstrained, so a clause about g_x is a clause about every address.  Ghost variables
 * g_was_member / g_was_overlap hold the pre-state views (set by the harness, tied to the pre-state
 * by a requires clause), because __CPROVER_old cannot wrap a call.
 *
 * Two strengths, both on the same extracted text:
 *   SAFE_*  : memory safety, index ranges, arithmetic, termination; loop contracts, unbounded in
 *             the number of ranges (n <= VEC_MAX only to keep pointer arithmetic in one object).
 *   bounded : WF preservation + pointwise set semantics (bounded.c, words.c); spec functions contain
 *             loops over the vector, so these are BOUNDED in the number of ranges (--unwind).  They
 *             are assumed/asserted around a direct call, not enforced as contracts: --dfcc with
 *             looping spec functions ran out of 16 GB.
 */
#ifndef C16_SPEC_H
#define C16_SPEC_H
#include "cov_types.h"
#include "cov_protos.h"

#ifndef C16_NMAX
#define C16_NMAX 4
#endif
#define VEC_MAX 4096

#define RET __CPROVER_return_value

extern uint64_t g_x;
extern _Bool g_was_member, g_was_overlap, g_was_covered;

/* shape of the representation: pointers valid, len within capacity */
#define SHAPE(c, room) (__CPROVER_is_fresh((c), sizeof(coverage)) && V(c).cap <= VEC_MAX && \
   V(c).cap >= (room) && V(c).len <= V(c).cap - (room) && __CPROVER_is_fresh(V(c).data, V(c).cap * sizeof(cov_range)))

#include "specfn.h"

#ifdef C16_SAFE
/* ---- safety contracts (unbounded in the number of ranges; loop contracts) ------------------ */
const cov_range *coverage_find_const(const coverage *self, uint64_t start)
__CPROVER_requires(SHAPE(self, 0) && V(self).len > 0)
__CPROVER_ensures(__CPROVER_same_object(RET, V(self).data))
__CPROVER_ensures(__CPROVER_POINTER_OFFSET(RET) <= V(self).len * sizeof(cov_range))
__CPROVER_ensures(__CPROVER_POINTER_OFFSET(RET) % sizeof(cov_range) == 0)
__CPROVER_assigns();

cov_range *coverage_find(coverage *self, uint64_t start)
__CPROVER_requires(SHAPE(self, 0) && V(self).len > 0)
__CPROVER_ensures(__CPROVER_same_object(RET, V(self).data))
__CPROVER_ensures(__CPROVER_POINTER_OFFSET(RET) <= V(self).len * sizeof(cov_range))
__CPROVER_ensures(__CPROVER_POINTER_OFFSET(RET) % sizeof(cov_range) == 0)
__CPROVER_assigns();

_Bool coverage_is_covered(const coverage *self, uint64_t start, uint64_t length)
__CPROVER_requires(SHAPE(self, 0))
__CPROVER_assigns();

_Bool coverage_is_overlap(const coverage *self, uint64_t start, uint64_t length)
__CPROVER_requires(SHAPE(self, 0))
__CPROVER_assigns();
#endif

#endif
