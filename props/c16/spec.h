/* C16 -- contracts for the address-set class of libzwerg/coverage.cc.
 *
 * Abstract view: an address set is the set of 64-bit addresses x with MEMBER(c, x).
 * Representation invariant WF(c): ranges have non-zero length, do not wrap, and are strictly
 * ascending with a gap between neighbours (sorted, disjoint, non-adjacent) -- the canonical form
 * that structural comparison (value_aset::cmp) relies on.
 *
 * Functional contracts are *pointwise*: g_x is one symbolic probe address, fixed for the whole
 * run and unconstrained, so a clause about g_x is a clause about every address.  Ghost variables
 * g_was_member / g_was_overlap hold the pre-state views (set by the harness, tied to the pre-state
 * by a requires clause), because __CPROVER_old cannot wrap a call.
 *
 * Two strengths, both on the same extracted text:
 *   SAFE_*  : memory safety, index ranges, arithmetic, termination; loop contracts, unbounded in
 *             the number of ranges (n <= VEC_MAX only to keep pointer arithmetic in one object).
 *   FUNC_*  : WF preservation + pointwise set semantics; spec functions contain loops over the
 *             vector, so these are BOUNDED in the number of ranges (--unwind, N <= C16_NMAX).
 */
#ifndef C16_SPEC_H
#define C16_SPEC_H
#include "cov_types.h"
#include "cov_protos.h"

#ifndef C16_NMAX
#define C16_NMAX 4
#endif
#ifdef C16_FUNC
#define VEC_MAX (C16_NMAX + 1)
#else
#define VEC_MAX 4096
#endif

#define RET __CPROVER_return_value
#define V(c) ((c)->__base0)
#define NOWRAP(s, l) ((uint64_t)((s) + (l)) >= (s))
#ifndef INR_SUB
#define INR(x, s, l) ((x) >= (s) && (x) < (uint64_t)((s) + (l)))
#else
#define INR(x, s, l) ((uint64_t)((x) - (s)) < (l))
#endif

extern uint64_t g_x;
extern _Bool g_was_member, g_was_overlap, g_was_covered;

/* shape of the representation: pointers valid, len within capacity */
#ifdef C16_FUNC
/* bounded jobs: constant capacity (a symbolic allocation size exhausts memory in the SAT encoding) */
#define SHAPE(c, room) (__CPROVER_is_fresh((c), sizeof(coverage)) && V(c).cap == VEC_MAX && \
   V(c).len + (room) <= V(c).cap && __CPROVER_is_fresh(V(c).data, VEC_MAX * sizeof(cov_range)))
#else
#define SHAPE(c, room) (__CPROVER_is_fresh((c), sizeof(coverage)) && V(c).cap <= VEC_MAX && \
   V(c).len + (room) <= V(c).cap && __CPROVER_is_fresh(V(c).data, V(c).cap * sizeof(cov_range)))
#endif

/* ---- spec functions (loops => bounded use only) ------------------------------------------ */
static inline _Bool cov_wf(const coverage *c)
{
  for (size_t i = 0; i < V(c).len; ++i)
    {
      const cov_range *r = &V(c).data[i];
      if (r->length == 0 || !NOWRAP(r->start, r->length))
        return 0;
      if (i + 1 < V(c).len && !(r->start + r->length < V(c).data[i + 1].start))
        return 0;
    }
  return 1;
}

static inline _Bool cov_member(const coverage *c, uint64_t x)
{
  for (size_t i = 0; i < V(c).len; ++i)
    if (INR(x, V(c).data[i].start, V(c).data[i].length))
      return 1;
  return 0;
}

/* some address of [s, s+l) is a member  (l > 0, no wrap) */
static inline _Bool cov_overlaps(const coverage *c, uint64_t s, uint64_t l)
{
  for (size_t i = 0; i < V(c).len; ++i)
    if (s < V(c).data[i].start + V(c).data[i].length && V(c).data[i].start < s + l)
      return 1;
  return 0;
}

/* every address of [s, s+l) is a member; for a WF set that means one range contains it */
static inline _Bool cov_covers(const coverage *c, uint64_t s, uint64_t l)
{
  for (size_t i = 0; i < V(c).len; ++i)
    if (V(c).data[i].start <= s && s + l <= V(c).data[i].start + V(c).data[i].length)
      return 1;
  return 0;
}

#ifdef C16_FUNC
/* ---- functional contracts (bounded in the number of ranges) ------------------------------ */
const cov_range *coverage_find_const(const coverage *self, uint64_t start)
__CPROVER_requires(SHAPE(self, 0) && V(self).len > 0 && cov_wf(self))
__CPROVER_ensures(__CPROVER_same_object(RET, V(self).data))
__CPROVER_ensures((size_t)(RET - V(self).data) <= V(self).len)
/* partition: everything before the result starts below `start`, the result and after do not */
__CPROVER_ensures(RET == V(self).data || (RET - 1)->start < start)
__CPROVER_ensures(RET == V(self).data + V(self).len || RET->start >= start)
__CPROVER_assigns();

void coverage_add(coverage *self, uint64_t start, uint64_t length)
__CPROVER_requires(SHAPE(self, 1) && cov_wf(self) && NOWRAP(start, length))
__CPROVER_requires(g_was_member == cov_member(self, g_x))
__CPROVER_ensures(cov_wf(self))
__CPROVER_ensures(cov_member(self, g_x) == (g_was_member || INR(g_x, start, length)))
__CPROVER_ensures(V(self).len <= __CPROVER_old(V(self).len) + 1)
__CPROVER_assigns(V(self).len, __CPROVER_object_whole(V(self).data));

_Bool coverage_remove(coverage *self, uint64_t start, uint64_t length)
__CPROVER_requires(SHAPE(self, 1) && cov_wf(self) && NOWRAP(start, length))
__CPROVER_requires(g_was_member == cov_member(self, g_x))
__CPROVER_requires(g_was_overlap == (length > 0 && cov_overlaps(self, start, length)))
__CPROVER_ensures(cov_wf(self))
__CPROVER_ensures(cov_member(self, g_x) == (g_was_member && !INR(g_x, start, length)))
__CPROVER_ensures(RET == g_was_overlap)
__CPROVER_ensures(V(self).len <= __CPROVER_old(V(self).len) + 1)
__CPROVER_assigns(V(self).len, __CPROVER_object_whole(V(self).data));

_Bool coverage_is_covered(const coverage *self, uint64_t start, uint64_t length)
__CPROVER_requires(SHAPE(self, 0) && cov_wf(self) && NOWRAP(start, length) && length > 0)
__CPROVER_requires(g_was_member == cov_member(self, g_x))
__CPROVER_ensures(RET == cov_covers(self, start, length))
__CPROVER_ensures((RET && INR(g_x, start, length)) ==> g_was_member)
__CPROVER_assigns();

_Bool coverage_is_overlap(const coverage *self, uint64_t start, uint64_t length)
__CPROVER_requires(SHAPE(self, 0) && cov_wf(self) && NOWRAP(start, length) && length > 0)
__CPROVER_requires(g_was_member == cov_member(self, g_x))
__CPROVER_ensures(RET == cov_overlaps(self, start, length))
__CPROVER_ensures((!RET && INR(g_x, start, length)) ==> !g_was_member)
__CPROVER_assigns();
#endif

#ifdef C16_SAFE
/* ---- safety contracts (unbounded in the number of ranges; loop contracts) ------------------ */
const cov_range *coverage_find_const(const coverage *self, uint64_t start)
__CPROVER_requires(SHAPE(self, 0) && V(self).len > 0)
__CPROVER_ensures(__CPROVER_same_object(RET, V(self).data))
__CPROVER_ensures(__CPROVER_POINTER_OFFSET(RET) <= V(self).len * sizeof(cov_range))
__CPROVER_ensures(__CPROVER_POINTER_OFFSET(RET) % sizeof(cov_range) == 0)
__CPROVER_assigns();

cov_range *coverage_find(coverage *self, uint64_t start)
__CPROVER_requires(SHAPE(self, 0) && V(self).len > 0)
__CPROVER_ensures(__CPROVER_same_object(RET, V(self).data))
__CPROVER_ensures(__CPROVER_POINTER_OFFSET(RET) <= V(self).len * sizeof(cov_range))
__CPROVER_ensures(__CPROVER_POINTER_OFFSET(RET) % sizeof(cov_range) == 0)
__CPROVER_assigns();

_Bool coverage_is_covered(const coverage *self, uint64_t start, uint64_t length)
__CPROVER_requires(SHAPE(self, 0))
__CPROVER_assigns();

_Bool coverage_is_overlap(const coverage *self, uint64_t start, uint64_t length)
__CPROVER_requires(SHAPE(self, 0))
__CPROVER_assigns();
#endif

#endif
