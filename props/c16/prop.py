"""C16 -- address sets behave as mathematical sets of addresses (coverage.cc)."""
import os, sys, json
sys.path.insert(0, os.path.join(os.path.dirname(__file__), '..', '..', 'tools'))
import vlib
from vlib import Job

PID = 'C16'
HERE = os.path.dirname(os.path.abspath(__file__))
OUT = os.path.join(vlib.BUILD, 'c16')

V = r'std::vector<cov_range(, std::allocator<cov_range>)?>'
IT = r'__gnu_cxx::__normal_iterator<(const )?cov_range \*, std::vector<cov_range.*>>'
CFG = {
    'names': {
        'coverage::find|coverage::const_iterator (uint64_t) const': 'coverage_find_const',
        'coverage::find|coverage::iterator (uint64_t)': 'coverage_find',
        'coverage::add': 'coverage_add', 'coverage::remove': 'coverage_remove',
        'coverage::is_covered': 'coverage_is_covered', 'coverage::is_overlap': 'coverage_is_overlap',
        'coverage::intersect': 'coverage_intersect', 'coverage::add_all': 'coverage_add_all',
        'coverage::remove_all': 'coverage_remove_all', '(anonymous namespace)::overlaps': 'cov_overlaps_range',
    },
    'types': {
        V: 'vec_cov_range',
        r'(__gnu_cxx::__normal_iterator<cov_range \*, std::vector<cov_range.*>>|coverage::iterator|std::vector<cov_range>::iterator)': 'cov_range *',
        r'(__gnu_cxx::__normal_iterator<const cov_range \*, std::vector<cov_range.*>>|coverage::const_iterator|std::vector<cov_range>::const_iterator)': 'const cov_range *',
    },
    'types_are_records': {V: True},
    'record_ctypes': ['vec_cov_range'],
    'record_default': {'vec_cov_range': 'vec_new()'},
    'types_prelude': '#include "vecmodel.h"\n',
    'extern': {
        V + r'::size': 'VEC_SIZE', V + r'::empty': 'VEC_EMPTY', V + r'::begin': 'VEC_BEGIN', V + r'::end': 'VEC_END',
        V + r'::at': 'VEC_AT', V + r'::operator\[\]': 'VEC_IDX', V + r'::front': 'VEC_FRONT', V + r'::back': 'VEC_BACK',
        V + r'::push_back': 'vec_push_back', V + r'::insert': 'vec_insert', V + r'::erase': 'vec_erase',
        IT + r'::operator\+': {'c': 'IT_PLUS', 'by_value': True},
        IT + r'::operator-': {'c': 'IT_MINUS', 'by_value': True},
        IT + r'::operator\*': {'c': 'IT_DEREF', 'by_value': True},
        IT + r'::operator->': {'c': 'IT_ARROW', 'by_value': True},
        IT + r'::operator\+\+': 'IT_PREINC', IT + r'::operator--': 'IT_PREDEC',
        r'__gnu_cxx::operator-': {'c': 'IT_DIFF', 'by_value': True},
        r'__gnu_cxx::operator==': {'c': 'IT_EQ', 'by_value': True},
        r'__gnu_cxx::operator!=': {'c': 'IT_NE', 'by_value': True},
        r'__gnu_cxx::operator<': {'c': 'IT_LT', 'by_value': True},
        r'__gnu_cxx::operator>': {'c': 'IT_GT', 'by_value': True},
        r'std::min': 'VERIF_MIN',
    },
    'loop_contracts': {
        'coverage_find_const': {1: '''__CPROVER_assigns(a, b)
__CPROVER_loop_invariant(a <= b && b <= self->__base0.len)
__CPROVER_decreases(b - a)'''},

    },
}
ROOTS = ['coverage::find|coverage::const_iterator (uint64_t) const', 'coverage::find|coverage::iterator (uint64_t)',
         'coverage::add', 'coverage::remove', 'coverage::is_covered', 'coverage::is_overlap',
         'coverage::intersect', 'coverage::add_all', 'coverage::remove_all']

import copy
ASET_CFG = copy.deepcopy(CFG)
ASET_CFG['names'].update({
    'pred_containsp_aset_aset::result': 'w_contains_aset_aset', 'pred_overlapsp_aset_aset::result': 'w_overlaps_aset_aset',
    'op_overlap_aset_aset::operate': 'w_overlap', 'op_length_aset::operate': 'w_length',
    'op_add_aset_aset::operate': 'w_add_aset_aset', 'op_sub_aset_aset::operate': 'w_sub_aset_aset',
    'value_aset::get_coverage|coverage &()': 'value_aset_cov', 'value_aset::get_coverage|const coverage &() const': 'value_aset_cov_const',
})
ASET_CFG['types'].update({
    r'std::unique_ptr<value_aset(, std::default_delete<value_aset>)?>': 'value_aset *',
    r'std::unique_ptr<value_cst(, std::default_delete<value_cst>)?>': 'value_cst *'})
ASET_CFG['extern'].update({
    r'coverage::add': 'coverage_add', r'coverage::remove': 'coverage_remove', r'coverage::is_covered': 'coverage_is_covered',
    r'coverage::is_overlap': 'coverage_is_overlap', r'coverage::intersect': 'coverage_intersect',
    r'coverage::add_all': 'coverage_add_all', r'coverage::remove_all': 'coverage_remove_all',
    r'std::unique_ptr<value_(aset|cst).*>::operator->': {'c': 'UPTR_ARROW', 'by_value': True},
    r'std::unique_ptr<value_(aset|cst).*>::operator\*': {'c': 'UPTR_ARROW', 'by_value': True},
    r'std::move': 'VERIF_MOVE'})
ASET_CFG['record_copy'] = {'coverage': 'coverage_copy'}
ASET_CFG['loop_contracts'] = {}
ASET_CFG['bodies_prelude'] = '#include "aset_prelude.h"\n'
ASET_CFG['globals'] = {'value_aset::vtype': 'g_vtype_aset', 'value_cst::vtype': 'g_vtype_cst',
                       'dec_constant_dom': '(*(const zw_cdom *)0)'}
ASET_CFG['names'].update({
    '(anonymous namespace)::addressify': 'w_addressify', 'op_aset_cst_cst::operate': 'w_aset_cst_cst',
    'op_add_aset_cst::operate': 'w_add_aset_cst', 'op_sub_aset_cst::operate': 'w_sub_aset_cst',
    'pred_containsp_aset_cst::result': 'w_contains_aset_cst', 'value_aset::cmp': 'value_aset_cmp'})
ASET_CFG['extern'].update({
    r'operator<\|bool \(mpz_class, mpz_class\)': 'mpz_lt', r'operator>\|bool \(mpz_class, mpz_class\)': 'mpz_gt',
    r'operator>=\|bool \(mpz_class, mpz_class\)': 'mpz_ge', r'operator<=\|bool \(mpz_class, mpz_class\)': 'mpz_le',
    r'operator==\|bool \(mpz_class, mpz_class\)': 'mpz_eq', r'operator!=\|bool \(mpz_class, mpz_class\)': 'mpz_ne',
    r'operator-\|mpz_class \(mpz_class, mpz_class\)': 'mpz_sub', r'std::swap': 'VERIF_SWAP'})
ASET_CFG['extern_may_raise'] = ['mpz_sub']
ASET_CFG['virtual'] = {'zw_cdom::safe_arith': 'cdom_safe_arith_model'}
ASET_CFG['drop_streams'] = ['std::cerr']
ASET_CFG['raise'] = []
ASET_ROOTS = ['(anonymous namespace)::addressify', 'op_aset_cst_cst::operate', 'op_add_aset_cst::operate', 'op_sub_aset_cst::operate',
              'pred_containsp_aset_cst::result', 'pred_containsp_aset_aset::result', 'pred_overlapsp_aset_aset::result', 'op_overlap_aset_aset::operate',
              'op_length_aset::operate', 'op_add_aset_aset::operate', 'op_sub_aset_aset::operate']

VASET_CFG = copy.deepcopy(ASET_CFG)
VASET_CFG['names'] = dict(CFG['names'])
VASET_CFG['names'].update({'value_aset::cmp': 'value_aset_cmp', 'zw_value::get_type': 'va_get_type', 'value_type::operator==': 'va_type_eq',
                           '_ZN10value_typeC1ERKS_': 'va_type_copy'})
VASET_CFG['bodies_prelude'] = 'extern value_type g_vtype_aset;\n'
VASET_ROOTS = ['value_aset::cmp']

INPUTS = ['start', 'length', 'g_x', 'arr[*', 'arr2[*', 'c.__base0.len', 'o.__base0.len']


def jobs(tier):
    bsrc = [os.path.join(HERE, 'bounded.c'), os.path.join(HERE, 'vecmodel.c'), os.path.join(OUT, 'cov_bodies.c')]
    inc = [OUT, os.path.join(vlib.VERIF, 'props'), HERE]
    J = []
    def bounded(name, n, **kw):
        kw.setdefault('timeout', 1500)
        J.append(Job('bounded_%s_n%d' % (name, n), bsrc, 'hb_' + name, includes=inc, inputs=INPUTS,
                     defines=['C16_NMAX=%d' % n, 'VEC_NEW_CAP=%d' % (2 * n + 2)], kind='bounded', unwind=n + 4,
                     cbmc_args=['--object-bits', '10'],
                     note='bounded: at most %d ranges per set, all 64-bit addresses (symbolic probe address)' % n, **kw))
    if tier == 'quick':
        sizes = {'find': 4, 'is_covered': 3, 'is_overlap': 3, 'add': 2, 'remove': 2, 'intersect': 2,
                 'add_all': 1, 'remove_all': 1, 'canonical': 3}
    else:
        sizes = {'find': 6, 'is_covered': 5, 'is_overlap': 5, 'add': 3, 'remove': 3, 'intersect': 3,
                 'add_all': 2, 'remove_all': 2, 'canonical': 4}
    for f, n in sizes.items():
        bounded(f, n)
    wsrc = [os.path.join(HERE, 'words.c'), os.path.join(HERE, 'vecmodel.c'), os.path.join(OUT, 'cov_bodies.c'),
            os.path.join(OUT, 'aset_bodies.c'), os.path.join(OUT, 'int_bodies.c'),
            os.path.join(HERE, '..', 'c08', 'prims.c')]
    def word(name, n, **kw):
        kw.setdefault('timeout', 1800)
        J.append(Job('bounded_word_%s_n%d' % (name, n), wsrc, 'hw_' + name, includes=inc + [os.path.join(HERE, '..', 'c08')],
                     inputs=['x', 'arr[*', 'arr2[*', 'a.cov.__base0.len', 'b.cov.__base0.len', 'au', 'as', 'bu', 'bs'],
                     defines=['C16_NMAX=%d' % n, 'VEC_NEW_CAP=%d' % (2 * n + 2)], kind='bounded', unwind=2 * n + 3, mem_gb=24,
                     cbmc_args=['--object-bits', '12'],
                     note='bounded: at most %d ranges per set, all 64-bit addresses; Zwerg word over the lowered coverage bodies' % n, **kw))
    wsizes = {'contains': 2, 'overlaps': 2, 'add': 1, 'sub': 1, 'length': 3, 'aset_cst_cst': 1, 'add_cst': 2, 'sub_cst': 2,
              'contains_cst': 3, 'cmp': 2} if tier == 'quick' else \
             {'contains': 3, 'overlaps': 3, 'overlap': 1, 'add': 2, 'sub': 2, 'length': 5, 'aset_cst_cst': 1, 'add_cst': 3,
              'sub_cst': 3, 'contains_cst': 5, 'cmp': 3}
    csrc = [os.path.join(HERE, 'words_cmp.c'), os.path.join(OUT, 'vaset_bodies.c')]
    for f, n in wsizes.items():
        if f == 'cmp':
            J.append(Job('bounded_word_cmp_n%d' % n, csrc, 'hw_cmp', includes=inc, inputs=['x', 'arr[*', 'arr2[*', 'a.cov.__base0.len', 'b.cov.__base0.len'],
                         defines=['C16_NMAX=%d' % n], kind='bounded', unwind=2 * n + 3, timeout=1200, cbmc_args=['--object-bits', '10'],
                         note='bounded: at most %d ranges per set; value_aset::cmp' % n))
        else:
            word(f, n)
    ssrc = [os.path.join(HERE, 'harness.c'), os.path.join(HERE, 'vecmodel.c'), os.path.join(OUT, 'cov_bodies.c')]
    def safe(name, harness, enforce, replace=(), lc=False, defines_extra=(), **kw):
        J.append(Job('safe_' + name, ssrc, harness, enforce=enforce, replace=replace, loop_contracts=lc,
                     includes=inc, inputs=INPUTS, defines=['C16_SAFE'] + list(defines_extra), kind='proof', timeout=900,
                     note='unbounded in the number of ranges (n <= 4096 keeps pointer arithmetic in one object)', **kw))
    safe('find_const', 'h_find_const', 'coverage_find_const', lc=True)
    safe('find', 'h_find', 'coverage_find', replace=['coverage_find_const'])
    safe('vec_push_back', 'h_vec_push_back', 'vec_push_back', defines_extra=['VEC_LOOP_CONTRACTS'])
    safe('vec_insert', 'h_vec_insert', 'vec_insert', lc=True, defines_extra=['VEC_LOOP_CONTRACTS'])
    safe('vec_erase', 'h_vec_erase', 'vec_erase', lc=True, defines_extra=['VEC_LOOP_CONTRACTS'])
    # safe('add', ...) with the loop contract in CFG['loop_contracts']['coverage_add'] and the three vector
    # operations replaced by their contracts was tried and is NOT part of the check: propositional reduction
    # ran out of memory at 24 GB and 45 GB, also with a constant capacity of 64 and of 8 (see DESIGN.md).
    safe('is_covered', 'h_is_covered', 'coverage_is_covered', replace=['coverage_find_const'])
    safe('is_overlap', 'h_is_overlap', 'coverage_is_overlap', replace=['coverage_find_const'])
    J.append(Job('control', bsrc, 'hb_control', includes=inc, defines=['C16_NMAX=2', 'VERIF_CONTROL'],
                 kind='control', expect='fail', unwind=8, cbmc_args=['--object-bits', '10'], timeout=600))
    return J


LEVEL = 'other'
TRUSTED = [
    'tools/cxx2c.py lowering (checked per run by the native fidelity test, not proved)',
    'props/c16/vecmodel.{h,c}: std::vector<cov_range> modelled as (data,len,cap) with pointer iterators; growth not modelled (capacity is a stated bound)',
]
ASSUMPTIONS = [
    'std::vector::at() out-of-range throw is modelled as a failed obligation',
    'precondition from the property: start+length does not wrap (addresses below 2^64-1)',
    'is_covered/is_overlap are specified for length > 0 (every caller in the repository passes a non-empty range)',
]
EXPLANATION = 'see DESIGN.md section 4 C16'


def spec_files():
    return [os.path.join(HERE, 'spec.h'), os.path.join(HERE, 'harness.c'), os.path.join(HERE, 'vecmodel.c')]


def prepare(tier):
    lw = vlib.extract('cov', 'libzwerg/coverage.cc', CFG, ROOTS, OUT)
    import importlib.util
    sp = importlib.util.spec_from_file_location('c08prop_for_c16', os.path.join(HERE, '..', 'c08', 'prop.py'))
    c08 = importlib.util.module_from_spec(sp)
    sp.loader.exec_module(c08)
    iw = vlib.extract('int', 'libzwerg/int.cc', c08.CFG, c08.ROOTS, OUT)     # bodies of the mpz operators the words call
    aw = vlib.extract('aset', 'libzwerg/builtin-aset.cc', ASET_CFG, ASET_ROOTS, OUT)
    vw = vlib.extract('vaset', 'libzwerg/value-aset.cc', VASET_CFG, VASET_ROOTS, OUT)
    aw.report['functions'] += vw.report['functions']
    build_native()
    return {'units': ['libzwerg/coverage.cc', 'libzwerg/builtin-aset.cc'],
            'functions': lw.report['functions'] + aw.report['functions'],
            'externals': lw.report['externals'] + aw.report['externals']}


def build_native():
    exe = os.path.join(OUT, 'native_driver')
    inc = ['-I' + OUT, '-I' + os.path.join(vlib.VERIF, 'props'), '-I' + HERE]
    vlib.native(['gcc', '-O1', '-Werror=implicit-function-declaration', '-DVEC_NEW_CAP=64', '-c'] + inc +
                [os.path.join(OUT, 'cov_bodies.c'), '-o', os.path.join(OUT, 'cov_bodies.o')])
    vlib.native(['gcc', '-O1', '-Werror=implicit-function-declaration', '-DVEC_NEW_CAP=64', '-c'] + inc +
                [os.path.join(HERE, 'vecmodel.c'), '-o', os.path.join(OUT, 'vecmodel.o')])
    vlib.native(['g++', '-std=c++14', '-O2', '-DNDEBUG', '-I%s/libzwerg' % vlib.REPO, '-c',
                 os.path.join(vlib.REPO, 'libzwerg/coverage.cc'), '-o', os.path.join(OUT, 'cov_real.o')])
    vlib.native(['g++', '-std=c++14', '-O1', '-I%s/libzwerg' % vlib.REPO,
                 os.path.join(HERE, 'native_driver.cc'), os.path.join(OUT, 'cov_real.o'),
                 os.path.join(OUT, 'cov_bodies.o'), os.path.join(OUT, 'vecmodel.o'), '-o', exe])
    return exe


def fidelity(tier, seed):
    exe = os.path.join(OUT, 'native_driver')
    n = 100000 if tier == 'quick' else 2000000
    rc, out, err, w = vlib.run([exe, 'fidelity', str(seed), str(n)], timeout=900)
    if rc != 0 or 'DONE' not in out:
        raise vlib.Undecided('fidelity driver failed rc=%s %s' % (rc, (out + err)[-300:]))
    last = out.strip().split('\n')[-1]
    ev = int(last.split('evals=')[1].split()[0])
    bad = int(last.split('bad=')[1])
    first = [l for l in out.split('\n') if l.startswith('DISAGREE')][:1]
    return {'what': 'extracted C (with the std::vector model) vs real coverage.cc object code: random operation sequences '
                    '(add, remove, is_covered, is_overlap, intersect, add_all, remove_all) near 0, 2^32, 2^63 and the top of '
                    'the address space, comparing range lists and return values after every step',
            'evaluations': ev, 'disagreements': bad, 'first': first[0] if first else None, 'wall_s': round(w, 1),
            'status': 'supporting test, not an obligation'}


# ---- replay of a counterexample on the real code, with an independent interval-set oracle ----
def canon(ranges):
    out = []
    for s, l in sorted((s, l) for s, l in ranges if l > 0):
        if out and s <= out[-1][0] + out[-1][1]:
            e = max(out[-1][0] + out[-1][1], s + l)
            out[-1] = (out[-1][0], e - out[-1][0])
        else:
            out.append((s, l))
    return out


def diff(a, b):
    res = []
    for s, l in a:
        segs = [(s, s + l)]
        for t, k in b:
            nxt = []
            for x, y in segs:
                if t + k <= x or y <= t:
                    nxt.append((x, y))
                else:
                    if x < t:
                        nxt.append((x, t))
                    if t + k < y:
                        nxt.append((t + k, y))
            segs = nxt
        res += [(x, y - x) for x, y in segs]
    return canon(res)


def inter(a, b):
    res = []
    for s, l in a:
        for t, k in b:
            x, y = max(s, t), min(s + l, t + k)
            if x < y:
                res.append((x, y - x))
    return canon(res)


def oracle(op, A, B, start, length):
    q = [(start, length)] if length > 0 else []
    if op == 'add':
        return None, canon(A + q)
    if op == 'remove':
        return int(bool(inter(A, q))), diff(A, q)
    if op == 'is_covered':
        return int(inter(A, q) == canon(q)), canon(A)
    if op == 'is_overlap':
        return int(bool(inter(A, q))), canon(A)
    if op == 'intersect':
        return None, inter(A, q)
    if op == 'add_all':
        return None, canon(A + B)
    if op == 'remove_all':
        return int(bool(inter(A, B))), diff(A, B)


def cex_state(cex, arrname, lenname):
    def num(x):
        return int(''.join(ch for ch in str(x) if ch.isdigit()) or 0)
    n = num(cex.get(lenname, 0))
    out = []
    for i in range(n):
        s = cex.get('%s[%dl].start' % (arrname, i), cex.get('%s[%d].start' % (arrname, i), 0))
        l = cex.get('%s[%dl].length' % (arrname, i), cex.get('%s[%d].length' % (arrname, i), 0))
        out.append((num(s), num(l)))
    return out


def replay_state(op, A, B, start, length):
    exe = os.path.join(OUT, 'native_driver')
    args = [exe, 'replay', op, str(len(A))] + [str(v) for p in A for v in p] + [str(len(B))] + \
           [str(v) for p in B for v in p] + [str(start), str(length)]
    rc, out, err, w = vlib.run(args, timeout=30)
    if rc != 0:
        return {'reproduced': False, 'error': 'driver rc=%s %s' % (rc, (out + err)[-200:])}
    lines = out.strip().split('\n')
    got_ret = lines[1].split()[1]
    nums = [int(x) for x in lines[2].split()[1:]]
    got_set = [(nums[1 + 2 * i], nums[2 + 2 * i]) for i in range(nums[0])]
    exp_ret, exp_set = oracle(op, canon(A), canon(B), start, length)
    bad = got_set != exp_set or (exp_ret is not None and str(exp_ret) != got_ret)
    return {'reproduced': bad, 'op': op, 'set': A, 'other': B, 'start': start, 'length': length,
            'observed_on_real_code': {'ret': got_ret, 'set': got_set},
            'expected_as_sets': {'ret': exp_ret, 'set': exp_set}}


def aset_expr(ranges):
    if not ranges:
        return '0 0 aset'
    parts = ['%d %d aset' % (s, s + l) for s, l in ranges]
    return parts[0] + ''.join(' %s add' % p for p in parts[1:])


def parse_aset(txt):
    import re
    out = []
    for a, b in re.findall(r'\[(0x[0-9a-f]+|\d+), (0x[0-9a-f]+|\d+)\)', txt):
        a, b = int(a, 0), int(b, 0)
        out.append((a, b - a))
    return out


def replay_word(r):
    """Zwerg words over address sets, on the real library through queries, against the interval-set oracle."""
    word = r.job.name[len('bounded_word_'):].rsplit('_n', 1)[0]
    def num(x):
        return int(''.join(ch for ch in str(x) if ch.isdigit()) or 0)
    def flag(x):
        return str(x).strip() in ('TRUE', 'true', '1')
    A = cex_state(r.cex, 'arr', 'a.cov.__base0.len')
    B = cex_state(r.cex, 'arr2', 'b.cov.__base0.len')
    if word == 'cmp' and not A and not B:
        # the cmp harness names its sets the same way but records no lengths separately
        A = cex_state(r.cex, 'arr', 'a.cov.__base0.len')
    def lit(u, s):
        u = num(u)
        return str(u - (1 << 64)) if (s and u >= 1 << 63) else str(u)
    def addr(u, s):
        u = num(u)
        return 0 if (s and u >= 1 << 63) else u
    qa, qb = aset_expr(A), aset_expr(B)
    cA, cB = canon(A), canon(B)
    bl, bv = lit(r.cex.get('bu', 0), flag(r.cex.get('bs', 0))), addr(r.cex.get('bu', 0), flag(r.cex.get('bs', 0)))
    al, av = lit(r.cex.get('au', 0), flag(r.cex.get('as', 0))), addr(r.cex.get('au', 0), flag(r.cex.get('as', 0)))
    if word == 'length':
        q, kind, exp = '%s length' % qa, 'num', sum(l for _, l in cA)
    elif word in ('contains', 'overlaps'):
        q, kind = '%s %s ?%s' % (qa, qb, word), 'pred'
        exp = (inter(cA, cB) == cB) if word == 'contains' else bool(inter(cA, cB))
    elif word == 'cmp':
        q, kind, exp = '%s %s ?eq' % (qa, qb), 'pred', cA == cB
    elif word == 'contains_cst':
        q, kind, exp = '%s %s ?contains' % (qa, bl), 'pred', bool(inter(cA, [(bv, 1)]))
    elif word == 'aset_cst_cst':
        lo, hi = min(av, bv), max(av, bv)
        q, kind, exp = '%s %s aset' % (al, bl), 'set', canon([(lo, hi - lo)])
    elif word in ('add_cst', 'sub_cst'):
        q, kind = '%s %s %s' % (qa, bl, word[:3]), 'set'
        exp = canon(cA + [(bv, 1)]) if word == 'add_cst' else diff(cA, [(bv, 1)])
    else:
        q, kind = '%s %s %s' % (qa, qb, word), 'set'
        exp = {'overlap': inter(cA, cB), 'add': canon(cA + cB), 'sub': diff(cA, cB)}[word]
    res = vlib.zw_queries([q], OUT, dw=True)
    if not res or res[0][0] is None:
        return {'reproduced': False, 'error': 'query failed: %r' % (res,), 'query': q}
    cnt, txt = res[0]
    top = txt.strip().strip('<>').split('|')[-1]
    if kind == 'pred':
        bad = (cnt > 0) != bool(exp)
    elif kind == 'num':
        bad = top not in (str(exp), hex(exp))
    else:
        bad = parse_aset(top) != exp
    return {'reproduced': bool(bad), 'query': q, 'real_library': txt.strip()[:200], 'expected': exp}


def replay(r):
    if r.job.name.startswith('bounded_word_'):
        return replay_word(r)
    name = r.job.name
    op = None
    for o in ('is_covered', 'is_overlap', 'intersect', 'add_all', 'remove_all', 'add', 'remove'):
        if name.startswith('bounded_' + o + '_n'):
            op = o
            break
    if op is None or not r.cex:
        return {'reproduced': False, 'note': 'no operation-level counterexample for this job'}
    A = cex_state(r.cex, 'arr', 'c.__base0.len')
    B = cex_state(r.cex, 'arr2', 'o.__base0.len')
    def num(x):
        return int(''.join(ch for ch in str(x) if ch.isdigit()) or 0)
    return replay_state(op, A, B, num(r.cex.get('start', 0)), num(r.cex.get('length', 0)))
