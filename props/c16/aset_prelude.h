/* declarations the text lowered from builtin-aset.cc needs: the coverage functions (lowered from
   coverage.cc in the other unit, linked in) and the deep copy of a coverage (model). */
#include "cov_protos.h"
static inline coverage coverage_copy(const coverage *c) { coverage r; r.__base0 = vec_copy(&c->__base0); return r; }
extern value_type g_vtype_aset, g_vtype_cst;
