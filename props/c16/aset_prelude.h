/* declarations the text lowered from builtin-aset.cc needs: the coverage functions (lowered from
   coverage.cc in the other unit, linked in) and the deep copy of a coverage (model). */
#include "cov_protos.h"
static inline coverage coverage_copy(const coverage *c) { coverage r; r.__base0 = vec_copy(&c->__base0); return r; }
extern value_type g_vtype_aset, g_vtype_cst;
/* integer operations of int.cc used by the constant-operand words: bodies are the ones lowered from
   int.cc by the C08 unit and linked in (their contracts are proved in C08) */
_Bool mpz_lt(mpz_class v1, mpz_class v2);
_Bool mpz_gt(mpz_class v1, mpz_class v2);
_Bool mpz_ge(mpz_class v1, mpz_class v2);
_Bool mpz_le(mpz_class v1, mpz_class v2);
_Bool mpz_eq(mpz_class v1, mpz_class v2);
_Bool mpz_ne(mpz_class v1, mpz_class v2);
mpz_class mpz_sub(mpz_class v1, mpz_class v2);
/* virtual constant_dom::safe_arith(): only decides whether a warning is printed */
static inline _Bool cdom_safe_arith_model(const zw_cdom *d) { return 1; }
