/* C16 bounded harness for value_aset::cmp (libzwerg/value-aset.cc): "two address sets compare equal
   exactly when they denote the same set".  BOUNDED in the number of ranges. */
#include "vaset_types.h"
#include "vaset_protos.h"
#include "specfn.h"

int verif_raised;
value_type g_vtype_aset;
uint64_t nondet_u64(void);
size_t nondet_size(void);
#define CAP (2 * C16_NMAX + 2)
#define MKSET(v, arr, maxlen)                                                    \
  cov_range arr[CAP]; value_aset v;                                              \
  V(&v.cov).data = arr; V(&v.cov).cap = CAP; V(&v.cov).len = nondet_size();      \
  __CPROVER_assume(V(&v.cov).len <= (maxlen));                                   \
  __CPROVER_assume(cov_wf(&v.cov));

/* ---- comparison of two address sets (value_aset::cmp, lowered from value-aset.cc) ------------------ */
static uint64_t distinguish(const coverage *a, const coverage *b)
{
  size_t n = V(a).len < V(b).len ? V(a).len : V(b).len;
  for (size_t i = 0; i < n; ++i)
    {
      const cov_range *p = &V(a).data[i], *q = &V(b).data[i];
      if (p->start != q->start)
        return p->start < q->start ? p->start : q->start;
      if (p->length != q->length)
        return p->length < q->length ? p->start + p->length : q->start + q->length;
    }
  if (V(a).len > n)
    return V(a).data[n].start;
  return V(b).data[n].start;
}

void hw_cmp(void)
{
  MKSET(a, arr, C16_NMAX) MKSET(b, arr2, C16_NMAX)
  uint64_t x = nondet_u64();
  unsigned char nondet_uchar(void);
  g_vtype_aset.m_code = nondet_uchar();      /* globals are zero-initialised: give the type code a value */
  __CPROVER_assume(g_vtype_aset.m_code >= 1 && g_vtype_aset.m_code <= 127);
  a.__base0.m_type = g_vtype_aset; b.__base0.m_type = g_vtype_aset;
  cmp_result ab = value_aset_cmp(&a, &b.__base0), ba = value_aset_cmp(&b, &a.__base0);
  __CPROVER_assert(ab != cmp_result__fail && ba != cmp_result__fail, "two address sets always compare");
  __CPROVER_assert((ab == cmp_result__equal) == (ba == cmp_result__equal) && (ab == cmp_result__less) == (ba == cmp_result__greater),
                   "comparison is antisymmetric");
  __CPROVER_assert(ab != cmp_result__equal || cov_member(&a.cov, x) == cov_member(&b.cov, x), "sets that compare equal denote the same set");
  if (ab != cmp_result__equal)
    {
      uint64_t w = distinguish(&a.cov, &b.cov);
      __CPROVER_assert(cov_member(&a.cov, w) != cov_member(&b.cov, w), "sets that do not compare equal denote different sets");
    }
  zw_value other; other.m_type.m_code = (unsigned char)(g_vtype_aset.m_code + 1);
  __CPROVER_assert(value_aset_cmp(&a, &other) == cmp_result__fail, "comparison with a value of another type is declined");
}
