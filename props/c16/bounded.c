/* C16 bounded functional harnesses (BOUNDED in the number of ranges, universal in addresses).
 *
 * Not contract enforcement: goto-instrument's contract instrumentation of these functions with
 * looping spec functions exhausts 16 GB in propositional reduction (measured), so the same pre-
 * and postconditions (spec.h) are assumed/asserted around a direct call of the extracted body and
 * all loops are unwound (--unwind, --unwinding-assertions).  Labelled `bounded`, never `proof`.
 */
#define C16_PLAIN
#include "spec.h"

int verif_raised;
uint64_t g_x;
_Bool g_was_member, g_was_overlap, g_was_covered;

uint64_t nondet_u64(void);
size_t nondet_size(void);

#define CAP (2 * C16_NMAX + 2)

#define MKCOV(c, arr, maxlen)                                                    \
  cov_range arr[CAP]; /* uninitialised locals are nondet */ coverage c;                                                \
  V(&c).data = arr; V(&c).cap = CAP; V(&c).len = nondet_size();                  \
  __CPROVER_assume(V(&c).len <= (maxlen));                                       \
  __CPROVER_assume(cov_wf(&c));

#define ARGS                                                                     \
  uint64_t start = nondet_u64(), length = nondet_u64();                          \
  g_x = nondet_u64();                                                            \
  __CPROVER_assume(NOWRAP(start, length));

void hb_find(void)
{
  MKCOV(c, arr, C16_NMAX) ARGS
  __CPROVER_assume(V(&c).len > 0);
  const cov_range *r = coverage_find_const(&c, start);
  size_t k = (size_t)(r - arr);
  __CPROVER_assert(__CPROVER_same_object(r, arr) && k <= V(&c).len, "find: result within [begin, end]");
  __CPROVER_assert(k == 0 || arr[k - 1].start < start, "find: every range before the result starts below start");
  __CPROVER_assert(k == V(&c).len || arr[k].start >= start, "find: the result and later ranges start at or above start");
}

void hb_add(void)
{
  MKCOV(c, arr, C16_NMAX) ARGS
  _Bool was = cov_member(&c, g_x);
  size_t len0 = V(&c).len;
  coverage_add(&c, start, length);
  __CPROVER_assert(cov_wf(&c), "add: representation invariant preserved (sorted, disjoint, non-adjacent, non-empty)");
  __CPROVER_assert(cov_member(&c, g_x) == (was || INR(g_x, start, length)), "add: result is the union, at every address");
  __CPROVER_assert(V(&c).len <= len0 + 1, "add: at most one more range");
}

void hb_remove(void)
{
  MKCOV(c, arr, C16_NMAX) ARGS
  _Bool was = cov_member(&c, g_x);
  _Bool ovl = length > 0 && cov_overlaps(&c, start, length);
  size_t len0 = V(&c).len;
  _Bool r = coverage_remove(&c, start, length);
  __CPROVER_assert(cov_wf(&c), "remove: representation invariant preserved");
  __CPROVER_assert(cov_member(&c, g_x) == (was && !INR(g_x, start, length)), "remove: result is the difference, at every address");
  __CPROVER_assert(r == ovl, "remove: returns whether anything was removed");
  __CPROVER_assert(V(&c).len <= len0 + 1, "remove: at most one more range");
}

void hb_is_covered(void)
{
  MKCOV(c, arr, C16_NMAX) ARGS
  __CPROVER_assume(length > 0);
  _Bool r = coverage_is_covered(&c, start, length);
  __CPROVER_assert(r == cov_covers(&c, start, length), "is_covered: true iff one range contains [start, start+length)");
  __CPROVER_assert(!(r && INR(g_x, start, length)) || cov_member(&c, g_x), "is_covered: every address of a covered range is a member");
}

void hb_is_overlap(void)
{
  MKCOV(c, arr, C16_NMAX) ARGS
  __CPROVER_assume(length > 0);
  _Bool r = coverage_is_overlap(&c, start, length);
  __CPROVER_assert(r == cov_overlaps(&c, start, length), "is_overlap: true iff some range intersects [start, start+length)");
  __CPROVER_assert(!(!r && INR(g_x, start, length)) || !cov_member(&c, g_x), "is_overlap: no address of a non-overlapping range is a member");
}

void hb_intersect(void)
{
  MKCOV(c, arr, C16_NMAX) ARGS
  _Bool was = cov_member(&c, g_x);
  coverage r = coverage_intersect(&c, start, length);
  __CPROVER_assert(cov_wf(&r), "intersect: result satisfies the representation invariant");
  __CPROVER_assert(cov_member(&r, g_x) == (was && INR(g_x, start, length)), "intersect: result is the intersection, at every address");
  __CPROVER_assert(cov_member(&c, g_x) == was, "intersect: receiver unchanged");
}

void hb_add_all(void)
{
  MKCOV(c, arr, C16_NMAX) MKCOV(o, arr2, C16_NMAX)
  g_x = nondet_u64();
  _Bool was = cov_member(&c, g_x), wo = cov_member(&o, g_x);
  coverage_add_all(&c, &o);
  __CPROVER_assert(cov_wf(&c), "add_all: representation invariant preserved");
  __CPROVER_assert(cov_member(&c, g_x) == (was || wo), "add_all: union, at every address");
}

void hb_remove_all(void)
{
  MKCOV(c, arr, C16_NMAX) MKCOV(o, arr2, C16_NMAX)
  g_x = nondet_u64();
  _Bool was = cov_member(&c, g_x), wo = cov_member(&o, g_x);
  _Bool any = 0;
  for (size_t i = 0; i < V(&o).len; ++i)
    if (cov_overlaps(&c, arr2[i].start, arr2[i].length))
      any = 1;
  _Bool r = coverage_remove_all(&c, &o);
  __CPROVER_assert(cov_wf(&c), "remove_all: representation invariant preserved");
  __CPROVER_assert(cov_member(&c, g_x) == (was && !wo), "remove_all: difference, at every address");
  __CPROVER_assert(r == any, "remove_all: returns whether anything was removed");
}

/* canonical form: two invariant-satisfying range lists that differ structurally differ as sets.
   distinguish() returns an address that is in exactly one of them. */
static uint64_t distinguish(const coverage *a, const coverage *b)
{
  size_t n = V(a).len < V(b).len ? V(a).len : V(b).len;
  for (size_t i = 0; i < n; ++i)
    {
      const cov_range *p = &V(a).data[i], *q = &V(b).data[i];
      if (p->start != q->start)
        return p->start < q->start ? p->start : q->start;
      if (p->length != q->length)
        return p->length < q->length ? p->start + p->length : q->start + q->length;
    }
  if (V(a).len > n)
    return V(a).data[n].start;
  return V(b).data[n].start;
}

void hb_canonical(void)
{
  MKCOV(c, arr, C16_NMAX) MKCOV(o, arr2, C16_NMAX)
  _Bool same = V(&c).len == V(&o).len;
  for (size_t i = 0; i < V(&c).len && same; ++i)
    if (arr[i].start != arr2[i].start || arr[i].length != arr2[i].length)
      same = 0;
  if (!same)
    {
      uint64_t w = distinguish(&c, &o);
      __CPROVER_assert(cov_member(&c, w) != cov_member(&o, w), "canonical form: structurally different lists denote different sets");
    }
}

#ifdef VERIF_CONTROL
void hb_control(void)
{
  MKCOV(c, arr, C16_NMAX) ARGS
  coverage_add(&c, start, length);
  __CPROVER_assert(V(&c).len <= 1, "CONTROL (must fail): add leaves at most one range");
}
#endif
