/* C16 spec functions over the representation (shared by the coverage.cc and builtin-aset.cc units).
   Expects the types coverage / cov_range / vec_cov_range to be defined by the including file. */
#ifndef C16_SPECFN_H
#define C16_SPECFN_H
#define V(c) ((c)->__base0)
#define NOWRAP(s, l) ((uint64_t)((s) + (l)) >= (s))
/* x in [s, s+l), for s+l not wrapping; two comparisons sharing the code's own s+l (the wrapped
   subtraction form  x-s < l  made SAT time out) */
#define INR(x, s, l) ((x) >= (s) && (x) < (uint64_t)((s) + (l)))

/* ---- spec functions (loops => bounded use only) ------------------------------------------ */
static inline _Bool cov_wf(const coverage *c)
{
  for (size_t i = 0; i < V(c).len; ++i)
    {
      const cov_range *r = &V(c).data[i];
      if (r->length == 0 || !NOWRAP(r->start, r->length))
        return 0;
      if (i + 1 < V(c).len && !(r->start + r->length < V(c).data[i + 1].start))
        return 0;
    }
  return 1;
}

static inline _Bool cov_member(const coverage *c, uint64_t x)
{
  for (size_t i = 0; i < V(c).len; ++i)
    if (INR(x, V(c).data[i].start, V(c).data[i].length))
      return 1;
  return 0;
}

/* some address of [s, s+l) is a member  (l > 0, no wrap) */
static inline _Bool cov_overlaps(const coverage *c, uint64_t s, uint64_t l)
{
  for (size_t i = 0; i < V(c).len; ++i)
    if (s < V(c).data[i].start + V(c).data[i].length && V(c).data[i].start < s + l)
      return 1;
  return 0;
}

/* every address of [s, s+l) is a member; for a WF set that means one range contains it */
static inline _Bool cov_covers(const coverage *c, uint64_t s, uint64_t l)
{
  for (size_t i = 0; i < V(c).len; ++i)
    if (V(c).data[i].start <= s && s + l <= V(c).data[i].start + V(c).data[i].length)
      return 1;
  return 0;
}

#endif
