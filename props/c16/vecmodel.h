/* Model of std::vector<cov_range> and its iterators (TRUSTED; assumed contract on a dependency).
 *
 * A vector is (data, len, cap): `data` points to an array of `cap` elements of which the first
 * `len` are live.  Iterators are element pointers (libstdc++'s __normal_iterator is exactly a
 * wrapped pointer).  Growth is not modelled: insertion asserts len < cap, and every harness
 * supplies cap > len (stated bound on the number of ranges, VEC_CAP).
 * at() asserts the index is in range (the real one throws std::out_of_range).
 */
#ifndef C16_VECMODEL_H
#define C16_VECMODEL_H
#include "../common.h"

typedef struct cov_range cov_range;
typedef struct vec_cov_range { cov_range *data; size_t len; size_t cap; } vec_cov_range;

#ifdef VERIF_CBMC
#define VEC_ASSERT(c, msg) __CPROVER_assert(c, "std::vector model: " msg)
#else
#define VEC_ASSERT(c, msg) ((c) ? (void)0 : verif_assert_fail("std::vector model: " msg))
#endif

#define VEC_SIZE(v) ((v)->len)
#define VEC_EMPTY(v) ((_Bool)((v)->len == 0))
#define VEC_BEGIN(v) ((v)->data)
#define VEC_END(v) ((v)->data + (v)->len)
#define VEC_AT(v, i) (VEC_ASSERT((i) < (v)->len, "at(): index in range"), &(v)->data[i])
#define VEC_IDX(v, i) (&(v)->data[i])
#define VEC_FRONT(v) (&(v)->data[0])
#define VEC_BACK(v) (&(v)->data[(v)->len - 1])

/* iterator operations, all by value */
#define IT_PLUS(it, n) ((it) + (n))
#define IT_MINUS(it, n) ((it) - (n))
#define IT_DIFF(a, b) ((a) - (b))
#define IT_DEREF(it) (it)
#define IT_ARROW(it) (it)
#define IT_EQ(a, b) ((_Bool)((a) == (b)))
#define IT_NE(a, b) ((_Bool)((a) != (b)))
#define IT_LT(a, b) ((_Bool)((a) < (b)))
#define IT_GT(a, b) ((_Bool)((a) > (b)))
#define IT_PREINC(pit) (++*(pit), (pit))
#define IT_PREDEC(pit) (--*(pit), (pit))

#ifndef VEC_NEW_CAP
#define VEC_NEW_CAP 8
#endif
vec_cov_range vec_new(void);
#define UPTR_ARROW(p) (p)
#define VERIF_MOVE(p) (p)
vec_cov_range vec_copy(const vec_cov_range *v);
#define VERIF_MIN(pa, pb) ((*(pb) < *(pa)) ? (pb) : (pa))
void vec_push_back(vec_cov_range *v, const cov_range *x);
cov_range *vec_insert(vec_cov_range *v, const cov_range *pos, const cov_range *x);
cov_range *vec_erase(vec_cov_range *v, const cov_range *first, const cov_range *last);
#endif
