/* C17/C07 (slice): operands of a location-expression operation -- dwop_number / dwop_number2 (`value` of a T_LOCLIST_OP)
   = locexpr_op_values<0>/<1> of atval.cc with their three helper lambdas and select<N>.
   "each operation reports its stored ... operands": for EVERY opcode 0..255 and every pair of stored operand words
   the first / second operand produced is what the DWARF encoding of that operation says (this table is written from
   the DWARF 4 standard, section 7.7.1 / Figure 24, and the GNU extensions' descriptions -- NOT from the code):
     unsigned decimal constant, signed decimal constant, address (hex), a DIE, a block, a nested expression, or nothing;
   constants carry exactly the stored word (number for the first, number2 for the second operand).
   DWARF 5 opcodes 0xa0..0xa9, opcodes DWARF 4 does not assign and vendor opcodes other than the GNU ones listed are left
   unconstrained (so that adding support for them is not an alarm); that leaves 0x03, 0x06, 0x08..0x9f and 0xf2..0xf7, 0xf9, 0xfa. */
#include "lx_types.h"
#include "lx_protos.h"
int verif_raised;
mprod g_prod[NPROD]; unsigned g_nprod;
const char g_hex_dom, g_dec_dom;
unsigned char nondet_uchar(void); unsigned long nondet_ulong(void);
enum { K_NONE, K_UDEC, K_SDEC, K_UHEX, K_DIE, K_BLOCK, K_LOCEXPR, K_ANY };

static void spec(unsigned a, int *k1, int *k2)
{
  *k1 = K_NONE; *k2 = K_NONE;
  if (a == 0x03 || a == 0x9a) { *k1 = K_UHEX; return; }                                  /* addr, call_ref */
  if (a == 0x08 || a == 0x0a || a == 0x0c || a == 0x0e || a == 0x10) { *k1 = K_UDEC; return; }   /* const1u 2u 4u 8u, constu */
  if (a == 0x09 || a == 0x0b || a == 0x0d || a == 0x0f || a == 0x11) { *k1 = K_SDEC; return; }   /* const1s 2s 4s 8s, consts */
  if (a == 0x15 || a == 0x23 || a == 0x90 || a == 0x93 || a == 0x94 || a == 0x95 || a == 0x98 || a == 0x99) { *k1 = K_UDEC; return; }
                                                   /* pick, plus_uconst, regx, piece, deref_size, xderef_size, call2, call4 */
  if (a == 0x28 || a == 0x2f || a == 0x91) { *k1 = K_SDEC; return; }                    /* bra, skip, fbreg */
  if (a >= 0x70 && a <= 0x8f) { *k1 = K_SDEC; return; }                                  /* breg0 .. breg31: one SLEB128 offset */
  if (a == 0x92) { *k1 = K_UDEC; *k2 = K_SDEC; return; }                                 /* bregx: register, offset */
  if (a == 0x9d) { *k1 = K_UDEC; *k2 = K_UDEC; return; }                                 /* bit_piece: size, offset */
  if (a == 0x9e) { *k1 = K_BLOCK; return; }                                              /* implicit_value */
  if (a >= 0xa0 && a <= 0xa9) { *k1 = K_ANY; *k2 = K_ANY; return; }                      /* DWARF 5: unconstrained here */
  if (a < 0x03 || a == 0x04 || a == 0x05 || a == 0x07 || (a >= 0xaa && a <= 0xf1) || a == 0xf8 || a >= 0xfb)
    { *k1 = K_ANY; *k2 = K_ANY; return; }        /* not assigned by DWARF 4 / vendor opcodes this table does not describe: unconstrained */
  if (a == 0xf2) { *k1 = K_DIE; *k2 = K_SDEC; return; }                                  /* GNU_implicit_pointer: DIE, offset */
  if (a == 0xf3) { *k1 = K_LOCEXPR; return; }                                            /* GNU_entry_value */
  if (a == 0xf4) { *k1 = K_DIE; *k2 = K_BLOCK; return; }                                 /* GNU_const_type: type DIE, value */
  if (a == 0xf5 || a == 0xf6) { *k1 = K_UDEC; *k2 = K_UDEC; return; }                    /* GNU_regval_type, GNU_deref_type */
  if (a == 0xf7 || a == 0xf9 || a == 0xfa) { *k1 = K_UDEC; return; }                    /* GNU_convert, GNU_reinterpret, GNU_parameter_ref */
}
static void check(int h, int kind, unsigned long word)
{
  if (kind == K_ANY) return;
  __CPROVER_assert(h >= 1 && h <= (int)g_nprod, "a producer is returned");
  const mprod *p = &g_prod[h >= 1 && h <= NPROD ? h - 1 : 0];
  if (kind == K_NONE) { __CPROVER_assert(p->kind == P_NONE, "no operand where the encoding has none"); return; }
  if (kind == K_DIE) { __CPROVER_assert(p->kind == P_DIE, "the operand is the referenced DIE"); return; }
  if (kind == K_BLOCK) { __CPROVER_assert(p->kind == P_BLOCK, "the operand is the stored block"); return; }
  if (kind == K_LOCEXPR) { __CPROVER_assert(p->kind == P_LOCEXPR, "the operand is the nested expression"); return; }
  __CPROVER_assert(p->kind == P_CONST, "the operand is a constant");
  __CPROVER_assert(p->c.bits == word, "the constant is the stored operand word");
  __CPROVER_assert(p->c.is_signed == (kind == K_SDEC), "signedness follows the operand's encoding (SLEB128 / fixed signed vs unsigned)");
  __CPROVER_assert(p->c.dom == (kind == K_UHEX ? (const void *)&g_hex_dom : (const void *)&g_dec_dom), "addresses render hexadecimal, other operands decimal");
}

void h_op_operands(void)
{
  Dwarf_Op op; char ctx; mattr attr;
  unsigned char atom = nondet_uchar(); unsigned long number = nondet_ulong(), number2 = nondet_ulong();
  op.atom = atom; op.number = number; op.number2 = number2; op.offset = nondet_ulong();
  int k1, k2; spec(op.atom, &k1, &k2);
  g_nprod = 0; verif_raised = 0;
  int r1 = dwop_number(&ctx, &attr, &op);
  __CPROVER_assert(verif_raised == 0, "no error path when libdw succeeds");
  check(r1, k1, op.number);
  g_nprod = 0;
  int r2 = dwop_number2(&ctx, &attr, &op);
  __CPROVER_assert(verif_raised == 0, "no error path when libdw succeeds");
  check(r2, k2, op.number2);
}
#ifdef VERIF_CONTROL
void h_op_control(void)
{
  Dwarf_Op op; char ctx; mattr attr;
  op.atom = 0x91; op.number = nondet_ulong(); op.number2 = nondet_ulong(); op.offset = 0;
  g_nprod = 0; verif_raised = 0;
  int r1 = dwop_number(&ctx, &attr, &op);
  __CPROVER_assert(g_prod[r1 - 1].c.is_signed == 0, "CONTROL (must fail): DW_OP_fbreg has an unsigned operand");
}
#endif
