"""C17 (slice) -- operands of location-expression operations."""
import os, sys
sys.path.insert(0, os.path.join(os.path.dirname(__file__), '..', '..', 'tools'))
import vlib
from vlib import Job

PID = 'C17'
HERE = os.path.dirname(os.path.abspath(__file__))
OUT = os.path.join(vlib.BUILD, 'c17')
UP = r'(const )?std::unique_ptr<(value_producer<(zw_)?value>|value_cst|(zw_)?value|value_die|\(anonymous namespace\)::null_producer|\(anonymous namespace\)::locexpr_producer|null_producer|locexpr_producer)(, std::default_delete<.*>)?>'
CFG = {
    'names': {'dwop_number': 'dwop_number', 'dwop_number2': 'dwop_number2'},
    'types': {UP: 'int', r'constant': 'mconst', r'(const )?std::(shared_ptr<dwfl_context>|__shared_ptr<dwfl_context.*>)': 'void *',
              r'(struct )?Dwarf_Attribute': 'mattr', r'(struct )?Dwarf_Block': 'mblock', r'(struct )?Dwarf_CU': 'void', r'(struct )?Dwarf_Abbrev': 'void', r'constant_dom': 'void',
              r'Dwarf_Word': 'unsigned long', r'Dwarf_Sword': 'long'},
    'types_are_records': {r'constant': True, r'(struct )?Dwarf_Attribute': True, r'(struct )?Dwarf_Block': True},
    'record_ctypes': ['mconst', 'mattr', 'mblock'],
    'types_prelude': '#include "lx_model.h"\n',
    'globals': {'hex_constant_dom': 'g_hex_dom', 'dec_constant_dom': 'g_dec_dom'},
    'extern': {r'constant::ctor\|.*unsigned long.*': 'mk_const_u', r'constant::ctor\|.*\(const long.*': 'mk_const_s',
               r'std::make_unique\|.*value_cst.*': 'mk_value_cst', r'std::make_unique\|.*null_producer.*': 'mk_null_producer',
               r'std::make_unique\|.*value_die.*': 'mk_value_die', r'std::make_unique\|.*locexpr_producer.*': 'mk_locexpr_producer',
               r'pass_single_value': 'pass_single_value_model', r'\(anonymous namespace\)::pass_single_value': 'pass_single_value_model',
               r'(\(anonymous namespace\)::)?pass_block': 'pass_block_model',
               r'dwarf_getlocation_(die|attr|implicit_value)': 'm_getloc_ok', r'dwarf_formblock': 'm_getloc_ok', r'throw_libdw.*': 'verif_abort',
               r'std::move': 'VERIF_MOVE'},
}
ROOTS = ['dwop_number', 'dwop_number2']

OPW_CFG = {
    'names': {'pred_op_loclist_elem::result': 'pred_op_loclist_elem_result', 'pred_op_loclist_op::result': 'pred_op_loclist_op_result',
              '_ZN20pred_op_loclist_elemC1Ej': 'pred_op_loclist_elem_ctor', '_ZN18pred_op_loclist_opC1Ej': 'pred_op_loclist_op_ctor'},
    'types': {r'value_loclist_elem': 'melem', r'value_loclist_op': 'mopv', r'(struct )?Dwarf_Attribute': 'mattr', r'pred_overload<.*>|pred_overload|pred': 'empty_base'},
    'types_are_records': {r'value_loclist_elem': True, r'value_loclist_op': True, r'(struct )?Dwarf_Attribute': True, r'pred_overload<.*>|pred_overload|pred': True},
    'record_ctypes': ['melem', 'mopv', 'mattr', 'empty_base'],
    'types_prelude': '#include "opw_model.h"\n',
    'extern': {r'value_loclist_elem::get_exprlen': 'MELEM_LEN', r'value_loclist_elem::get_expr': 'MELEM_EXPR', r'value_loclist_op::get_dwop': 'MOPV_DWOP'},
}
OPW_ROOTS = ['pred_op_loclist_elem::result', 'pred_op_loclist_op::result', '_ZN20pred_op_loclist_elemC1Ej', '_ZN18pred_op_loclist_opC1Ej']


def lx_jobs():
    inc = [OUT, os.path.join(vlib.VERIF, 'props'), HERE]
    src = [os.path.join(HERE, 'lx_harness.c'), os.path.join(OUT, 'lx_bodies.c')]
    return [Job('op_operands', src, 'h_op_operands', includes=inc, kind='proof', unwind=3, timeout=300, cbmc_args=['--object-bits', '10'],
                inputs=['atom', 'number', 'number2'], note='dwop_number / dwop_number2 (locexpr_op_values<0>/<1>, loop-free): every opcode 0..255, every pair of operand words'),
            Job('op_control', src, 'h_op_control', includes=inc, defines=['VERIF_CONTROL'], kind='control', expect='fail', unwind=3, timeout=300,
                cbmc_args=['--object-bits', '10'])]


def jobs(tier):
    inc = [OUT, os.path.join(vlib.VERIF, 'props'), HERE]
    src = [os.path.join(HERE, 'opw_harness.c'), os.path.join(OUT, 'opw_bodies.c')]
    return lx_jobs() + [
        Job('bounded_op_words', src, 'hb_op_words', includes=inc, kind='bounded', unwind=6, timeout=300, cbmc_args=['--object-bits', '10'], inputs=['code', 'k'],
            note='?OP_x on an element (<= 4 operations) and on an operation, any opcode 0..255'),
        Job('op_words_control', src, 'hb_op_words_control', includes=inc, defines=['VERIF_CONTROL'], kind='control', expect='fail', unwind=6, timeout=300,
            cbmc_args=['--object-bits', '10'])]


LEVEL = 'proof'
TRUSTED = ['tools/cxx2c.py lowering', 'the operand table in props/c17/lx_harness.c, written from the DWARF 4 standard and the GNU extension descriptions']
ASSUMPTIONS = [
    'constant, value_cst, the producers, value_die, pass_block, locexpr_producer and the dwarf_getlocation_* calls are modelled (props/c17/lx_model.h): only WHICH operand kind, WHICH stored word, signedness and radix domain are checked',
    'DWARF 5 opcodes 0xa0..0xa9, opcodes DWARF 4 does not assign and vendor opcodes other than the GNU ones listed are left unconstrained',
    'SLICE of C17: location-list iteration (address ranges, elem/relem/length), offsets and opcodes of operations, and all of the abbreviation words are NOT covered; ?OP_x is (bounded to 4 operations per element)',
]
EXPLANATION = 'Operand decoding of location-expression operations only; see DESIGN.md section 4 C17.'


def spec_files():
    return [os.path.join(HERE, f) for f in ('lx_harness.c', 'lx_model.h', 'opw_harness.c', 'opw_model.h')]


def prepare(tier):
    lw = vlib.extract('lx', 'libzwerg/atval.cc', CFG, ROOTS, OUT)
    ow = vlib.extract('opw', 'libzwerg/builtin-dw.cc', OPW_CFG, OPW_ROOTS, OUT)
    return {'unit': 'libzwerg/atval.cc (locexpr_op_values), libzwerg/builtin-dw.cc (?OP_x predicates)', 'functions': lw.report['functions'] + ow.report['functions']}


NOPERANDS = {'addr': 1, 'call_ref': 1, 'const1u': 1, 'const2u': 1, 'const4u': 1, 'const8u': 1, 'constu': 1, 'const1s': 1, 'const2s': 1,
             'const4s': 1, 'const8s': 1, 'consts': 1, 'pick': 1, 'plus_uconst': 1, 'regx': 1, 'piece': 1, 'deref_size': 1, 'xderef_size': 1,
             'call2': 1, 'call4': 1, 'bra': 1, 'skip': 1, 'fbreg': 1, 'bregx': 2, 'bit_piece': 2, 'implicit_value': 1, 'GNU_implicit_pointer': 2,
             'GNU_entry_value': 1, 'GNU_const_type': 2, 'GNU_regval_type': 2, 'GNU_deref_type': 2, 'GNU_convert': 1, 'GNU_reinterpret': 1,
             'GNU_parameter_ref': 1}
NOPERANDS.update({'breg%d' % i: 1 for i in range(32)})


SPEC1 = {}
for _n in ('addr', 'call_ref'):
    SPEC1[_n] = 'uhex'


def expected_operands(atom):
    """(first, second) operand kinds for an opcode number; same table as the harness, for the native replay"""
    u1 = {0x08, 0x0a, 0x0c, 0x0e, 0x10, 0x15, 0x23, 0x90, 0x93, 0x94, 0x95, 0x98, 0x99, 0xf7, 0xf9, 0xfa}
    s1 = {0x09, 0x0b, 0x0d, 0x0f, 0x11, 0x28, 0x2f, 0x91} | set(range(0x70, 0x90))
    if atom in (0x03, 0x9a): return ('uhex', 'none')
    if atom in u1: return ('udec', 'none')
    if atom in s1: return ('sdec', 'none')
    if atom == 0x92: return ('udec', 'sdec')
    if atom in (0x9d, 0xf5, 0xf6): return ('udec', 'udec')
    return None       # operands that need libdw (DIE, block, nested expression), none, or unconstrained


def replay_cex(r):
    import glob
    import re
    def num(x):
        m = re.match(r'\s*(-?\d+)', str(x))
        return int(m.group(1)) if m else None
    atom, n1, n2 = num(r.cex.get('atom')), num(r.cex.get('number', 0)), num(r.cex.get('number2', 0))
    if atom is None or n1 is None or n2 is None:
        return None
    atom, n1, n2 = atom & 0xff, n1 & (2**64 - 1), n2 & (2**64 - 1)
    exp = expected_operands(atom)
    if exp is None:
        return None
    bdir = os.path.join(vlib.REPO, '_build')
    vlib.run(['cmake', '--build', bdir, '-j16', '--', '-k', '0'], timeout=1800, mem_gb=32)
    objs = []
    for d in ('TestZwAux', 'LibzwergCore', 'LibzwergDw'):
        objs += glob.glob(os.path.join(bdir, 'libzwerg/CMakeFiles/%s.dir/*.o' % d))
    exe = os.path.join(OUT, 'native_driver')
    vlib.native(['g++', '-std=c++14', '-O1', '-I%s/libzwerg' % vlib.REPO, '-I%s/libzwerg' % bdir, '-I' + bdir,
                 os.path.join(HERE, 'native_driver.cc')] + objs + ['-rdynamic', '-o', exe, '-ldw', '-lelf'])
    rc, out, err, w = vlib.run([exe, str(atom), str(n1), str(n2)], timeout=30)
    got = [l for l in out.split('\n') if l.startswith('operand')]
    bad = []
    for i, (kind, word) in enumerate(zip(exp, (n1, n2))):
        line = got[i] if i < len(got) else 'operand%d (no output)' % (i + 1)
        if kind == 'none':
            ok = line.endswith(' none')
        else:
            want = 'const bits=%d signed=%d dom=%s' % (word, 1 if kind == 'sdec' else 0, 'hex' if kind == 'uhex' else 'dec')
            ok = line.endswith(want)
        if not ok:
            bad.append('DW_OP 0x%02x number=%d number2=%d: real code gives `%s`, the encoding says %s' % (atom, n1, n2, line, kind))
    return {'reproduced': bool(bad), 'violations_on_real_code': bad, 'input': {'atom': atom, 'number': n1, 'number2': n2}}


def replay(r):
    if getattr(r, 'cex', None):
        rc = replay_cex(r)
        if rc is not None and rc.get('reproduced'):
            return rc
    return replay_files(r)


def replay_files(r):
    """The sample files of the repository, through the real library with the DWARF vocabulary: every operation of every
    location expression yields as many operands as its encoding has (0, 1 or 2)."""
    import re
    tdir = os.path.join(vlib.REPO, 'tests')
    files = [f for f in ('a1.out', 'aranges.o', 'bitcount.o', 'nullptr.o', 'testfile_const_type', 'nontrivial-types.o') if os.path.exists(os.path.join(tdir, f))]
    qs = ['"%s" dwopen (|D| [D entry attribute value ?(type T_LOCLIST_ELEM) elem (|O| [O label, [O value] length])])' % os.path.join(tdir, f) for f in files]
    if not qs:
        return {'reproduced': False, 'note': 'no sample files'}
    res = vlib.zw_queries(qs, OUT, dw=True)
    bad, seen = [], 0
    for f, (c, t) in zip(files, res):
        if c is None:
            bad.append('%s: error %s' % (f, t))
            continue
        for m in re.finditer(r'\[(\w+), (\d+)\]', t):
            seen += 1
            exp = NOPERANDS.get(m.group(1), 0)
            if int(m.group(2)) != exp:
                bad.append('%s: DW_OP_%s yields %s operand(s), its encoding has %d' % (f, m.group(1), m.group(2), exp))
    # ?OP_x on an element agrees with "some operation of the element is ?OP_x"
    laws, names = [], []
    for f in files:
        for opn in ('fbreg', 'stack_value', 'call_frame_cfa', 'and', 'breg5', 'GNU_deref_type', 'addr', 'plus_uconst'):
            laws.append('"%s" dwopen (|D| [D entry attribute value ?(type T_LOCLIST_ELEM) ?OP_%s] length == [D entry attribute value ?(type T_LOCLIST_ELEM) ?(elem ?OP_%s)] length)'
                        % (os.path.join(tdir, f), opn, opn))
            names.append((f, opn))
    for (f, opn), (c, t) in zip(names, vlib.zw_queries(laws, OUT, dw=True)):
        if c != 1:
            bad.append('%s: ?OP_%s on elements disagrees with the operations they contain' % (f, opn))
    return {'reproduced': bool(bad), 'violations_on_real_library': sorted(set(bad))[:6], 'operations_checked': seen}
