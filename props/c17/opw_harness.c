/* C17 (slice, BOUNDED length <= 4): `?OP_x` on a location-expression element holds iff some operation of the element has
   that opcode; on a single operation iff it has that opcode -- pred_op_loclist_elem / pred_op_loclist_op of builtin-dw.cc,
   built by their real constructors from the opcode number (0..255) the word stands for. */
#include "opw_types.h"
#include "opw_protos.h"
int verif_raised;
unsigned nondet_uint(void); unsigned char nondet_uchar(void); unsigned long nondet_ulong(void);
#define MAXOPS 4

void hb_op_words(void)
{
  Dwarf_Op ops[MAXOPS]; melem e; mopv o;
  unsigned code = nondet_uint(); __CPROVER_assume(code <= 255);
  e.len = nondet_ulong(); __CPROVER_assume(e.len <= MAXOPS); e.expr = ops;
  _Bool present = 0;
  for (unsigned i = 0; i < MAXOPS; ++i) { ops[i].atom = nondet_uchar(); if (i < e.len && ops[i].atom == code) present = 1; }
  pred_op_loclist_elem pe = pred_op_loclist_elem_ctor(code);
  verif_raised = 0;
  pred_result r = pred_op_loclist_elem_result(&pe, &e);
  __CPROVER_assert(verif_raised == 0, "no error");
  __CPROVER_assert(r == (present ? pred_result__yes : pred_result__no), "?OP_x on an element holds iff some operation of the element has that opcode");
  unsigned k = nondet_uint(); __CPROVER_assume(k < MAXOPS);
  o.dwop = &ops[k];
  pred_op_loclist_op po = pred_op_loclist_op_ctor(code);
  pred_result r2 = pred_op_loclist_op_result(&po, &o);
  __CPROVER_assert(r2 == (ops[k].atom == code ? pred_result__yes : pred_result__no), "?OP_x on an operation holds iff it has that opcode");
}
#ifdef VERIF_CONTROL
void hb_op_words_control(void)
{
  Dwarf_Op ops[MAXOPS]; melem e; e.len = 2; e.expr = ops; ops[0].atom = 0x91; ops[1].atom = 0x9f;
  pred_op_loclist_elem pe = pred_op_loclist_elem_ctor(0x9f);
  __CPROVER_assert(pred_op_loclist_elem_result(&pe, &e) == pred_result__no, "CONTROL (must fail): an opcode that is present is not found");
}
#endif
