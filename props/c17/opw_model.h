/* Model for ?OP_x on a location-expression element / operation (TRUSTED): a value_loclist_elem is {expr, exprlen},
 * a value_loclist_op points at its Dwarf_Op; the predicate base classes carry nothing. */
#ifndef C17_OPW_MODEL_H
#define C17_OPW_MODEL_H
#include "../common.h"
#include <stddef.h>
struct Dwarf_Op_m;
typedef struct empty_base { char unused; } empty_base;
typedef struct mattr { char unused; } mattr;
typedef struct melem { void *expr; unsigned long len; } melem;
typedef struct mopv { void *dwop; } mopv;
#define MELEM_LEN(e) ((e)->len)
#define MELEM_EXPR(e) ((Dwarf_Op *)(e)->expr)
#define MOPV_DWOP(o) ((Dwarf_Op *)(o)->dwop)
#endif
