// Native replay for C17: calls the REAL dwop_number / dwop_number2 (atval.cc, linked from /repo/_build) on one
// Dwarf_Op and prints what each produces.   usage: native_driver ATOM NUMBER NUMBER2
#include <cstdio>
#include <cstdlib>
#include <memory>
#include <elfutils/libdw.h>
#include "atval.hh"
#include "value-cst.hh"
#include "constant.hh"
int main (int argc, char **argv)
{
  if (argc < 4) return 2;
  Dwarf_Op op {};
  op.atom = (uint8_t) strtoul (argv[1], 0, 0);
  op.number = strtoull (argv[2], 0, 0);
  op.number2 = strtoull (argv[3], 0, 0);
  Dwarf_Attribute at {};
  for (int which = 1; which <= 2; ++which)
    {
      try
	{
	  auto p = which == 1 ? dwop_number (nullptr, at, &op) : dwop_number2 (nullptr, at, &op);
	  auto v = p->next ();
	  if (v == nullptr)
	    printf ("operand%d none\n", which);
	  else if (auto c = value::as <value_cst> (v.get ()))
	    {
	      auto const &k = c->get_constant ();
	      printf ("operand%d const bits=%lu signed=%d dom=%s\n", which, (unsigned long) k.value ().uval (),
		      (int) k.value ().is_signed (), k.dom () ? k.dom ()->name () : "(none)");
	    }
	  else
	    printf ("operand%d other\n", which);
	}
      catch (std::exception &e)
	{
	  printf ("operand%d exception %s\n", which, e.what ());
	}
    }
  return 0;
}
