/* Model for the lowering of locexpr_op_values (atval.cc) (TRUSTED):
 *   constant (value, dom)          a record {bits, is_signed, dom}: the templated constructor is instantiated for
 *                                  Dwarf_Word (unsigned) and Dwarf_Sword (signed) values
 *   make_unique<value_cst>(c, pos) / pass_single_value(v)   a producer of that one constant: logged
 *   make_unique<null_producer>()   the producer of nothing
 *   value_die / pass_block / locexpr_producer               producers of a DIE / a block / a nested expression
 *   dwarf_getlocation_die/_attr/_implicit_value, dwarf_formblock   succeed
 * A producer is a handle into g_prod[]. */
#ifndef C17_LX_MODEL_H
#define C17_LX_MODEL_H
#include "../common.h"
typedef struct mattr { char unused; } mattr;
typedef struct mblock { char unused; } mblock;
typedef struct mconst { unsigned long bits; int is_signed; const void *dom; } mconst;
enum { P_NONE = 0, P_CONST = 1, P_DIE = 2, P_BLOCK = 3, P_LOCEXPR = 4 };
typedef struct mprod { int kind; mconst c; } mprod;
#define NPROD 8
extern mprod g_prod[NPROD]; extern unsigned g_nprod;
extern const char g_hex_dom, g_dec_dom;
#ifdef VERIF_CBMC
#define M_ASSERT(c, msg) __CPROVER_assert(c, "locexpr model: " msg)
#else
#define M_ASSERT(c, msg) ((c) ? (void)0 : verif_assert_fail("locexpr model: " msg))
#endif
#define PTR_ID(p) (p)
#define VERIF_MOVE(p) (p)
static inline int new_prod(int kind) { M_ASSERT(g_nprod < NPROD, "producer table large enough"); unsigned i = g_nprod < NPROD ? g_nprod++ : 0; g_prod[i].kind = kind; return (int)i + 1; }
static inline mconst mk_const_u(const unsigned long *v, const void *dom) { mconst c; c.bits = *v; c.is_signed = 0; c.dom = dom; return c; }
static inline mconst mk_const_s(const long *v, const void *dom) { mconst c; c.bits = (unsigned long)*v; c.is_signed = 1; c.dom = dom; return c; }
static inline int mk_value_cst(const mconst *c, const int *pos) { int h = new_prod(P_CONST); g_prod[h - 1].c = *c; return h; }
static inline int pass_single_value_model(int v) { return v; }
static inline int mk_null_producer(void) { return new_prod(P_NONE); }
#define mk_value_die(...) new_prod(P_DIE)
static inline int pass_block_model(const void *b) { return new_prod(P_BLOCK); }
#define mk_locexpr_producer(...) new_prod(P_LOCEXPR)
#define m_getloc_ok(...) 0
#endif
