/* The three machine operators of int.cc that no back end handles inside the case analysis, as
   one-line functions.  cxx2c prints  a*b, a/b, a%b  on uint64_t in mpz_mul/mpz_div/mpz_mod as
   calls of these (cfg arith_hooks); the bodies are the operators themselves, so the extracted
   text computes exactly what the repository text computes.  Contracts: spec.h. */
#ifdef VERIF_CBMC
#include "spec.h"
uint64_t g_mul_a, g_mul_b;
#define GHOST_MUL(a, b) (g_mul_a = (a), g_mul_b = (b))
#else
#include "../common.h"
#define GHOST_MUL(a, b) ((void)0)
#endif

uint64_t verif_umul64(uint64_t a, uint64_t b) { GHOST_MUL(a, b); return a * b; }
uint64_t verif_udiv64(uint64_t x, uint64_t y) { return x / y; }
uint64_t verif_urem64(uint64_t x, uint64_t y) { return x % y; }
