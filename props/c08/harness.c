/* C08 harnesses: one entry point per function under contract.  Operands are built from a
   nondet 64-bit word and a nondet representation bit (CBMC gives the members of a nondet
   anonymous union independent values, so a nondet struct would be unsound to start from). */
#include "spec.h"
#include "int_protos.h"

int verif_raised;

uint64_t nondet_u64(void);
_Bool nondet_bool(void);
int nondet_int(void);

static mpz_class mk(uint64_t u, _Bool s)
{
  mpz_class v;
  v.m_u = u;
  v.m_sign = s ? SGN : UNS;
  return v;
}

#define OPERANDS2                                                              \
  uint64_t a_u = nondet_u64(); _Bool a_s = nondet_bool();                      \
  uint64_t b_u = nondet_u64(); _Bool b_s = nondet_bool();                      \
  mpz_class a = mk(a_u, a_s), b = mk(b_u, b_s);                                \
  verif_raised = 0;

#ifdef VERIF_COVER
#define REACH(c) __CPROVER_cover(c)
#else
#define REACH(c)
#endif

void h_lt(void) { OPERANDS2 mpz_lt(a, b); }
void h_eq(void) { OPERANDS2 mpz_eq(a, b); }
void h_le(void) { OPERANDS2 mpz_le(a, b); }
void h_gt(void) { OPERANDS2 mpz_gt(a, b); }
void h_ge(void) { OPERANDS2 mpz_ge(a, b); }
void h_ne(void) { OPERANDS2 mpz_ne(a, b); }
void h_from_int(void) { int a_i = nondet_int(); mpz_from_int(a_i); }
void h_neg(void) { OPERANDS2 mpz_neg(a); }
void h_add(void) { OPERANDS2 mpz_add(a, b); }
void h_sub(void) { OPERANDS2 mpz_sub(a, b); }

void h_mul(void) { OPERANDS2 mpz_mul(a, b); }
void h_div(void) { OPERANDS2 mpz_div(a, b); }
void h_mod(void) { OPERANDS2 mpz_mod(a, b); }

/* primitives: enforced with MULLO/MULHI/UDIV/UREM concrete and the ghost words unconstrained, so
   the lemma instances in their contracts are proved for all values of the ghosts */
void h_umul64(void) { uint64_t x = nondet_u64(), y = nondet_u64(); verif_umul64(x, y); }
void h_udiv64(void)
{
  uint64_t x = nondet_u64(), y = nondet_u64();
  g_mul_a = nondet_u64(); g_mul_b = nondet_u64();
  verif_udiv64(x, y);
}
void h_urem64(void) { uint64_t x = nondet_u64(), y = nondet_u64(); verif_urem64(x, y); }

/* termination of the add/sub mutual recursion: whole bodies, no contract replaced, recursion
   unwound 4 times with unwinding assertions over fully symbolic operands. */
void h_term_add(void) { OPERANDS2 mpz_add(a, b); }
void h_term_sub(void) { OPERANDS2 mpz_sub(a, b); }

#ifdef VERIF_CONTROL
/* must-fail control: a deliberately false claim behind the same preconditions; if this does
   not FAIL the harness is vacuous. */
void h_control(void)
{
  OPERANDS2
  mpz_class r = mpz_add(a, b);
  __CPROVER_assert(verif_raised != 0, "CONTROL (must fail): add always overflows");
}
#endif
