/* Model of std::stoull(const std::string &, size_t *pos, int base) (TRUSTED; assumed contract on
 * libstdc++/glibc strtoull): skips leading white space, accepts an optional sign (a '-' negates
 * in unsigned arithmetic, as strtoull does), an optional 0x/0X prefix when base is 16, then
 * consumes digits valid in the base; no digits -> std::invalid_argument; value above 2^64-1 ->
 * std::out_of_range; *pos = number of characters consumed.
 * The string is the (pointer, length) pair it was constructed from. */
#ifndef C08_STOULL_MODEL_H
#define C08_STOULL_MODEL_H
#include "../common.h"
#ifndef VERIF_STR_DEFINED
#define VERIF_STR_DEFINED
typedef struct verif_str { const char *p; size_t n; } verif_str;
#endif
#ifndef VERIF_MKSTR
#define VERIF_MKSTR(p, n) ((verif_str){(p), (n)})
#endif
#define EXC_RUNTIME_ERROR 2
#define EXC_OUT_OF_RANGE 3
#define EXC_INVALID_ARGUMENT 4
#define EXC_DOMAIN_ERROR 1

static inline int stoull_digit(char c)
{
  if (c >= '0' && c <= '9') return c - '0';
  if (c >= 'a' && c <= 'z') return c - 'a' + 10;
  if (c >= 'A' && c <= 'Z') return c - 'A' + 10;
  return 99;
}

static inline unsigned long long verif_stoull(const verif_str *s, size_t *pos, int base)
{
  size_t i = 0;
  _Bool neg = 0;
  while (i < s->n && (s->p[i] == ' ' || (s->p[i] >= '\t' && s->p[i] <= '\r')))
    ++i;
  if (i < s->n && (s->p[i] == '+' || s->p[i] == '-'))
    { neg = s->p[i] == '-'; ++i; }
  if (base == 16 && i + 1 < s->n && s->p[i] == '0' && (s->p[i + 1] == 'x' || s->p[i + 1] == 'X')
      && i + 2 < s->n && stoull_digit(s->p[i + 2]) < 16)
    i += 2;
  size_t first = i;
  unsigned long long v = 0;
  _Bool ovf = 0;
  while (i < s->n && stoull_digit(s->p[i]) < base)
    {
      unsigned long long d = (unsigned long long)stoull_digit(s->p[i]);
      if (v > (0xffffffffffffffffULL - d) / (unsigned long long)base)
        ovf = 1;
      v = v * (unsigned long long)base + d;
      ++i;
    }
  if (i == first)
    { verif_raised = EXC_INVALID_ARGUMENT; return 0; }
  if (ovf)
    { verif_raised = EXC_OUT_OF_RANGE; return 0; }
  if (pos)
    *pos = i;
  return neg ? 0ULL - v : v;
}
#endif
