/* C08 (literals) bounded harness: every token text of length <= PARSE_MAXLEN matching the scanner's
   rule "-"?[0-9][_a-zA-Z0-9]* is given to the lowered parse_int (with the lowered bodies of the
   integer class linked in).  BOUNDED in the literal length; all characters symbolic. */
#include "parse_spec.h"
int verif_raised;
zw_cdom g_dom_hex, g_dom_bin, g_dom_oct, g_dom_dec;
unsigned char nondet_uchar(void);
size_t nondet_size(void);

static _Bool isalnum_(char c)
{ return c == '_' || (c >= '0' && c <= '9') || (c >= 'a' && c <= 'z') || (c >= 'A' && c <= 'Z'); }

#define VALC(v) ((v).m_sign == signedness__sign ? (i128)(v).m_i : (i128)(v).m_u)

static void check_literal(char *text, size_t n, size_t k);

void hb_parse_int(void)
{
  char text[PARSE_MAXLEN + 1];
  size_t n = nondet_size();
  __CPROVER_assume(n >= 1 && n <= PARSE_MAXLEN);
  text[n] = 0;
  size_t k = 0;
  if (text[0] == '-') k = 1;
  __CPROVER_assume(k < n && text[k] >= '0' && text[k] <= '9');
  for (size_t i = 0; i < PARSE_MAXLEN; ++i)
    __CPROVER_assume(i <= k || i >= n || isalnum_(text[i]));
  check_literal(text, n, k);
}

static void check_literal(char *text, size_t n, size_t k)
{
  strlit s; s.buf = text; s.len = n;
  verif_raised = 0;
  constant c = parse_int(s);
  i128 want = 0; int radix = 0;
  _Bool ok = lit_value(text, n, &want, &radix);
  /* Observation, not part of the property: std::stoull in base 16 itself accepts a 0x prefix, so
     "0x0x1f" is accepted (as 0x1f) although it is not a well-formed literal.  The property says
     nothing about malformed literals being rejected, so this one shape is left unconstrained. */
  _Bool double_hex_prefix = n >= k + 5 && text[k] == '0' && (text[k + 1] == 'x' || text[k + 1] == 'X')
                            && text[k + 2] == '0' && (text[k + 3] == 'x' || text[k + 3] == 'X');
  __CPROVER_assert(double_hex_prefix || ok == (verif_raised == 0),
                   "a literal is accepted iff it is well formed and its exact value lies in [-2^63, 2^64-1]");
  if (ok && verif_raised == 0)
    {
      __CPROVER_assert(c.m_value.m_sign == signedness__sign || c.m_value.m_sign == signedness__unsign, "result is a valid integer");
      __CPROVER_assert(VALC(c.m_value) == want, "an accepted literal denotes its exact value");
      __CPROVER_assert(c.m_dom == (radix == 16 ? &g_dom_hex : radix == 8 ? &g_dom_oct : radix == 2 ? &g_dom_bin : &g_dom_dec),
                       "the literal's domain is the one of its radix prefix");
    }
}

/* long literals of a fixed shape, so that the range boundaries (2^63, 2^64) are reached:
   "-"? 0x h{16}   and   "-"? d{20}   with every digit symbolic */
static _Bool ishex_(char c) { return (c >= '0' && c <= '9') || (c >= 'a' && c <= 'f') || (c >= 'A' && c <= 'F'); }

void hb_parse_hex16(void)
{
  char text[PARSE_MAXLEN + 1];
  _Bool neg = nondet_uchar() & 1;
  size_t k = neg ? 1 : 0, n = k + 18;
  if (neg) text[0] = '-';
  text[k] = '0';
  __CPROVER_assume(text[k + 1] == 'x' || text[k + 1] == 'X');
  for (size_t i = 0; i < 16; ++i)
    __CPROVER_assume(ishex_(text[k + 2 + i]));
  text[n] = 0;
  check_literal(text, n, k);
}

/* decimal literals around the two range boundaries: the leading 13/14 digits of 2^63 resp. 2^64
   are fixed, the last six digits are symbolic (generic 20-digit decimal text is out of reach of
   the solver: measured timeout at 1500 s) */
void hb_parse_dec_boundary(void)
{
  char text[PARSE_MAXLEN + 1];
  _Bool neg = nondet_uchar() & 1;
  _Bool top = nondet_uchar() & 1;
  const char *pre = top ? "18446744073709" : "9223372036854";
  size_t pl = top ? 14 : 13;
  size_t k = neg ? 1 : 0, n = k + pl + 6;
  if (neg) text[0] = '-';
  for (size_t i = 0; i < 14; ++i)
    if (i < pl) text[k + i] = pre[i];
  for (size_t i = 0; i < 6; ++i)
    __CPROVER_assume(text[k + pl + i] >= '0' && text[k + pl + i] <= '9');
  text[n] = 0;
  check_literal(text, n, k);
}
