// Native driver for C08: links the REAL libzwerg/int.cc (compiled from /repo's working tree on
// every run) together with the C text extracted from it.
//   replay OP a_u a_s b_u b_s     -> behaviour of the real code on one input
//   fidelity SEED N               -> real code vs extracted C on lattice + N random pairs
//   sweep SEED N                  -> real code vs an exact 128-bit oracle (testing; supporting only)
#include <cassert>
#include <cstdint>
#include <cstdio>
#include <cstdlib>
#include <cstring>
#include <stdexcept>
#include <string>
#include <vector>
#include "int.hh"

extern "C" {
typedef struct { union { unsigned long m_u; long m_i; }; int m_sign; } c_mpz;
extern int verif_raised;
c_mpz mpz_neg (c_mpz); c_mpz mpz_add (c_mpz, c_mpz); c_mpz mpz_sub (c_mpz, c_mpz);
c_mpz mpz_mul (c_mpz, c_mpz); c_mpz mpz_div (c_mpz, c_mpz); c_mpz mpz_mod (c_mpz, c_mpz);
bool mpz_lt (c_mpz, c_mpz); bool mpz_eq (c_mpz, c_mpz); bool mpz_le (c_mpz, c_mpz);
bool mpz_gt (c_mpz, c_mpz); bool mpz_ge (c_mpz, c_mpz); bool mpz_ne (c_mpz, c_mpz);
}
int verif_raised;

static const char *OPS[] = {"neg", "add", "sub", "mul", "div", "mod",
			    "lt", "eq", "le", "gt", "ge", "ne"};

struct outcome { bool raised; bool is_bool; bool b; uint64_t u; bool sign; std::string msg; };

static mpz_class mk (uint64_t u, bool s)
{ return mpz_class {u, s ? signedness::sign : signedness::unsign}; }

static outcome real (int op, uint64_t au, bool as, uint64_t bu, bool bs)
{
  mpz_class a = mk (au, as), b = mk (bu, bs);
  outcome o {false, false, false, 0, false, ""};
  try
    {
      mpz_class r;
      switch (op)
	{
	case 0: r = -a; break;
	case 1: r = a + b; break;
	case 2: r = a - b; break;
	case 3: r = a * b; break;
	case 4: r = a / b; break;
	case 5: r = a % b; break;
	case 6: o.is_bool = true; o.b = a < b; return o;
	case 7: o.is_bool = true; o.b = a == b; return o;
	case 8: o.is_bool = true; o.b = a <= b; return o;
	case 9: o.is_bool = true; o.b = a > b; return o;
	case 10: o.is_bool = true; o.b = a >= b; return o;
	case 11: o.is_bool = true; o.b = a != b; return o;
	}
      o.u = r.m_u;
      o.sign = r.m_sign == signedness::sign;
    }
  catch (std::domain_error &e)
    {
      o.raised = true;
      o.msg = e.what ();
    }
  return o;
}

static outcome extracted (int op, uint64_t au, bool as, uint64_t bu, bool bs)
{
  c_mpz a, b;
  a.m_u = au; a.m_sign = as ? 1 : 0;
  b.m_u = bu; b.m_sign = bs ? 1 : 0;
  outcome o {false, false, false, 0, false, ""};
  verif_raised = 0;
  c_mpz r;
  switch (op)
    {
    case 0: r = mpz_neg (a); break;
    case 1: r = mpz_add (a, b); break;
    case 2: r = mpz_sub (a, b); break;
    case 3: r = mpz_mul (a, b); break;
    case 4: r = mpz_div (a, b); break;
    case 5: r = mpz_mod (a, b); break;
    case 6: o.is_bool = true; o.b = mpz_lt (a, b); return o;
    case 7: o.is_bool = true; o.b = mpz_eq (a, b); return o;
    case 8: o.is_bool = true; o.b = mpz_le (a, b); return o;
    case 9: o.is_bool = true; o.b = mpz_gt (a, b); return o;
    case 10: o.is_bool = true; o.b = mpz_ge (a, b); return o;
    case 11: o.is_bool = true; o.b = mpz_ne (a, b); return o;
    }
  if (verif_raised)
    {
      o.raised = true;
      return o;
    }
  o.u = r.m_u;
  o.sign = r.m_sign == 1;
  return o;
}

// ---- exact oracle: sign + 128-bit magnitude ------------------------------------------------
typedef unsigned __int128 u128;
struct big { bool neg; u128 mag; };
static big val (uint64_t u, bool s)
{
  if (s && (int64_t) u < 0)
    return big {true, (u128) (0 - u)};
  return big {false, (u128) u};
}
static big norm (big x) { if (x.mag == 0) x.neg = false; return x; }
static big bneg (big x) { x.neg = !x.neg; return norm (x); }
static big badd (big a, big b)
{
  if (a.neg == b.neg) return norm (big {a.neg, a.mag + b.mag});
  if (a.mag >= b.mag) return norm (big {a.neg, a.mag - b.mag});
  return norm (big {b.neg, b.mag - a.mag});
}
static int bcmp (big a, big b)
{
  a = norm (a); b = norm (b);
  if (a.neg != b.neg) return a.neg ? -1 : 1;
  if (a.mag == b.mag) return 0;
  bool lt = a.mag < b.mag;
  return (lt != a.neg) ? -1 : 1;
}
static bool inrange (big x)
{
  x = norm (x);
  if (x.neg) return x.mag <= ((u128) 1 << 63);
  return x.mag <= (u128) UINT64_MAX;
}
// expected: raised? else exact value
static bool oracle (int op, big a, big b, big &out, bool &bres)
{
  switch (op)
    {
    case 0: out = bneg (a); break;
    case 1: out = badd (a, b); break;
    case 2: out = badd (a, bneg (b)); break;
    case 3: out = norm (big {a.neg != b.neg, a.mag * b.mag}); break;
    case 4: case 5:
      {
	if (b.mag == 0) return false;
	u128 q = a.mag / b.mag, r = a.mag % b.mag;
	bool neg = a.neg != b.neg;
	if (neg && r != 0) q += 1;		// floor
	big Q = norm (big {neg, q});
	if (op == 4) { out = Q; break; }
	// remainder = a - b*Q, has the divisor's sign
	big prod = norm (big {b.neg != Q.neg, b.mag * Q.mag});
	out = badd (a, bneg (prod));
	break;
      }
    case 6: bres = bcmp (a, b) < 0; return true;
    case 7: bres = bcmp (a, b) == 0; return true;
    case 8: bres = bcmp (a, b) <= 0; return true;
    case 9: bres = bcmp (a, b) > 0; return true;
    case 10: bres = bcmp (a, b) >= 0; return true;
    case 11: bres = bcmp (a, b) != 0; return true;
    }
  return inrange (out);
}

static uint64_t rng_state;
static uint64_t rnd ()
{
  rng_state ^= rng_state << 13; rng_state ^= rng_state >> 7; rng_state ^= rng_state << 17;
  return rng_state;
}

static std::vector<uint64_t> lattice ()
{
  std::vector<uint64_t> v;
  for (int d = -2; d <= 2; ++d) v.push_back ((uint64_t) d);
  for (int k = 1; k < 64; ++k)
    for (int d = -1; d <= 1; ++d)
      {
	v.push_back (((uint64_t) 1 << k) + d);
	v.push_back ((uint64_t) 0 - (((uint64_t) 1 << k) + d));
      }
  return v;
}

static void show (int op, uint64_t au, bool as, uint64_t bu, bool bs)
{
  printf ("%s a_u=%lu a_s=%d b_u=%lu b_s=%d", OPS[op], au, (int) as, bu, (int) bs);
}

int main (int argc, char **argv)
{
  if (argc < 2) return 2;
  std::string mode = argv[1];
  if (mode == "replay")
    {
      int op = -1;
      for (int i = 0; i < 12; ++i) if (!strcmp (argv[2], OPS[i])) op = i;
      if (op < 0) return 2;
      uint64_t au = strtoull (argv[3], 0, 10), bu = strtoull (argv[5], 0, 10);
      bool as = atoi (argv[4]), bs = atoi (argv[6]);
      outcome o = real (op, au, as, bu, bs);
      if (o.raised) printf ("raise %s\n", o.msg.c_str ());
      else if (o.is_bool) printf ("bool %d\n", (int) o.b);
      else printf ("value %lu %d\n", o.u, (int) o.sign);
      return 0;
    }
  rng_state = strtoull (argv[2], 0, 10) * 0x9E3779B97F4A7C15ull + 88172645463325252ull;
  long n = atol (argv[3]);
  std::vector<uint64_t> L = lattice ();
  long evals = 0, bad = 0;
  auto one = [&] (int op, uint64_t au, bool as, uint64_t bu, bool bs)
    {
      ++evals;
      outcome r = real (op, au, as, bu, bs);
      if (mode == "fidelity")
	{
	  outcome e = extracted (op, au, as, bu, bs);
	  bool same = r.raised == e.raised && r.is_bool == e.is_bool
	    && (r.raised || (r.is_bool ? r.b == e.b : (r.u == e.u && r.sign == e.sign)));
	  if (!same && bad++ < 5) { printf ("DISAGREE "); show (op, au, as, bu, bs); printf ("\n"); }
	}
      else
	{
	  big exp; bool bres = false;
	  bool ok = oracle (op, val (au, as), val (bu, bs), exp, bres);
	  bool good;
	  if (r.is_bool) good = r.b == bres;
	  else if (!ok) good = r.raised;
	  else good = !r.raised && bcmp (val (r.u, r.sign), exp) == 0;
	  if (!good)
	    {
	      if (bad++ < 400000)
		{
		  printf ("MISMATCH "); show (op, au, as, bu, bs);
		  if (r.raised) printf (" got=raise"); else printf (" got=%lu/%d", r.u, (int) r.sign);
		  printf (" expected=%s\n", ok ? "value" : "raise");
		}
	    }
	}
    };
  for (int op = 0; op < 12; ++op)
    for (uint64_t a : L)
      for (int as = 0; as < 2; ++as)
	{
	  if (op == 0) { one (op, a, as, 0, 0); continue; }
	  for (uint64_t b : L)
	    for (int bs = 0; bs < 2; ++bs)
	      one (op, a, as, b, bs);
	}
  for (long i = 0; i < n; ++i)
    {
      int op = rnd () % 12;
      uint64_t a = rnd (), b = rnd ();
      if (rnd () & 1) a >>= rnd () % 64;
      if (rnd () & 1) b >>= rnd () % 64;
      one (op, a, rnd () & 1, b, rnd () & 1);
    }
  printf ("DONE evals=%ld bad=%ld\n", evals, bad);
  return 0;
}
