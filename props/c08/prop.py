"""C08 -- integer arithmetic is exact over [-2^63, 2^64-1] or reports an error."""
import os, sys, json, time
sys.path.insert(0, os.path.join(os.path.dirname(__file__), '..', '..', 'tools'))
import vlib
from vlib import Job

PID = 'C08'
HERE = os.path.dirname(os.path.abspath(__file__))
OUT = os.path.join(vlib.BUILD, 'c08')

CFG = {
    'names': {
        '_Zlt9mpz_classS_': 'mpz_lt', '_Zeq9mpz_classS_': 'mpz_eq', '_Zle9mpz_classS_': 'mpz_le',
        '_Zgt9mpz_classS_': 'mpz_gt', '_Zge9mpz_classS_': 'mpz_ge', '_Zne9mpz_classS_': 'mpz_ne',
        '_Zng9mpz_class': 'mpz_neg', '_Zpl9mpz_classS_': 'mpz_add', '_Zmi9mpz_classS_': 'mpz_sub',
        '_Zml9mpz_classS_': 'mpz_mul', '_Zdv9mpz_classS_': 'mpz_div', '_Zrm9mpz_classS_': 'mpz_mod',
        '_ZN9mpz_classC1Ei': 'mpz_from_int', '_ZN9mpz_classC1El': 'mpz_from_long',
        '_ZN9mpz_classC1Em': 'mpz_from_ulong', '_ZN9mpz_classC1Em10signedness': 'mpz_mk',
        '_ZN9mpz_class4swapERS_': 'mpz_swap',
    },
    'raise': ['(anonymous namespace)::int_error'],
    'extern': {'std::swap': 'VERIF_SWAP'},
    'arith_hooks': {f: {'*|unsigned long': 'verif_umul64', '/|unsigned long': 'verif_udiv64',
                        '%|unsigned long': 'verif_urem64'} for f in ('mpz_mul', 'mpz_div', 'mpz_mod')},
}
ROOTS = ['_Zlt9mpz_classS_', '_Zeq9mpz_classS_', '_Zle9mpz_classS_', '_Zgt9mpz_classS_',
         '_Zge9mpz_classS_', '_Zne9mpz_classS_', '_Zng9mpz_class', '_Zpl9mpz_classS_',
         '_Zmi9mpz_classS_', '_Zml9mpz_classS_', '_Zdv9mpz_classS_', '_Zrm9mpz_classS_']

PARSE_CFG = {
    'names': {'(anonymous namespace)::parse_int': 'parse_int', '_ZN9mpz_classC1Em': 'mpz_from_ulong',
              '_ZN9mpz_classC1Em10signedness': 'mpz_mk'},
    'types': {r'(std::basic_string<char.*>|std::string)': 'verif_str', r'std::allocator<char>': 'int'},
    'types_are_records': {r'(std::basic_string<char.*>|std::string)': True},
    'record_ctypes': ['verif_str'],
    'functor_types': [r'std::allocator<char>'],
    'types_prelude': '#include "stoull_model.h"\n',
    'extern': {r'operator-\|mpz_class \(mpz_class\)': 'mpz_neg', r'std::(__cxx11::)?stoull(\|.*)?': 'verif_stoull',
               r'(std::basic_string<char.*>|std::string)::ctor\|.*': 'VERIF_MKSTR'},
    'extern_may_raise': ['verif_stoull', 'mpz_neg'],
    'exception_kinds': {r'std::runtime_error': 2, r'std::out_of_range': 3, r'std::invalid_argument': 4, r'std::domain_error': 1},
    'globals': {'hex_constant_dom': '(*(const zw_cdom *)&g_dom_hex)', 'bin_constant_dom': '(*(const zw_cdom *)&g_dom_bin)',
                'oct_constant_dom': '(*(const zw_cdom *)&g_dom_oct)', 'dec_constant_dom': '(*(const zw_cdom *)&g_dom_dec)'},
    'bodies_prelude': 'mpz_class mpz_neg(mpz_class v);\nextern zw_cdom g_dom_hex, g_dom_bin, g_dom_oct, g_dom_dec;\n',
}
PARSE_ROOTS = ['(anonymous namespace)::parse_int']

INPUTS = ['a_u', 'a_s', 'b_u', 'b_s', 'a_i']


def jobs(tier):
    src = [os.path.join(HERE, 'harness.c'), os.path.join(HERE, 'prims.c'), os.path.join(OUT, 'int_bodies.c')]
    inc = [OUT, os.path.join(vlib.VERIF, 'props'), HERE]
    J = []
    def add(name, harness, enforce, replace=(), **kw):
        J.append(Job(name, src, harness, enforce=enforce, replace=replace, includes=inc,
                     inputs=INPUTS, **kw))
    for f in ('lt', 'eq', 'le', 'gt', 'ge', 'ne'):
        add('cmp_' + f, 'h_' + f, 'mpz_' + f, replace=[] if f == 'lt' else ['mpz_lt'], timeout=300)
    add('from_int', 'h_from_int', 'mpz_from_int', timeout=120)
    add('neg', 'h_neg', 'mpz_neg', timeout=300)
    add('add', 'h_add', 'mpz_add', replace=['mpz_sub', 'mpz_neg'], timeout=900)
    add('sub', 'h_sub', 'mpz_sub', replace=['mpz_add', 'mpz_neg', 'mpz_lt', 'mpz_from_int'], timeout=900)
    prims = ['verif_umul64', 'verif_udiv64', 'verif_urem64']
    for f in prims:
        add('prim_' + f[6:], 'h_' + f[6:], f, backend='cvc5-int', kind='lemma', timeout=600,
            cbmc_args=['--no-pointer-check', '--no-bounds-check'] if False else [],
            note='arithmetic lemmas about the machine operator, MULLO/MULHI/UDIV/UREM concrete')
    arith = ['mpz_neg', 'mpz_add', 'mpz_sub', 'mpz_lt', 'mpz_from_int']
    add('mul', 'h_mul', 'mpz_mul', replace=arith + prims, defines=['SPEC_ABSTRACT'], timeout=900)
    add('div', 'h_div', 'mpz_div', replace=arith + prims + ['mpz_mul'], defines=['SPEC_ABSTRACT'], timeout=900, cbmc_args=['--object-bits', '10'])
    add('mod', 'h_mod', 'mpz_mod', replace=arith + prims + ['mpz_mul', 'mpz_div'], defines=['SPEC_ABSTRACT'], timeout=900, cbmc_args=['--object-bits', '10'])
    n = int(os.environ.get('PARSE_N', '6' if tier == 'quick' else '8'))
    J.append(Job('literal_parse_int_len%d' % n, [os.path.join(HERE, 'parse_harness.c'), os.path.join(OUT, 'parse_bodies.c'),
                                                  os.path.join(OUT, 'int_bodies.c'), os.path.join(HERE, 'prims.c')],
                 'hb_parse_int', includes=inc, inputs=['n', 'text[*'], input_fns=['check_literal'], defines=['PARSE_MAXLEN=%d' % n], kind='bounded',
                 unwind=n + 3, timeout=3000,
                 note='bounded: all scanner tokens "-"?[0-9][_a-zA-Z0-9]* of length <= %d; std::stoull by its model' % n))
    for shape, to in ((('hex16', 1500),) if tier == 'quick' else (('hex16', 1500), ('dec_boundary', 2400))):
        J.append(Job('literal_' + shape, [os.path.join(HERE, 'parse_harness.c'), os.path.join(OUT, 'parse_bodies.c'),
                                          os.path.join(OUT, 'int_bodies.c'), os.path.join(HERE, 'prims.c')],
                     'hb_parse_' + shape, includes=inc, inputs=['neg', 'digits', 'text[*', 'n'], input_fns=['check_literal'], defines=['PARSE_MAXLEN=22'],
                     kind='bounded', unwind=25, timeout=to,
                     note='bounded: literals of the fixed shape %s with every digit symbolic (reaches 2^63 and 2^64)' %
                          {'hex16': '"-"? 0x h{16}', 'dec_boundary': '"-"? (18446744073709|9223372036854) d{6}'}[shape]))
    add('term_add', 'h_term_add', None, unwind=4, timeout=900, kind='proof', cbmc_args=['--object-bits', '12'],
        note='termination of add/sub mutual recursion: recursion unwinding assertion at depth 4, fully symbolic operands')
    add('control', 'h_control', None, replace=['mpz_add'], defines=['VERIF_CONTROL'], expect='fail',
        kind='control', timeout=300)
    return J


def main(tier, seed):
    import runner
    return runner.run_property(PID, sys.modules[__name__], tier, seed)


# ------------------------------------------------------------------------------------------
LEVEL = 'proof'
TRUSTED = [
    'tools/cxx2c.py lowering of clang AST to C preserves semantics (supported per run by the native fidelity check, not proved)',
    'clang 14 AST (overload resolution, implicit conversions) agrees with the g++ 12 build of the repository',
    'CBMC C semantics agree with g++ on the extracted text (LP64, two\'s complement)',
    'props/common.h (raise flag protocol, VERIF_SWAP for std::swap)',
]
ASSUMPTIONS = [
    'throw std::domain_error is lowered to: verif_raised=1; return dummy; every call of a may-raise function is followed by a propagation check (generated)',
    'parse_int (bounded jobs): std::stoull by props/c08/stoull_model.h (assumed contract on libstdc++/glibc); try/catch lowered with exception kinds; the shape "0x0x.." (strtoull accepts its own 0x prefix) is left unconstrained; operands of throw dropped',
    'error message construction (describe_overflow / describe_div_0 -> std::stringstream) is dropped; it runs only on the raise path',
    'repository asserts are checked as obligations although the shipped build defines NDEBUG',
    'type invariant WF(v): m_sign is one of the two enumerators (C++ guarantees it; a nondet C struct does not)',
]
EXPLANATION = ('Contracts (requires/ensures/assigns) on the operators of mpz_class, enforced by goto-instrument --dfcc '
               'against C text lowered on this run from /repo/libzwerg/int.cc; callers are checked against callee '
               'contracts (replace-call-with-contract).')


def spec_files():
    return [os.path.join(HERE, 'spec.h'), os.path.join(HERE, 'harness.c')]


def prepare(tier):
    lw = vlib.extract('int', 'libzwerg/int.cc', CFG, ROOTS, OUT)
    gen = vlib.gen_frontend(os.path.join(OUT, 'gen'))
    pw = vlib.extract('parse', os.path.join(gen, 'parser.cc'), PARSE_CFG, PARSE_ROOTS, OUT, extra_flags=['-I' + gen])
    lw.report['functions'] += pw.report['functions']
    lw.report['externals'] += pw.report['externals']
    build_native()
    return {'unit': 'libzwerg/int.cc', 'functions': lw.report['functions'],
            'dropped': ['argument evaluation of int_error(...) i.e. describe_overflow/describe_div_0 message construction'],
            'externals': lw.report['externals']}


def build_native():
    exe = os.path.join(OUT, 'native_driver')
    vlib.native(['gcc', '-O1', '-Werror=implicit-function-declaration', '-c', '-I' + OUT, '-I' + os.path.join(vlib.VERIF, 'props'),
                 os.path.join(OUT, 'int_bodies.c'), '-o', os.path.join(OUT, 'int_bodies.o')])
    vlib.native(['gcc', '-O1', '-Werror=implicit-function-declaration', '-c', '-I' + OUT, '-I' + os.path.join(vlib.VERIF, 'props'), '-DVERIF_NATIVE',
                 os.path.join(HERE, 'prims.c'), '-o', os.path.join(OUT, 'prims.o')])
    vlib.native(['g++', '-std=c++14', '-O2', '-DNDEBUG', '-I%s/libzwerg' % vlib.REPO, '-c',
                 os.path.join(vlib.REPO, 'libzwerg/int.cc'), '-o', os.path.join(OUT, 'int_real.o')])
    vlib.native(['g++', '-std=c++14', '-O1', '-I%s/libzwerg' % vlib.REPO,
                 os.path.join(HERE, 'native_driver.cc'), os.path.join(OUT, 'int_real.o'),
                 os.path.join(OUT, 'int_bodies.o'), os.path.join(OUT, 'prims.o'), '-o', exe])
    return exe


def fidelity(tier, seed):
    exe = os.path.join(OUT, 'native_driver')
    n = 200000 if tier == 'quick' else 5000000
    rc, out, err, w = vlib.run([exe, 'fidelity', str(seed), str(n)], timeout=600)
    if rc != 0 or 'DONE' not in out:
        raise vlib.Undecided('fidelity driver failed rc=%s %s' % (rc, (out + err)[-300:]))
    last = out.strip().split('\n')[-1]
    ev = int(last.split('evals=')[1].split()[0])
    bad = int(last.split('bad=')[1])
    first = [l for l in out.split('\n') if l.startswith('DISAGREE')][:1]
    return {'what': 'extracted C vs real int.cc object code, all 12 operators, boundary lattice squared x both representations + random',
            'evaluations': ev, 'disagreements': bad, 'first': first[0] if first else None, 'wall_s': round(w, 1),
            'status': 'supporting test, not an obligation'}


def pyval(u, s):
    u = int(u)
    if s and u >= 1 << 63:
        return u - (1 << 64)
    return u


OPMAP = {'cmp_lt': 'lt', 'cmp_eq': 'eq', 'cmp_le': 'le', 'cmp_gt': 'gt', 'cmp_ge': 'ge', 'cmp_ne': 'ne',
         'neg': 'neg', 'add': 'add', 'sub': 'sub', 'mul': 'mul', 'div': 'div', 'mod': 'mod'}


def expected(op, a, b):
    import operator
    if op in ('lt', 'eq', 'le', 'gt', 'ge', 'ne'):
        return ('bool', int(getattr(operator, op)(a, b)))
    if op in ('div', 'mod') and b == 0:
        return ('raise',)
    r = {'neg': lambda: -a, 'add': lambda: a + b, 'sub': lambda: a - b, 'mul': lambda: a * b,
         'div': lambda: a // b, 'mod': lambda: a % b}[op]()
    if -(1 << 63) <= r <= (1 << 64) - 1:
        return ('value', r)
    return ('raise',)


def parse_cex(cex):
    def num(x):
        x = str(x)
        if x in ('TRUE', 'true'):
            return 1
        if x in ('FALSE', 'false'):
            return 0
        return int(''.join(ch for ch in x if ch.isdigit() or ch == '-') or 0)
    return {k: num(v) for k, v in cex.items()}


def replay_input(op, au, as_, bu, bs):
    exe = os.path.join(OUT, 'native_driver')
    rc, out, err, w = vlib.run([exe, 'replay', op, str(au), str(as_), str(bu), str(bs)], timeout=30)
    if rc != 0:
        return {'reproduced': False, 'error': 'driver rc=%s %s' % (rc, err[-200:])}
    got = out.strip().split()
    exp = expected(op, pyval(au, as_), pyval(bu, bs))
    if got[0] == 'raise':
        g = ('raise',)
    elif got[0] == 'bool':
        g = ('bool', int(got[1]))
    else:
        g = ('value', pyval(got[1], int(got[2])))
    return {'reproduced': g != exp, 'op': op, 'a': pyval(au, as_), 'a_repr': 'signed' if as_ else 'unsigned',
            'b': pyval(bu, bs), 'b_repr': 'signed' if bs else 'unsigned',
            'observed_on_real_code': list(g), 'expected_exact': list(exp), 'raw': out.strip()[:200]}


def replay_literal(r):
    """Literal jobs: run the literal through the real library as a one-word Zwerg query and compare with
    Python's reading of the same text."""
    def ch(x):
        s = str(x)
        if s.startswith("'") and len(s) >= 3:
            return s[1:-1].encode().decode('unicode_escape')
        n = int(''.join(c for c in s if c.isdigit() or c == '-') or 0)
        return chr(n & 255)
    n = None
    chars = {}
    for k, v in r.cex.items():
        if k == 'n':
            n = int(''.join(c for c in str(v) if c.isdigit()) or 0)
        if k.startswith('text['):
            i = int(''.join(c for c in k[5:] if c.isdigit()))
            chars[i] = ch(v)
    if not chars:
        return {'reproduced': False, 'note': 'no literal text in the counterexample'}
    if n is None:
        n = max(chars) + 1
        while n > 0 and chars.get(n - 1, '\0') == '\0':
            n -= 1
    text = ''.join(chars.get(i, '0') for i in range(n))
    body, neg = (text[1:], True) if text.startswith('-') else (text, False)
    try:
        low = body.lower()
        if low.startswith('0x'): val = int(low[2:], 16)
        elif low.startswith('0b'): val = int(low[2:], 2)
        elif low.startswith('0o'): val = int(low[2:], 8)
        elif len(low) > 1 and low.startswith('0'): val = int(low[1:], 8)
        else: val = int(low, 10)
        val = -val if neg else val
        ok = -(1 << 63) <= val <= (1 << 64) - 1
    except ValueError:
        ok, val = False, None
    res = vlib.zw_queries([text, '%s "%%d"' % text], OUT)
    got = res[0] if res else (None, 'no output')
    accepted = got[0] is not None and got[0] == 1
    shown = res[1][1].strip().strip('<>') if len(res) > 1 and res[1][0] else None
    bad = accepted != ok or (ok and shown is not None and shown != str(val))
    return {'reproduced': bool(bad), 'literal': text, 'python_reading': val if ok else 'rejected',
            'real_library': {'accepted': accepted, 'decimal_rendering': shown, 'raw': got[1][:120]}}


def replay(r):
    if r.job.name.startswith('literal_'):
        return replay_literal(r)
    op = OPMAP.get(r.job.name)
    if op is None or not r.cex:
        return {'reproduced': False, 'note': 'no operator-level counterexample for this job'}
    c = parse_cex(r.cex)
    rep = replay_input(op, c.get('a_u', 0), c.get('a_s', 0), c.get('b_u', 0), c.get('b_s', 0))
    if rep.get('reproduced') or 'SPEC_ABSTRACT' not in r.job.defines:
        return rep
    # The job left MULLO/MULHI/UDIV/UREM uninterpreted, so the verifier's counterexample may use an
    # interpretation no machine has.  Look for a concrete failing input of this operator on the real
    # code (boundary lattice + random, exact 128-bit oracle).
    exe = os.path.join(OUT, 'native_driver')
    rc, out, err, w = vlib.run([exe, 'sweep', '1', '2000000'], timeout=300)
    for ln in out.split('\n'):
        if ln.startswith('MISMATCH ' + op + ' '):
            kv = dict(x.split('=') for x in ln.split()[2:6])
            rep2 = replay_input(op, int(kv['a_u']), int(kv['a_s']), int(kv['b_u']), int(kv['b_s']))
            rep2['note'] = ('verifier counterexample (abstract arithmetic) did not reproduce: %s; this input was '
                            'found by the native oracle sweep' % json.dumps(c))
            return rep2
    rep['note'] = 'abstract counterexample did not reproduce and the native oracle sweep found no failing input'
    return rep
