/* C08 (literals) -- parse_int of libzwerg/parser.yy (through bison, regenerated on every run).
 *
 * Precondition = the scanner rule that produces the token:  "-"?[0-9][_a-zA-Z0-9]*  , given as
 * (pointer, length), length <= PARSE_MAXLEN (bounded).  From the property statement: an integer
 * literal denotes its exact value when that lies in [-2^63, 2^64-1], in the domain of its prefix;
 * otherwise -- and when a character is not a digit of the radix -- an error is reported.
 * lit_value() is the specification's own reading of the digits. */
#ifndef C08_PARSE_SPEC_H
#define C08_PARSE_SPEC_H
#include "parse_types.h"
#include "parse_protos.h"
typedef __int128 i128;
typedef unsigned __int128 u128;
#ifndef PARSE_MAXLEN
#define PARSE_MAXLEN 8
#endif

static inline int lit_digit(char c)
{
  if (c >= '0' && c <= '9') return c - '0';
  if (c >= 'a' && c <= 'z') return c - 'a' + 10;
  if (c >= 'A' && c <= 'Z') return c - 'A' + 10;
  return 99;
}

/* exact value of the literal text; returns 0 when it is not a well-formed literal or the value
   does not fit [-2^63, 2^64-1]; *radix receives 10/16/8/2 */
static inline _Bool lit_value(const char *t, size_t n, i128 *out, int *radix)
{
  size_t i = 0;
  _Bool neg = 0;
  if (n > 0 && t[0] == '-') { neg = 1; i = 1; }
  int base = 10;
  if (n - i > 2 && t[i] == '0' && (t[i + 1] == 'x' || t[i + 1] == 'X')) { base = 16; i += 2; }
  else if (n - i > 2 && t[i] == '0' && (t[i + 1] == 'b' || t[i + 1] == 'B')) { base = 2; i += 2; }
  else if (n - i > 2 && t[i] == '0' && (t[i + 1] == 'o' || t[i + 1] == 'O')) { base = 8; i += 2; }
  else if (n - i > 1 && t[i] == '0') { base = 8; i += 1; }
  *radix = base;
  if (i >= n)
    return 0;
  u128 v = 0;
  for (; i < n; ++i)
    {
      int d = lit_digit(t[i]);
      if (d >= base)
        return 0;
      v = v * (u128)base + (u128)d;
      if (v > (((u128)1) << 64) - 1)
        return 0;
    }
  if (neg && v > (((u128)1) << 63))
    return 0;
  *out = neg ? -(i128)v : (i128)v;
  return 1;
}
#endif
