/* C08 -- contracts for the integer class of libzwerg/int.cc.
 *
 * Hand-written specification.  The function bodies these prototypes bind to are generated on
 * every run from /repo/libzwerg/int.cc (build/c08/int_bodies.c).  Contracts sit on prototypes;
 * goto-instrument --dfcc enforces them against the generated bodies and replaces calls by them.
 *
 * Abstract value (taken from the property statement, not from the code):
 *   VAL(v) = v is in signed representation ? (signed 64-bit) : (unsigned 64-bit), as an exact
 *            integer held in 128 bits.
 * The property: the result of an operation is the mathematically exact value when that lies in
 * [-2^63, 2^64-1]; otherwise (and for division by zero) an error is raised; nothing else.
 */
#ifndef C08_SPEC_H
#define C08_SPEC_H
#include "../common.h"
#include "int_types.h"

typedef __int128 i128;
typedef unsigned __int128 u128;

#define SGN signedness__sign
#define UNS signedness__unsign
/* type invariant of an mpz_class that C++ guarantees and a nondet C struct does not */
#define WF(v) ((v).m_sign == SGN || (v).m_sign == UNS)
#define VAL(v) ((v).m_sign == SGN ? (i128)(v).m_i : (i128)(v).m_u)
#define LO (-(((i128)1) << 63))
#define HI ((((i128)1) << 64) - 1)
#define INRANGE(x) ((x) >= LO && (x) <= HI)
#define ISNEG(v) ((v).m_sign == SGN && (v).m_i < 0)
/* magnitude as an unsigned 64-bit number (|INT64_MIN| = 2^63 fits) */
#define MAG(v) (ISNEG(v) ? (uint64_t)0 - (v).m_u : (v).m_u)

#define RET __CPROVER_return_value

/* ---- order -------------------------------------------------------------------------------- */
_Bool mpz_lt(mpz_class v1, mpz_class v2)
__CPROVER_requires(WF(v1) && WF(v2))
__CPROVER_ensures(RET == (VAL(v1) < VAL(v2)))
__CPROVER_assigns();

_Bool mpz_eq(mpz_class v1, mpz_class v2)
__CPROVER_requires(WF(v1) && WF(v2))
__CPROVER_ensures(RET == (VAL(v1) == VAL(v2)))
__CPROVER_assigns();

_Bool mpz_le(mpz_class v1, mpz_class v2)
__CPROVER_requires(WF(v1) && WF(v2))
__CPROVER_ensures(RET == (VAL(v1) <= VAL(v2)))
__CPROVER_assigns();

_Bool mpz_gt(mpz_class v1, mpz_class v2)
__CPROVER_requires(WF(v1) && WF(v2))
__CPROVER_ensures(RET == (VAL(v1) > VAL(v2)))
__CPROVER_assigns();

_Bool mpz_ge(mpz_class v1, mpz_class v2)
__CPROVER_requires(WF(v1) && WF(v2))
__CPROVER_ensures(RET == (VAL(v1) >= VAL(v2)))
__CPROVER_assigns();

_Bool mpz_ne(mpz_class v1, mpz_class v2)
__CPROVER_requires(WF(v1) && WF(v2))
__CPROVER_ensures(RET == (VAL(v1) != VAL(v2)))
__CPROVER_assigns();

/* ---- constructors used implicitly by the operators ---------------------------------------- */
mpz_class mpz_from_int(int value)
__CPROVER_ensures(WF(RET) && VAL(RET) == (i128)value)
__CPROVER_assigns();

/* ---- arithmetic --------------------------------------------------------------------------- */
mpz_class mpz_neg(mpz_class v)
__CPROVER_requires(WF(v) && verif_raised == 0)
__CPROVER_ensures((verif_raised != 0) == !INRANGE(-VAL(v)))
__CPROVER_ensures(verif_raised == 0 || verif_raised == 1)
__CPROVER_ensures(verif_raised == 0 ==> (WF(RET) && VAL(RET) == -VAL(v)))
__CPROVER_assigns(verif_raised);

mpz_class mpz_add(mpz_class v1, mpz_class v2)
__CPROVER_requires(WF(v1) && WF(v2) && verif_raised == 0)
__CPROVER_ensures((verif_raised != 0) == !INRANGE(VAL(v1) + VAL(v2)))
__CPROVER_ensures(verif_raised == 0 || verif_raised == 1)
__CPROVER_ensures(verif_raised == 0 ==> (WF(RET) && VAL(RET) == VAL(v1) + VAL(v2)))
__CPROVER_assigns(verif_raised);

mpz_class mpz_sub(mpz_class v1, mpz_class v2)
__CPROVER_requires(WF(v1) && WF(v2) && verif_raised == 0)
__CPROVER_ensures((verif_raised != 0) == !INRANGE(VAL(v1) - VAL(v2)))
__CPROVER_ensures(verif_raised == 0 || verif_raised == 1)
__CPROVER_ensures(verif_raised == 0 ==> (WF(RET) && VAL(RET) == VAL(v1) - VAL(v2)))
__CPROVER_assigns(verif_raised);


/* ---- multiplication, division, remainder ---------------------------------------------------
 * The 64-bit multiply/divide circuits are out of reach of every back end when they sit inside
 * the sign/representation case analysis (PROBELOG.md: 0 of 26 configurations).  The proof is
 * therefore split along function contracts:
 *   - in mpz_mul/mpz_div/mpz_mod the machine operators * / % on uint64_t are printed by the
 *     extractor as calls of the one-line primitives verif_umul64/udiv64/urem64 (prims.c);
 *   - the primitives' contracts state (a) that they return MULLO/UDIV/UREM of their arguments and
 *     (b) the few arithmetic lemmas the callers need, instantiated at the arguments (and at two
 *     ghost words naming the last multiplication);  they are enforced against the real operator
 *     with MULLO.. defined concretely (job kind 'lemma', cvc5 bv->int back end);
 *   - the callers are verified with the primitives replaced by their contracts and
 *     MULLO/MULHI/UDIV/UREM left uninterpreted (-DSPEC_ABSTRACT): whatever holds for every
 *     interpretation satisfying the lemmas holds for the real operators (SAT back end).
 */
#ifdef SPEC_ABSTRACT
uint64_t __CPROVER_uninterpreted_mullo(uint64_t, uint64_t);
uint64_t __CPROVER_uninterpreted_mulhi(uint64_t, uint64_t);
uint64_t __CPROVER_uninterpreted_udiv(uint64_t, uint64_t);
uint64_t __CPROVER_uninterpreted_urem(uint64_t, uint64_t);
#define MULLO(a, b) __CPROVER_uninterpreted_mullo(a, b)
#define MULHI(a, b) __CPROVER_uninterpreted_mulhi(a, b)
#define UDIV(a, b) __CPROVER_uninterpreted_udiv(a, b)
#define UREM(a, b) __CPROVER_uninterpreted_urem(a, b)
#else
#define MULLO(a, b) ((uint64_t)((u128)(a) * (u128)(b)))
#define MULHI(a, b) ((uint64_t)(((u128)(a) * (u128)(b)) >> 64))
#define UDIV(a, b) ((uint64_t)(a) / (uint64_t)(b))
#define UREM(a, b) ((uint64_t)(a) % (uint64_t)(b))
#endif

/* ghost: operands of the most recent verif_umul64; they only select the instance of the
   overflow-test lemma in verif_udiv64's contract, which holds for all values of them */
extern uint64_t g_mul_a, g_mul_b;

uint64_t verif_umul64(uint64_t a, uint64_t b)
__CPROVER_ensures(RET == MULLO(a, b))
__CPROVER_ensures(MULLO(a, b) == MULLO(b, a) && MULHI(a, b) == MULHI(b, a))
__CPROVER_ensures((a == 0 || b == 0) ==> (MULLO(a, b) == 0 && MULHI(a, b) == 0))
__CPROVER_ensures(g_mul_a == a && g_mul_b == b)
__CPROVER_assigns(g_mul_a, g_mul_b);

uint64_t verif_udiv64(uint64_t x, uint64_t y)
__CPROVER_requires(y != 0)
__CPROVER_ensures(RET == UDIV(x, y))
/* the repository's overflow test  a != 0 && lo(a*b)/a != b  <=>  hi(a*b) != 0 */
__CPROVER_ensures((x == MULLO(g_mul_a, g_mul_b) && y == g_mul_a) ==>
                  ((RET != g_mul_b) == (MULHI(g_mul_a, g_mul_b) != 0)))
__CPROVER_ensures((x == MULLO(g_mul_a, g_mul_b) && y == g_mul_b) ==>
                  ((RET != g_mul_a) == (MULHI(g_mul_a, g_mul_b) != 0)))
__CPROVER_assigns();

uint64_t verif_urem64(uint64_t x, uint64_t y)
__CPROVER_requires(y != 0)
__CPROVER_ensures(RET == UREM(x, y) && RET < y)
__CPROVER_assigns();

/* exact product of the magnitudes is MULHI:MULLO; the signed product is out of range iff the
   high word is non-zero, or it is negative and the low word exceeds 2^63 */
#define NEGRES(v1, v2) (ISNEG(v1) != ISNEG(v2))
#define P_LO(v1, v2) MULLO(MAG(v1), MAG(v2))
#define P_HI(v1, v2) MULHI(MAG(v1), MAG(v2))
#define MUL_RAISES(v1, v2) (P_HI(v1, v2) != 0 || (NEGRES(v1, v2) && P_LO(v1, v2) > ((uint64_t)1 << 63)))
#define MUL_VALUE(v1, v2) (NEGRES(v1, v2) ? -(i128)P_LO(v1, v2) : (i128)P_LO(v1, v2))

mpz_class mpz_mul(mpz_class v1, mpz_class v2)
__CPROVER_requires(WF(v1) && WF(v2) && verif_raised == 0)
__CPROVER_ensures((verif_raised != 0) == MUL_RAISES(v1, v2))
__CPROVER_ensures(verif_raised == 0 || verif_raised == 1)
__CPROVER_ensures(verif_raised == 0 ==> (WF(RET) && VAL(RET) == MUL_VALUE(v1, v2)))
__CPROVER_assigns(verif_raised, g_mul_a, g_mul_b);

/* floor division on sign and magnitude: the quotient of the magnitudes, rounded away from zero
   when the signs differ and there is a remainder, negated when the signs differ */
#define DIV_Q(v1, v2) UDIV(MAG(v1), MAG(v2))
#define DIV_R(v1, v2) UREM(MAG(v1), MAG(v2))
#define DIV_VALUE(v1, v2) (NEGRES(v1, v2) \
   ? -((i128)DIV_Q(v1, v2) + (DIV_R(v1, v2) != 0 ? 1 : 0)) : (i128)DIV_Q(v1, v2))

mpz_class mpz_div(mpz_class v1, mpz_class v2)
__CPROVER_requires(WF(v1) && WF(v2) && verif_raised == 0)
__CPROVER_ensures((verif_raised != 0) == (v2.m_u == 0 || !INRANGE(DIV_VALUE(v1, v2))))
__CPROVER_ensures(verif_raised == 0 || verif_raised == 1)
__CPROVER_ensures(verif_raised == 0 ==> (WF(RET) && VAL(RET) == DIV_VALUE(v1, v2)))
__CPROVER_assigns(verif_raised, g_mul_a, g_mul_b);

/* remainder with the divisor's sign: |r| = |a| mod |b|, complemented to |b| when the signs
   differ and it is non-zero; always in range, so only division by zero raises */
#define MOD_M(v1, v2) ((DIV_R(v1, v2) != 0 && NEGRES(v1, v2)) ? MAG(v2) - DIV_R(v1, v2) : DIV_R(v1, v2))
#define MOD_VALUE(v1, v2) (ISNEG(v2) ? -(i128)MOD_M(v1, v2) : (i128)MOD_M(v1, v2))

mpz_class mpz_mod(mpz_class v1, mpz_class v2)
__CPROVER_requires(WF(v1) && WF(v2) && verif_raised == 0)
__CPROVER_ensures((verif_raised != 0) == (v2.m_u == 0))
__CPROVER_ensures(verif_raised == 0 || verif_raised == 1)
__CPROVER_ensures(verif_raised == 0 ==> (WF(RET) && VAL(RET) == MOD_VALUE(v1, v2)))
__CPROVER_assigns(verif_raised, g_mul_a, g_mul_b);

#endif
