/* C08 -- contracts for the integer class of libzwerg/int.cc.
 *
 * Hand-written specification.  The function bodies these prototypes bind to are generated on
 * every run from /repo/libzwerg/int.cc (build/c08/int_bodies.c).  Contracts sit on prototypes;
 * goto-instrument --dfcc enforces them against the generated bodies and replaces calls by them.
 *
 * Abstract value (taken from the property statement, not from the code):
 *   VAL(v) = v is in signed representation ? (signed 64-bit) : (unsigned 64-bit), as an exact
 *            integer held in 128 bits.
 * The property: the result of an operation is the mathematically exact value when that lies in
 * [-2^63, 2^64-1]; otherwise (and for division by zero) an error is raised; nothing else.
 */
#ifndef C08_SPEC_H
#define C08_SPEC_H
#include "../common.h"
#include "int_types.h"

typedef __int128 i128;
typedef unsigned __int128 u128;

#define SGN signedness__sign
#define UNS signedness__unsign
/* type invariant of an mpz_class that C++ guarantees and a nondet C struct does not */
#define WF(v) ((v).m_sign == SGN || (v).m_sign == UNS)
#define VAL(v) ((v).m_sign == SGN ? (i128)(v).m_i : (i128)(v).m_u)
#define LO (-(((i128)1) << 63))
#define HI ((((i128)1) << 64) - 1)
#define INRANGE(x) ((x) >= LO && (x) <= HI)
#define ISNEG(v) ((v).m_sign == SGN && (v).m_i < 0)
/* magnitude as an unsigned 64-bit number (|INT64_MIN| = 2^63 fits) */
#define MAG(v) (ISNEG(v) ? (uint64_t)0 - (v).m_u : (v).m_u)

#define RET __CPROVER_return_value

/* ---- order -------------------------------------------------------------------------------- */
_Bool mpz_lt(mpz_class v1, mpz_class v2)
__CPROVER_requires(WF(v1) && WF(v2))
__CPROVER_ensures(RET == (VAL(v1) < VAL(v2)))
__CPROVER_assigns();

_Bool mpz_eq(mpz_class v1, mpz_class v2)
__CPROVER_requires(WF(v1) && WF(v2))
__CPROVER_ensures(RET == (VAL(v1) == VAL(v2)))
__CPROVER_assigns();

_Bool mpz_le(mpz_class v1, mpz_class v2)
__CPROVER_requires(WF(v1) && WF(v2))
__CPROVER_ensures(RET == (VAL(v1) <= VAL(v2)))
__CPROVER_assigns();

_Bool mpz_gt(mpz_class v1, mpz_class v2)
__CPROVER_requires(WF(v1) && WF(v2))
__CPROVER_ensures(RET == (VAL(v1) > VAL(v2)))
__CPROVER_assigns();

_Bool mpz_ge(mpz_class v1, mpz_class v2)
__CPROVER_requires(WF(v1) && WF(v2))
__CPROVER_ensures(RET == (VAL(v1) >= VAL(v2)))
__CPROVER_assigns();

_Bool mpz_ne(mpz_class v1, mpz_class v2)
__CPROVER_requires(WF(v1) && WF(v2))
__CPROVER_ensures(RET == (VAL(v1) != VAL(v2)))
__CPROVER_assigns();

/* ---- constructors used implicitly by the operators ---------------------------------------- */
mpz_class mpz_from_int(int value)
__CPROVER_ensures(WF(RET) && VAL(RET) == (i128)value)
__CPROVER_assigns();

/* ---- arithmetic --------------------------------------------------------------------------- */
mpz_class mpz_neg(mpz_class v)
__CPROVER_requires(WF(v) && verif_raised == 0)
__CPROVER_ensures((verif_raised != 0) == !INRANGE(-VAL(v)))
__CPROVER_ensures(verif_raised == 0 || verif_raised == 1)
__CPROVER_ensures(verif_raised == 0 ==> (WF(RET) && VAL(RET) == -VAL(v)))
__CPROVER_assigns(verif_raised);

mpz_class mpz_add(mpz_class v1, mpz_class v2)
__CPROVER_requires(WF(v1) && WF(v2) && verif_raised == 0)
__CPROVER_ensures((verif_raised != 0) == !INRANGE(VAL(v1) + VAL(v2)))
__CPROVER_ensures(verif_raised == 0 || verif_raised == 1)
__CPROVER_ensures(verif_raised == 0 ==> (WF(RET) && VAL(RET) == VAL(v1) + VAL(v2)))
__CPROVER_assigns(verif_raised);

mpz_class mpz_sub(mpz_class v1, mpz_class v2)
__CPROVER_requires(WF(v1) && WF(v2) && verif_raised == 0)
__CPROVER_ensures((verif_raised != 0) == !INRANGE(VAL(v1) - VAL(v2)))
__CPROVER_ensures(verif_raised == 0 || verif_raised == 1)
__CPROVER_ensures(verif_raised == 0 ==> (WF(RET) && VAL(RET) == VAL(v1) - VAL(v2)))
__CPROVER_assigns(verif_raised);

#endif
