/* C12 (slice, BOUNDED length <= 4): "values are deep-copied when stacks are copied" -- stack::stack(stack const&) of
   stack.cc and value_seq::value_seq(value_seq const&) (with clone_seq) of value-seq.cc.  A copy shares no value
   object and no element vector with its source, has equal contents in the same order, and the source is not modified:
   what one execution does to its copy cannot reach another execution's data. */
#ifdef UNIT_STK
#include "stk_types.h"
#include "stk_protos.h"
#else
#include "seq_types.h"
#include "seq_protos.h"
#endif
int verif_raised; unsigned g_clones;
unsigned long nondet_ulong(void); int nondet_int(void); unsigned nondet_uint(void);

static void check_vec(const pvvec *copy, const pvvec *orig, const pvvec *orig0, const mvalue *src, const int *content0)
{
  __CPROVER_assert(copy->n == orig0->n, "same length");
  __CPROVER_assert(orig->n == orig0->n, "the source keeps its length");
  for (unsigned i = 0; i < VMAX; ++i)
    if (i < orig0->n)
      {
        __CPROVER_assert(orig->d[i] == orig0->d[i] && src[i].content == content0[i], "the source is not modified");
        __CPROVER_assert(copy->d[i] != 0 && copy->d[i]->content == content0[i], "element i of the copy has the contents of element i of the source");
        for (unsigned j = 0; j < VMAX; ++j)
          __CPROVER_assert(j >= orig0->n || copy->d[i] != orig0->d[j], "the copy shares no value object with the source");
        for (unsigned j = 0; j < VMAX; ++j)
          __CPROVER_assert(j >= i || copy->d[i] != copy->d[j], "the elements of the copy are distinct objects");
      }
  __CPROVER_assert(g_clones == orig0->n, "one clone per element");
}

#ifdef UNIT_STK
void hb_stack_copy(void)
{
  mvalue src[VMAX]; int content0[VMAX]; stack that;
  that.m_values.n = nondet_ulong(); __CPROVER_assume(that.m_values.n <= VMAX);
  for (unsigned i = 0; i < VMAX; ++i) { src[i].content = nondet_int(); src[i].type = (unsigned char)nondet_int(); content0[i] = src[i].content; that.m_values.d[i] = i < that.m_values.n ? &src[i] : 0; }
  /* class invariant of a stack: the profile holds the type codes of the top four values, top value in the low byte */
  { unsigned pr = 0; for (unsigned i = 0; i < VMAX; ++i) if (i < that.m_values.n) pr = (pr << 8) | src[i].type; that.m_profile = pr; }
  pvvec orig0 = that.m_values; unsigned profile0 = that.m_profile;
  g_clones = 0; verif_raised = 0;
  stack copy = stack_copy_ctor(&that);
  __CPROVER_assert(verif_raised == 0, "no error");
  __CPROVER_assert(copy.m_profile == profile0 && that.m_profile == profile0, "the type profile is copied");
  check_vec(&copy.m_values, &that.m_values, &orig0, src, content0);
}
#else
void hb_seq_copy(void)
{
  mvalue src[VMAX]; int content0[VMAX]; pvvec vec; value_seq that;
  vec.n = nondet_ulong(); __CPROVER_assume(vec.n <= VMAX);
  for (unsigned i = 0; i < VMAX; ++i) { src[i].content = nondet_int(); content0[i] = src[i].content; vec.d[i] = i < vec.n ? &src[i] : 0; }
  that.m_seq = &vec; that.__base0.content = nondet_int();
  pvvec orig0 = vec; int base0 = that.__base0.content;
  g_clones = 0; verif_raised = 0;
  value_seq copy = value_seq_copy_ctor(&that);
  __CPROVER_assert(verif_raised == 0, "no error");
  __CPROVER_assert(copy.__base0.content == base0 && that.__base0.content == base0, "the value header (type, position) is copied");
  __CPROVER_assert(that.m_seq == &vec, "the source keeps its element vector");
  __CPROVER_assert(copy.m_seq != 0 && copy.m_seq != &vec, "the copy owns an element vector of its own (nothing one execution does to it reaches the source)");
  if (copy.m_seq != 0 && copy.m_seq != &vec)
    check_vec(copy.m_seq, &vec, &orig0, src, content0);
}
#endif
#ifdef VERIF_CONTROL
void hb_copy_control(void)
{
  mvalue src[VMAX]; stack that;
  that.m_values.n = 2; that.m_profile = 0;
  for (unsigned i = 0; i < VMAX; ++i) { src[i].content = nondet_int(); that.m_values.d[i] = i < 2 ? &src[i] : 0; }
  g_clones = 0; verif_raised = 0;
  stack copy = stack_copy_ctor(&that);
  __CPROVER_assert(copy.m_values.d[0] == &src[0], "CONTROL (must fail): a copied stack shares its values with the source");
}
#endif
