"""C12 (slice) -- the deep-copy mechanism: stack and sequence copy constructors."""
import os, sys
sys.path.insert(0, os.path.join(os.path.dirname(__file__), '..', '..', 'tools'))
import vlib
from vlib import Job

PID = 'C12'
HERE = os.path.dirname(os.path.abspath(__file__))
OUT = os.path.join(vlib.BUILD, 'c12')
UPV = r'(const )?std::unique_ptr<(zw_)?value(, std::default_delete<(zw_)?value>)?>'
VECV = r'(const )?(std::vector<' + UPV + r'(, std::allocator<' + UPV + r'>)?>|value_seq::seq_t)'
VECV_IT = r'(const )?(__gnu_cxx::__normal_iterator<(const )?' + UPV + r' \*, ' + VECV + r'>|' + VECV + r'::(const_)?iterator)'
SPSEQ = r'(const )?std::(shared_ptr<' + VECV + r'>|__shared_ptr<' + VECV + r'.*>|__shared_ptr_access<' + VECV + r'.*>)'
COMMON = {
    'types': {r'value_type': 'unsigned char', UPV: 'mvalue *', VECV: 'pvvec', VECV_IT: 'mvalue *const *', SPSEQ: 'pvvec *', r'(zw_)?value': 'mvalue', r'selector::sel_t': 'unsigned int'},
    'types_are_records': {VECV: True, r'(zw_)?value': True},
    'record_ctypes': ['pvvec', 'mvalue'],
    'record_default': {'pvvec': 'pvvec_new()'},
    'types_prelude': '#include "copy_model.h"\n',
    'virtual': {'zw_value::clone': 'val_clone'},
    'extern': {UPV + r'::operator(->|\*)': {'c': 'PTR_ID', 'by_value': True},
               r'std::__shared_ptr_access<.*>::operator(->|\*)': {'c': 'PTR_ID', 'by_value': True},
               r'std::move': 'VERIF_MOVE', r'std::make_shared': 'seq_new',
               VECV + r'::(push_back|emplace_back)': 'pvvec_push_back', VECV + r'::reserve': 'PVV_RESERVE', VECV + r'::size': 'PVV_SIZE',
               r'(zw_)?value::get_type': {'c': 'MVAL_TYPE', 'by_value': True}, r'value_type::code': {'c': 'VT_CODE', 'by_value': True}, VECV + r'::begin': 'PVV_BEGIN', VECV + r'::end': 'PVV_END',
               r'__gnu_cxx::operator!=.*': {'c': 'IT_NE', 'by_value': True},
               r'__gnu_cxx::__normal_iterator<.*>::operator\*': {'c': 'IT_DEREF', 'by_value': True},
               r'__gnu_cxx::__normal_iterator<.*>::operator\+\+': 'IT_PREINC'},
}
STK_CFG = dict(COMMON, names={'_ZN5stackC1ERKS_': 'stack_copy_ctor'})
SEQ_CFG = dict(COMMON, names={'_ZN9value_seqC1ERKS_': 'value_seq_copy_ctor'})
STK_ROOTS = ['_ZN5stackC1ERKS_']
SEQ_ROOTS = ['_ZN9value_seqC1ERKS_']


def jobs(tier):
    inc = [OUT, os.path.join(vlib.VERIF, 'props'), HERE]
    h = os.path.join(HERE, 'copy_harness.c')
    A = ['--object-bits', '10']
    return [Job('bounded_stack_copy', [h, os.path.join(OUT, 'stk_bodies.c')], 'hb_stack_copy', includes=inc, defines=['UNIT_STK'], kind='bounded',
                unwind=6, timeout=600, cbmc_args=A, note='stack::stack(stack const&), <= 4 values'),
            Job('bounded_seq_copy', [h, os.path.join(OUT, 'seq_bodies.c')], 'hb_seq_copy', includes=inc, kind='bounded', unwind=6, timeout=600,
                cbmc_args=A, note='value_seq::value_seq(value_seq const&) + clone_seq, <= 4 elements'),
            Job('copy_control', [h, os.path.join(OUT, 'stk_bodies.c')], 'hb_copy_control', includes=inc, defines=['UNIT_STK', 'VERIF_CONTROL'],
                kind='control', expect='fail', unwind=6, timeout=300, cbmc_args=A)]


LEVEL = 'other'      # bounded stand-ins only: never reported as proof
TRUSTED = ['tools/cxx2c.py lowering']
ASSUMPTIONS = [
    'value objects, unique_ptr, std::vector, shared_ptr/make_shared are modelled (props/c12/copy_model.h); value::clone() (virtual) is modelled as "a new object with equal contents": clone() of the other value classes (value_closure, value_die, ...) is NOT covered',
    'BOUNDED: stacks / sequences of at most 4 values',
    'SLICE of C12: only the deep-copy mechanism. That ops are const and keep all run-time state in the per-result state area, that caches are append-only, and the behaviour of zw_query_execute / zw_result_next under interleaving are NOT covered by any contract here',
]
EXPLANATION = 'Deep-copy constructors only; see DESIGN.md section 4 C12.'


def spec_files():
    return [os.path.join(HERE, 'copy_harness.c'), os.path.join(HERE, 'copy_model.h')]


def prepare(tier):
    a = vlib.extract('stk', 'libzwerg/stack.cc', STK_CFG, STK_ROOTS, OUT)
    b = vlib.extract('seq', 'libzwerg/value-seq.cc', SEQ_CFG, SEQ_ROOTS, OUT)
    return {'unit': 'libzwerg/stack.cc, libzwerg/value-seq.cc (copy constructors)', 'functions': a.report['functions'] + b.report['functions']}


QUERIES = [('[1, 2, 3] dup add', '<[1, 2, 3, 1, 2, 3]>'), ('[1, 2] dup (|A B| A B add A)', '<[1, 2, 1, 2]|[1, 2]>'),
           ('[1] (|A| A A add A)', '<[1, 1]|[1]>'), ('[[1], 2] dup add length', '<4>'), ('[1, 2] (dup add, )', '<[1, 2, 1, 2]> <[1, 2]>')]


def replay(r):
    res = vlib.zw_queries([q for q, e in QUERIES], OUT)
    bad = []
    for (q, e), (cnt, txt) in zip(QUERIES, res):
        if cnt is None or (txt or '').strip() != e:
            bad.append('`%s` yields %s, expected %s' % (q, txt if cnt is not None else 'an error/crash', e))
    return {'reproduced': bool(bad), 'violations_on_real_library': bad[:6], 'queries': len(QUERIES)}
