/* Model for the lowering of the deep-copy constructors (TRUSTED):
 *   value                         an object {content}; unique_ptr<value> = plain pointer
 *   value::clone()                (virtual) a NEW object with the same content (val_clone), logged
 *   std::vector<unique_ptr<value>>   small array of value pointers
 *   shared_ptr<seq_t>, make_shared<seq_t>(v)   pointer to a NEW vector object holding v
 */
#ifndef C12_COPY_MODEL_H
#define C12_COPY_MODEL_H
#include "../common.h"
#include <stdlib.h>
#define VMAX 4
typedef struct mvalue { int content; unsigned char type; } mvalue;
#define MVAL_TYPE(v) ((v).type)      /* receives the object (lowered *ptr) */
#define VT_CODE(t) (t)
typedef struct pvvec { mvalue *d[VMAX]; unsigned long n; } pvvec;
#ifdef VERIF_CBMC
#define M_ASSERT(c, msg) __CPROVER_assert(c, "copy model: " msg)
#else
#define M_ASSERT(c, msg) ((c) ? (void)0 : verif_assert_fail("copy model: " msg))
#endif
#define PTR_ID(p) (p)
#define VERIF_MOVE(p) (p)
extern unsigned g_clones;
static inline mvalue *val_clone(const mvalue *v)
{
  M_ASSERT(v != 0, "clone() through a non-null pointer");
  mvalue *r = malloc(sizeof(mvalue));
#ifdef VERIF_CBMC
  __CPROVER_assume(r != 0);
#endif
  r->content = v->content; r->type = v->type; g_clones++;
  return r;
}
static inline pvvec pvvec_new(void) { pvvec v; v.n = 0; for (unsigned i = 0; i < VMAX; ++i) v.d[i] = 0; return v; }
static inline void pvvec_push_back(pvvec *v, mvalue *const *x) { M_ASSERT(v->n < VMAX, "copy fits"); if (v->n < VMAX) v->d[v->n++] = *x; }
#define PVV_RESERVE(v, n) ((void)0)
#define PVV_SIZE(v) ((v)->n)
#define PVV_BEGIN(v) (&(v)->d[0])
#define PVV_END(v) (&(v)->d[(v)->n <= VMAX ? (v)->n : VMAX])
static inline pvvec *seq_new(const pvvec *v)
{
  pvvec *r = malloc(sizeof(pvvec));
#ifdef VERIF_CBMC
  __CPROVER_assume(r != 0);
#endif
  *r = *v;
  return r;
}
#define IT_NE(a, b) ((_Bool)((a) != (b)))
#define IT_DEREF(a) (a)
#define IT_PREINC(ap) (++*(ap), (ap))
#endif
