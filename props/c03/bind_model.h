/* Model for the lowering of bindings.cc (TRUSTED):
 *   std::string (an identifier)      an atom `name_t` in [0, NAMES): equal atoms <=> equal strings
 *   std::map<std::string, T>         a total table over the atoms: slot k is {has, first = k, second}
 *                                    find(k) = slot k if has, else end; emplace(k, v) sets slot k if !has
 *                                    iteration = ascending atoms with `has`
 *   std::map<unsigned, std::string>  table over ids [0, NAMES)
 *   throw std::runtime_error(...)    verif_raised (message construction dropped)
 */
#ifndef C03_BIND_MODEL_H
#define C03_BIND_MODEL_H
#include "../common.h"
#define NAMES 4
typedef unsigned char name_t;
#define NAME_OK(k) ((k) < NAMES)
#define VERIF_MOVE(p) (p)
#define VERIF_REF(p) (p)
#define NAME_COPY(p) (*(p))
typedef struct namevec { name_t d[NAMES]; unsigned n; } namevec;
#define NAMEVEC_BEGIN(v) (&(v)->d[0])
#define NAMEVEC_END(v) (&(v)->d[(v)->n <= NAMES ? (v)->n : NAMES])
#define NAMEVEC_INC(itp) (++*(itp), (itp))
#define PTR_ID(p) (p)
#define IT_NE(a, b) ((_Bool)((a) != (b)))
#define IT_EQ(a, b) ((_Bool)((a) == (b)))
/* the tables; binding and upref are the records generated from bindings.hh, declared before use by the prelude */
#endif
