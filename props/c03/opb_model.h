/* Abstract model for the lowering of the binder / reader operators of op.cc (TRUSTED):
 *   stack                         a bounded array of value identities (ints, non-zero)
 *   unique_ptr<stack>/<value>     plain pointer / plain int (ownership not modelled)
 *   value::clone()                the identity on value identities
 *   vector<unique_ptr<value>>     small int vector (the environment being captured)
 *   make_unique<value_closure>(layout, rdv, origin, op, env, pos)   records the captured environment in g_closure
 *   scon::get<op_bind::state>(loc)        g_bind_state[loc]   (one state object per reserved location)
 *   scon::get<op_apply::rendezvous>(loc)  g_rdv; value_closure::get_env(id) = g_closure.env[id]
 *   op::next                      upstream yields g_up (once), then nullptr
 */
#ifndef C03_OPB_MODEL_H
#define C03_OPB_MODEL_H
#include "../common.h"
#define SMAX 8
#define NLOC 2
typedef struct mstack { int v[SMAX]; unsigned n; } mstack;
typedef struct mscon { char dummy; } mscon;
typedef struct ivec { int d[SMAX]; unsigned n; } ivec;
typedef struct mclosure { int env[SMAX]; unsigned n; } mclosure;
typedef struct mlayout { char dummy; } mlayout;
typedef struct mrdv { mclosure *closure; } mrdv;
#ifdef VERIF_CBMC
#define M_ASSERT(c, msg) __CPROVER_assert(c, "binder model: " msg)
#else
#define M_ASSERT(c, msg) ((c) ? (void)0 : verif_assert_fail("binder model: " msg))
#endif
#define PTR_ID(p) (p)
#define PTR_BOOL(p) ((_Bool)((p) != 0))
#define VERIF_MOVE(p) (p)
#define VAL_CLONE(v) (M_ASSERT((v) != 0, "clone() through a non-null value pointer"), (v))
#define UPV_ASSIGN(lhs, rhs) (*(lhs) = *(rhs), (lhs))
static inline ivec ivec_new(void) { ivec v; v.n = 0; return v; }
static inline void ivec_push_back(ivec *v, int *x) { M_ASSERT(v->n < SMAX, "captured values fit"); if (v->n < SMAX) v->d[v->n++] = *x; }
static inline ivec ivec_sized(unsigned long n) { ivec v; M_ASSERT(n <= SMAX, "captured values fit"); v.n = n <= SMAX ? n : SMAX; for (unsigned i = 0; i < SMAX; ++i) v.d[i] = 0; return v; }
static inline int *ivec_at(ivec *v, unsigned long i) { M_ASSERT(i < v->n, "operator[] within size()"); return &v->d[i < SMAX ? i : 0]; }
#define IVEC_SIZE(v) ((unsigned long)(v)->n)
static inline int mstack_pop(mstack *s)
{
  if (s->n == 0) { verif_raised = 2; return 0; }   /* stack::need throws */
  return s->v[--s->n];
}
static inline void mstack_push(mstack *s, int val) { M_ASSERT(s->n < SMAX, "result fits the modelled depth"); if (s->n < SMAX) s->v[s->n++] = val; }
extern mclosure g_closure; extern unsigned g_closures_made;
#define CLOSURE_ID 1000000
#define closure_new(layout, rdv_ll, origin, op, env, pos) closure_new_(env)
static inline int closure_new_(ivec *env)
{
  g_closure.n = env->n;
  for (unsigned i = 0; i < SMAX; ++i) g_closure.env[i] = i < env->n ? env->d[i] : 0;
  g_closures_made++;
  return CLOSURE_ID;
}
#endif
