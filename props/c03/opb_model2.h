#ifndef C03_OPB_MODEL2_H
#define C03_OPB_MODEL2_H
extern op_bind__state g_bind_state[NLOC];
extern op g_upstream_op;
extern mstack *g_up; extern unsigned g_pulled;
static inline op_bind__state *scon_get_bind_state(mscon *sc, unsigned long loc)
{ M_ASSERT(loc < NLOC, "state location reserved"); return &g_bind_state[loc < NLOC ? loc : 0]; }
extern mrdv g_rdv;
static inline mrdv *scon_get_rdv(mscon *sc, unsigned long loc) { return &g_rdv; }
static inline int closure_get_env(mclosure *c, unsigned id) { M_ASSERT(id < c->n, "up-value id within the captured environment"); return c->env[id < SMAX ? id : 0]; }
static inline mstack *op_next_model(op *o, mscon *sc)
{
  if (g_pulled == 0) { g_pulled = 1; return g_up; }
  return (mstack *)0;
}
#endif
