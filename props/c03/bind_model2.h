/* second half: the map tables need the generated record types binding / upref.
 * Table layout: slot[k] for atom k, slot[NAMES] is end(); WELL-FORMED tables have slot[k].first == k for all
 * k <= NAMES (an iterator is a pointer to a slot, so ++ can find its way from the slot alone). */
#ifndef C03_BIND_MODEL2_H
#define C03_BIND_MODEL2_H
#ifdef VERIF_CBMC
#define M_ASSERT(c, msg) __CPROVER_assert(c, "bindings model: " msg)
#else
#define M_ASSERT(c, msg) ((c) ? (void)0 : verif_assert_fail("bindings model: " msg))
#endif
/* ---- std::map<std::string, binding> */
static inline bentry *bmap_end(bmap *m) { return &m->slot[NAMES]; }
static inline bentry *bmap_find(bmap *m, const name_t *k)
{
  M_ASSERT(NAME_OK(*k), "name is an atom");
  return (NAME_OK(*k) && m->slot[*k].has) ? &m->slot[*k] : &m->slot[NAMES];
}
static inline void bmap_emplace_bind(bmap *m, const name_t *k, op_bind *const *op)
{
  M_ASSERT(NAME_OK(*k), "name is an atom");
  if (NAME_OK(*k) && !m->slot[*k].has)
    {
      m->slot[*k].has = 1; m->slot[*k].first = *k;
      m->slot[*k].second.m_bind = *op; m->slot[*k].second.m_bi = 0;      /* binding::binding (op_bind &) */
    }
}
/* ---- std::map<std::string, upref> */
static inline uentry *umap_end(umap *m) { return &m->slot[NAMES]; }
static inline uentry *umap_find(umap *m, const name_t *k)
{
  M_ASSERT(NAME_OK(*k), "name is an atom");
  return (NAME_OK(*k) && m->slot[*k].has) ? &m->slot[*k] : &m->slot[NAMES];
}
static inline uentry *umap_from(umap *m, unsigned from)
{
  for (unsigned j = 0; j < NAMES; ++j) if (j >= from && m->slot[j].has) return &m->slot[j];
  return &m->slot[NAMES];
}
static inline uentry *umap_begin(umap *m) { return umap_from(m, 0); }
static inline uentry **umap_inc(uentry **itp)
{
  uentry *p = *itp;
  M_ASSERT(p->first < NAMES, "++ on a dereferenceable iterator");
  unsigned k = p->first < NAMES ? p->first : 0;
  *itp = umap_from((umap *)(p - k), k + 1);
  return itp;
}
static inline umap umap_new(void) { umap m; for (unsigned k = 0; k <= NAMES; ++k) { m.slot[k].has = 0; m.slot[k].first = k; } return m; }
static inline void umap_emplace(umap *m, const name_t *k, const upref *v)
{
  M_ASSERT(NAME_OK(*k), "name is an atom");
  if (NAME_OK(*k) && !m->slot[*k].has) { m->slot[*k].has = 1; m->slot[*k].first = *k; m->slot[*k].second = *v; }   /* emplace does not overwrite */
}
static inline void umap_insert_range(umap *m, uentry *b, uentry *e)       /* map::insert (first, last): existing keys are kept */
{
  if (b == e) return;
  uentry *base = b - b->first;
  for (unsigned k = 0; k < NAMES; ++k)
    {
      uentry *s = base + k;
      if (s >= b && s < e && s->has && !m->slot[k].has) m->slot[k] = *s;
    }
}
/* bindings::names_closure (): the names bound in the scope or any enclosing one (ascending) */
static inline namevec names_closure_model(const bindings *b)
{
  namevec r; r.n = 0;
  for (unsigned k = 0; k < NAMES; ++k)
    {
      _Bool bound = 0; const bindings *s = b;
      for (unsigned d = 0; d < 3; ++d) { if (s == 0) break; if (s->m_bindings.slot[k].has) bound = 1; s = s->m_super; }
      r.d[k] = 0;
      if (bound) r.d[r.n++] = (name_t)k;
    }
  return r;
}
/* ---- std::map<unsigned, std::string> */
static inline idmap idmap_new(void) { idmap r; for (unsigned j = 0; j < NAMES; ++j) { r.has[j] = 0; r.name[j] = 0; } return r; }
static inline name_t *idmap_index(idmap *m, const unsigned *id)
{
  M_ASSERT(*id < NAMES, "id within the table");
  unsigned i = *id < NAMES ? *id : 0; m->has[i] = 1; return &m->name[i];
}
#endif
