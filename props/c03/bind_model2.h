/* second half: the map tables need the generated record types binding / upref.
 * Table layout: slot[k] for atom k, slot[NAMES] is end(); WELL-FORMED tables have slot[k].first == k for all
 * k <= NAMES (an iterator is a pointer to a slot, so ++ can find its way from the slot alone). */
#ifndef C03_BIND_MODEL2_H
#define C03_BIND_MODEL2_H
#ifdef VERIF_CBMC
#define M_ASSERT(c, msg) __CPROVER_assert(c, "bindings model: " msg)
#else
#define M_ASSERT(c, msg) ((c) ? (void)0 : verif_assert_fail("bindings model: " msg))
#endif
/* ---- std::map<std::string, binding> */
static inline bentry *bmap_end(bmap *m) { return &m->slot[NAMES]; }
static inline bentry *bmap_find(bmap *m, const name_t *k)
{
  M_ASSERT(NAME_OK(*k), "name is an atom");
  return (NAME_OK(*k) && m->slot[*k].has) ? &m->slot[*k] : &m->slot[NAMES];
}
static inline void bmap_emplace_bind(bmap *m, const name_t *k, op_bind *const *op)
{
  M_ASSERT(NAME_OK(*k), "name is an atom");
  if (NAME_OK(*k) && !m->slot[*k].has)
    {
      m->slot[*k].has = 1; m->slot[*k].first = *k;
      m->slot[*k].second.m_bind = *op; m->slot[*k].second.m_bi = 0;      /* binding::binding (op_bind &) */
    }
}
/* ---- std::map<std::string, upref> */
static inline uentry *umap_end(umap *m) { return &m->slot[NAMES]; }
static inline uentry *umap_find(umap *m, const name_t *k)
{
  M_ASSERT(NAME_OK(*k), "name is an atom");
  return (NAME_OK(*k) && m->slot[*k].has) ? &m->slot[*k] : &m->slot[NAMES];
}
static inline uentry *umap_from(umap *m, unsigned from)
{
  for (unsigned j = 0; j < NAMES; ++j) if (j >= from && m->slot[j].has) return &m->slot[j];
  return &m->slot[NAMES];
}
static inline uentry *umap_begin(umap *m) { return umap_from(m, 0); }
static inline uentry **umap_inc(uentry **itp)
{
  uentry *p = *itp;
  M_ASSERT(p->first < NAMES, "++ on a dereferenceable iterator");
  unsigned k = p->first < NAMES ? p->first : 0;
  *itp = umap_from((umap *)(p - k), k + 1);
  return itp;
}
/* ---- std::map<unsigned, std::string> */
static inline idmap idmap_new(void) { idmap r; for (unsigned j = 0; j < NAMES; ++j) { r.has[j] = 0; r.name[j] = 0; } return r; }
static inline name_t *idmap_index(idmap *m, const unsigned *id)
{
  M_ASSERT(*id < NAMES, "id within the table");
  unsigned i = *id < NAMES ? *id : 0; m->has[i] = 1; return &m->name[i];
}
#endif
