/* C03 (slice): build_pred of build.cc -- ?(E) and !(E): "bindings never leak out of sub-expression contexts".
   The sub-expression E is built in a scope object of its own, nested in the current one: together with the contract of
   bindings::bind (the enclosing scope is not touched, job `bind`) and of bindings::find (innermost first, job
   bounded_find_chain) nothing E binds is visible after the assertion, and E sees the outer names. */
#include "bp_types.h"
#include "bp_protos.h"
int verif_raised;
unsigned g_exec_calls; const mtree *g_exec_tree; const mbindings *g_exec_scope; const mbindings *g_exec_scope_super;
mop g_origin_obj, g_op_obj;
_Bool nondet_bool(void);

void h_build_pred_scope(void)
{
  mtree body, subx, neg; mlayout l; muprefs up; mbindings bn; mbuiltin bi;
  bn.m_super = 0;
  body.m_tt = tree_type__CAT; body.m_children.d = 0; body.m_children.n = 0; body.m_builtin = &bi;
  subx.m_tt = tree_type__PRED_SUBX_ANY; subx.m_children.d = &body; subx.m_children.n = 1; subx.m_builtin = &bi;
  neg.m_tt = tree_type__PRED_NOT; neg.m_children.d = &subx; neg.m_children.n = 1; neg.m_builtin = &bi;
  _Bool negated = nondet_bool();                     /* ?(E) or !(E) */
  g_exec_calls = 0; verif_raised = 0;
  int p = build_pred(negated ? &neg : &subx, &l, 0, &bn, &up);
  __CPROVER_assert(verif_raised == 0, "no error, no failed assert()");
  __CPROVER_assert(g_exec_calls == 1 && g_exec_tree == &body, "the sub-expression is built exactly once");
  __CPROVER_assert(g_exec_scope != &bn, "the sub-expression is NOT built in the enclosing scope itself: what it binds cannot leak");
  __CPROVER_assert(g_exec_scope_super == &bn, "its scope is nested in the enclosing one: outer names stay visible inside");
  __CPROVER_assert(bn.m_super == 0, "the enclosing scope object is not modified");
  __CPROVER_assert(p == (negated ? 1007 : 7), "the predicate built is (the negation of) the sub-expression predicate");
}
