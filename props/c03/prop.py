"""C03 (slice) -- scope chain, rebind check, up-value ids; binder/reader operators."""
import os, sys
sys.path.insert(0, os.path.join(os.path.dirname(__file__), '..', '..', 'tools'))
import vlib
from vlib import Job
sys.path.insert(0, os.path.join(os.path.dirname(__file__), '..', 'bx'))
import bxcfg

PID = 'C03'
HERE = os.path.dirname(os.path.abspath(__file__))
OUT = os.path.join(vlib.BUILD, 'c03')
STR = r'(const )?std::(__cxx11::)?(basic_string<char(, std::char_traits<char>, std::allocator<char>)?>|string)'
BMAP = r'(const )?std::map<' + STR + r', binding(, .*)?>'
UMAP = r'(const )?std::map<' + STR + r', upref(, .*)?>'
IDMAP = r'(const )?std::map<unsigned int, ' + STR + r'(, .*)?>'
BIT = r'(const )?std::(_Rb_tree_(const_)?iterator<std::pair<const ' + STR + r', binding>>|map<' + STR + r', binding.*>::(const_)?iterator)'
UIT = r'(const )?std::(_Rb_tree_(const_)?iterator<std::pair<const ' + STR + r', upref>>|map<' + STR + r', upref.*>::(const_)?iterator)'
BPAIR = r'(const )?std::pair<const ' + STR + r', binding>'
UPAIR = r'(const )?std::pair<const ' + STR + r', upref>'
CFG = {
    'names': {'bindings::bind': 'bindings_bind', 'bindings::find': 'bindings_find', 'uprefs::find': 'uprefs_find',
              'uprefs::refd_ids': 'uprefs_refd_ids', 'binding::get_bind': 'binding_get_bind', 'binding::is_builtin': 'binding_is_builtin',
              'upref::is_builtin': 'upref_is_builtin', 'upref::mark_used': 'upref_mark_used', 'upref::is_id_used': 'upref_is_id_used',
              'upref::get_id': 'upref_get_id', '_ZN6uprefsC1ER8bindingsRS_': 'uprefs_ctor_nested'},
    'types': {r'(const )?std::vector<' + STR + r'(, std::allocator<' + STR + r'>)?>': 'namevec',
              r'(const )?(__gnu_cxx::__normal_iterator<(const )?' + STR + r' \*, std::vector<' + STR + r'.*>>|std::vector<' + STR + r'.*>::(const_)?iterator)': 'name_t *',
              r'std::reference_wrapper<op_bind>': 'op_bind *', r'op_bind': 'op_bind', r'builtin': 'builtin', STR: 'name_t', BMAP: 'bmap', UMAP: 'umap', IDMAP: 'idmap', BIT: 'bentry *', UIT: 'uentry *', BPAIR: 'bentry', UPAIR: 'uentry'},
    'types_are_records': {BMAP: True, UMAP: True, IDMAP: True, BPAIR: True, UPAIR: True, r'(const )?std::vector<' + STR + r'(, std::allocator<' + STR + r'>)?>': True},
    'record_ctypes': ['bmap', 'umap', 'idmap', 'bentry', 'uentry', 'namevec'],
    'record_default': {'idmap': 'idmap_new()', 'umap': 'umap_new()'},
    'opaque_records': ['op_bind', 'builtin'],
    'types_prelude': '#include "bind_model.h"\ntypedef struct op_bind op_bind; typedef struct builtin builtin;\n',
    'types_after': {'binding': 'typedef struct bentry { _Bool has; name_t first; binding second; } bentry;\n'
                               'typedef struct bmap { bentry slot[NAMES + 1]; } bmap;',
                    'upref': 'typedef struct uentry { _Bool has; name_t first; upref second; } uentry;\n'
                             'typedef struct umap { uentry slot[NAMES + 1]; } umap;\n'
                             'typedef struct idmap { _Bool has[NAMES]; name_t name[NAMES]; } idmap;'},
    'bodies_prelude': '#include "bind_model2.h"\n',
    'extern': {'__assert_fail': 'verif_assert_fail_libc',
               BMAP + r'::find': 'bmap_find', BMAP + r'::end': 'bmap_end', BMAP + r'::emplace': 'bmap_emplace_bind',
               r'bindings::names_closure': 'names_closure_model', UMAP + r'::emplace': 'umap_emplace', UMAP + r'::insert': 'umap_insert_range',
               r'std::vector<' + STR + r'.*>::begin': 'NAMEVEC_BEGIN', r'std::vector<' + STR + r'.*>::end': 'NAMEVEC_END',
               r'__gnu_cxx::operator!=.*': {'c': 'IT_NE', 'by_value': True},
               r'__gnu_cxx::__normal_iterator<.*>::operator\*': {'c': 'PTR_ID', 'by_value': True},
               r'__gnu_cxx::__normal_iterator<.*>::operator\+\+': 'NAMEVEC_INC',
               UMAP + r'::find': 'umap_find', UMAP + r'::end': 'umap_end', UMAP + r'::begin': 'umap_begin',
               IDMAP + r'::operator\[\]': 'idmap_index',
               r'std::_Rb_tree_(const_)?iterator<.*>::operator->': {'c': 'PTR_ID', 'by_value': True},
               r'std::_Rb_tree_(const_)?iterator<.*>::operator\*': {'c': 'PTR_ID', 'by_value': True},
               r'(std::_Rb_tree_(const_)?iterator<.*>::|std::)operator!=(\|.*_Rb_tree_.*)?': {'c': 'IT_NE', 'by_value': True},
               r'(std::_Rb_tree_(const_)?iterator<.*>::|std::)operator==(\|.*_Rb_tree_.*)?': {'c': 'IT_EQ', 'by_value': True},
               r'std::_Rb_tree_(const_)?iterator<.*>::operator\+\+': 'umap_inc',
               r'std::move': 'VERIF_MOVE', r'std::ref': 'VERIF_REF'},
    'raise': {},
}
SPO = r'(const )?std::(shared_ptr<(op|op_origin)>|__shared_ptr<(op|op_origin).*>|__shared_ptr_access<(op|op_origin).*>)'
UPS = r'(const )?std::unique_ptr<stack(, std::default_delete<stack>)?>'
UPV = r'(const )?std::unique_ptr<(zw_)?value(, std::default_delete<(zw_)?value>)?>'
UPC = r'(const )?std::unique_ptr<value_closure(, std::default_delete<value_closure>)?>'
VECV = r'std::vector<' + UPV + r'(, std::allocator<' + UPV + r'>)?>'
OPB_CFG = {
    'names': {'op_bind::next': 'op_bind_next', 'op_bind::current': 'op_bind_current', 'op_read::next': 'op_read_next',
              'op_upread::next': 'op_upread_next', 'op_lex_closure::next': 'op_lex_closure_next'},
    'types': {SPO: 'op *', UPS: 'mstack *', UPV: 'int', UPC: 'int', VECV: 'ivec', r'stack': 'mstack', r'std::nullptr_t': 'void *',
              r'scon': 'mscon', r'layout::loc': 'unsigned long', r'layout': 'mlayout', r'(zw_)?value': 'int', r'value_closure': 'mclosure',
              r'op_apply::rendezvous': 'mrdv'},
    'types_are_records': {VECV: True, r'stack': True, r'scon': True, r'layout': True, r'value_closure': True, r'op_apply::rendezvous': True},
    'record_ctypes': ['ivec', 'mstack', 'mscon', 'mlayout', 'mclosure', 'mrdv'],
    'record_default': {'ivec': 'ivec_new()'},
    'types_prelude': '#include "opb_model.h"\n',
    'bodies_prelude': '#include "opb_model2.h"\n',
    'virtual': {'op::next': 'op_next_model', 'zw_value::clone': 'VAL_CLONE'},
    'extern_may_raise': ['mstack_pop'],
    'extern': {r'std::__shared_ptr_access<(op|op_origin).*>::operator->': {'c': 'PTR_ID', 'by_value': True},
               UPS + r'::operator(->|\*)': {'c': 'PTR_ID', 'by_value': True},
               UPV + r'::operator(->|\*)': {'c': 'PTR_ID', 'by_value': True},
               UPS + r'::operator bool': {'c': 'PTR_BOOL', 'by_value': True},
               UPV + r'::operator=': 'UPV_ASSIGN',
               r'std::move': 'VERIF_MOVE', r'std::make_unique\|.*value_closure.*': 'closure_new',
               r'scon::get\|.*op_bind::state.*': 'scon_get_bind_state', r'scon::get\|.*rendezvous.*': 'scon_get_rdv',
               r'value_closure::get_env': 'closure_get_env',
               r'stack::pop': 'mstack_pop', r'stack::push': 'mstack_push',
               VECV + r'::push_back': 'ivec_push_back', VECV + r'::ctor\|.*size_type.*': 'ivec_sized', VECV + r'::operator\[\]': 'ivec_at',
               VECV + r'::size': 'IVEC_SIZE'},
}
OPB_ROOTS = ['op_bind::next', 'op_bind::current', 'op_read::next', 'op_upread::next', 'op_lex_closure::next']
ROOTS = ['bindings::bind', 'bindings::find', 'uprefs::find', 'uprefs::refd_ids', '_ZN6uprefsC1ER8bindingsRS_']




BX_DROPPED = {}


def jobs(tier):
    inc = [OUT, os.path.join(vlib.VERIF, 'props'), HERE]
    bsrc = [os.path.join(HERE, 'bind_harness.c'), os.path.join(OUT, 'bind_bodies.c')]
    osrc = [os.path.join(HERE, 'opb_harness.c'), os.path.join(OUT, 'opb_bodies.c')]
    J = []
    def add(name, src, h, kind, note, **kw):
        J.append(Job(name, src, h, includes=inc, kind=kind, unwind=9, timeout=600, note=note, **kw))
    add('bind', bsrc, 'h_bind', 'proof', 'bindings::bind (loop-free): any well-formed scope, any name, any probe name', inputs=['name', 'q', 'was_bound_here'])
    add('uprefs_find', bsrc, 'h_uprefs_find', 'proof', 'uprefs::find (loop-free) + invariant "ids in use are exactly 0..m_nextid-1"', inputs=['name', 'q', 'next0'])
    add('bounded_find_chain', bsrc, 'hb_find_chain', 'bounded', 'bindings::find, recursion over a chain of <= 3 scopes', inputs=['name', 'depth'])
    add('bounded_scope_law', bsrc, 'hb_scope_law', 'bounded', 'shadowing / no leak law over two nested scopes', inputs=['name', 'q'])
    add('bounded_refd_ids', bsrc, 'hb_refd_ids', 'bounded', 'uprefs::refd_ids over the 4-name table', inputs=['id', 'k'])
    add('bounded_uprefs_ctor', bsrc, 'hb_uprefs_ctor', 'bounded', 'uprefs::uprefs (bindings &, uprefs &): scope chain of <= 2 scopes, 4-name tables; names_closure modelled', inputs=['q'])
    add('bind_next', osrc, 'h_bind_next', 'proof', 'op_bind::next (loop-free), any stack of depth <= 7', inputs=['exhausted'])
    add('read_next', osrc, 'h_read_next', 'proof', 'op_read::next + op_bind::current (loop-free)', inputs=['exhausted'])
    add('bind_then_read', osrc, 'h_bind_then_read', 'lemma', 'bind followed by read restores the stack')
    add('upread', osrc, 'h_upread', 'proof', 'op_upread::next (loop-free)')
    psrc = [os.path.join(HERE, 'bp_harness.c'), os.path.join(OUT, 'bp_bodies.c')]
    add('build_pred_scope', psrc, 'h_build_pred_scope', 'proof', 'build_pred (build.cc), loop-free: the sub-expression of ?( ) / !( ) gets a scope object of its own nested in the current one', inputs=['negated'])
    add('bounded_lex_closure', osrc, 'hb_lex_closure', 'bounded', 'op_lex_closure::next with <= 4 up-values')
    J.append(Job('control', bsrc, 'h_control', includes=inc, defines=['VERIF_CONTROL'], kind='control', expect='fail', unwind=9, timeout=300))
    J.append(Job('opb_control', osrc, 'h_opb_control', includes=inc, defines=['VERIF_CONTROL'], kind='control', expect='fail', unwind=9, timeout=300))
    J += bxcfg.jobs(vlib, Job, OUT, ['alt', 'scope', 'read', 'bind', 'block', 'format'], control=False)
    return J


LEVEL = 'proof'
TRUSTED = ['tools/cxx2c.py lowering']
ASSUMPTIONS = [
    'build_exec (build.cc): only the cases IFELSE ALT SCOPE CAPTURE CLOSE_STAR CLOSE_PLUS OR CAT READ BIND BLOCK FORMAT SUBX_EVAL ASSERT of its switch are lowered (cxx2c keep_cases; the other cases are dropped and reaching one is a failed obligation); the recursive call is an ASSUMED contract with a ghost call log (records tree, layout, scope, upstream; never shrinks the layout -- re-established for the lowered cases), operator constructors that take a layout reserve an arbitrary non-empty range at its end (contract of layout::reserve, C13), layout::add_union by its C13 contract (props/bx/bx_model.h)',
    'identifiers are atoms (equal atoms <=> equal strings); std::map<std::string,T> is a total table over 4 atoms (props/c03/bind_model*.h); the functions under proof touch only the slot of their argument and the obligations are stated for an arbitrary probe name',
    'throw std::runtime_error -> error flag, message construction dropped; assert() failure -> error flag',
    'operators: stacks are arrays of value identities of depth <= 7, unique_ptr = plain pointer/int, value::clone() = identity, scon::get<state>(loc) = one state object per location, value_closure construction records the captured environment (props/c03/opb_model*.h)',
    'build_pred (build.cc): trees, layout, preds and build_exec are modelled (props/c03/bp_model.h); only the scope handed to build_exec is checked',
    'build_exec READ/BIND/BLOCK cases: bindings::find, uprefs::find, uprefs::refd_ids and the uprefs constructor are ASSUMED by the contracts checked in the bind unit of this property (what the scope chain and the enclosing table know is arbitrary per name); identifiers are atoms; one job per number of up-values 0..3 of a block',
    'FORMAT case: one job per number (0..3) and kinds (literal / directive) of the pieces of a format string',
    'SLICE: names_closure, op_apply::substate and the parser are NOT covered',
]
EXPLANATION = 'Scope chain, rebind check, up-value ids and the binder/reader operators; see DESIGN.md section 4 C03.'


def spec_files():
    return [os.path.join(vlib.VERIF, 'props', 'bx', 'bx_harness.c'), os.path.join(vlib.VERIF, 'props', 'bx', 'bx_model.h')] + [os.path.join(HERE, f) for f in ('bind_harness.c', 'opb_harness.c', 'bp_harness.c', 'bind_model.h', 'bind_model2.h', 'opb_model.h', 'opb_model2.h', 'bp_model.h')]


def prepare(tier):
    lw = vlib.extract('bind', 'libzwerg/bindings.cc', CFG, ROOTS, OUT)
    ow = vlib.extract('opb', 'libzwerg/op.cc', OPB_CFG, OPB_ROOTS, OUT)
    pw = vlib.extract('bp', 'libzwerg/build.cc', BP_CFG, BP_ROOTS, OUT)
    ow.report['functions'] += pw.report['functions']
    global BX_DROPPED
    bxw, BX_DROPPED = bxcfg.prepare(vlib, OUT)
    return {'build_exec_cases_lowered': BX_DROPPED.get('kept'), 'build_exec_cases_dropped_by_extraction': BX_DROPPED.get('dropped'), 'build_exec_functions': bxw.report['functions'], 'unit': 'libzwerg/bindings.cc, libzwerg/op.cc (binder/reader operators)', 'functions': lw.report['functions'] + ow.report['functions']}


QUERIES = [('1 2 (|A B| A B)', '<1|2>'), ('1 2 (|A B| B A)', '<2|1>'), ('7 (|A| 8 (|A| A))', '<8>'), ('1 (|A| 2 (|B| A B))', '<1|2>'),
           ('5 let A := 6; A', '<5|6>'), ('1 2 let A B := 3 4; A B', '<1|2|3|4>'), ('1 (|A| {A}) apply', '<1>'),
           ('1 (|A| 2 (|B| {A B})) apply', '<1|2>'), ('1 2 (|A B| {B {A} apply}) apply', '<2|1>'), ('1 (|A| (2 (|A| A), A))', '<2> <1>'),
           ('let A := 1; let A := 2; A', None), ('B', None), ('1 (|A| A) A', None), ('(1, 2) (|A| A A)', '<1|1> <2|2>'),
           ('1 (|A| (2, 3) (|B| A B))', '<1|2> <1|3>'), ('4 (|A| {A}) (|F| 9 (|A| F))', '<4>'), ('1 2 3 (|A B C| {C B A}) apply', '<3|2|1>'),
           ('1 (|A| 2 (|B| {A B})) (|F| 3 (|A| 4 (|B| F)))', '<1|2>'),
           ('5 ?(let A := 1;) A', None), ('5 !(let A := 1; 0 1 ?eq) A', None), ('"%( let A := 1; A %)" A', None), ('(let A := 1;)? A', None),
           ('(0, 5) (?(1 ?lt) let A := 7;)? A', None), ('let A := 1; ?(let A := 2;) A', '<1>'), ('7 (let A := 2; A, let A := 3; A)', '<7|2> <7|3>'), ('(let A := 1; , 2) A', None), ('1 (let A := 2; , ) let A := 3; A', '<1|3> <1|3>'),
           ('1 2 (|A B| {B {A} apply} apply)', '<2|1>'), ('1 2 3 (|A B C| {C {A B C} apply} apply)', '<3|1|2|3>'), ('10 3 (|A B| {A B sub}) apply', '<7>'),
           ('1 (|A| {2 (|A| {A} apply)} apply)', '<2>'), ('1 2 (|A B| {A 10 add (|A| {A B})} apply apply)', '<11|2>')]


def replay(r):
    res = vlib.zw_queries([q for q, e in QUERIES], OUT)
    bad = []
    for (q, e), (cnt, txt) in zip(QUERIES, res):
        if e is None:
            if cnt is not None:
                bad.append('`%s` compiles and yields %s, expected a compile-time error' % (q, txt))
        elif cnt is None or (txt or '').strip() != e:
            bad.append('`%s` yields %s, expected %s' % (q, txt if cnt is not None else 'an error', e))
    return {'reproduced': bool(bad), 'violations_on_real_library': bad[:6], 'queries': len(QUERIES)}


# ---- build.cc: build_pred -- which scope the sub-expression of ?( ) / !( ) is built in
BP_CFG = {
    'names': {'(anonymous namespace)::build_pred': 'build_pred'},
    'types': {r'(const )?std::unique_ptr<pred(, std::default_delete<pred>)?>': 'int',
              r'(const )?std::unique_ptr<pred_(not|or|and|subx_any)(, std::default_delete<pred_(not|or|and|subx_any)>)?>': 'int',
              r'(const )?std::(shared_ptr<(op|op_origin)>|__shared_ptr<(op|op_origin).*>)': 'mop *',
              r'(const )?std::(shared_ptr<const builtin>|__shared_ptr<const builtin.*>|__shared_ptr_access<const builtin.*>)': 'mbuiltin *',
              r'layout::loc': 'unsigned long', r'layout': 'mlayout', r'uprefs': 'muprefs', r'tree': 'mtree', r'bindings': 'mbindings',
              r'(const )?std::vector<tree(, std::allocator<tree>)?>': 'mtreevec', r'builtin': 'mbuiltin'},
    'types_are_records': {r'layout': True, r'uprefs': True, r'tree': True, r'bindings': True, r'(const )?std::vector<tree(, std::allocator<tree>)?>': True, r'builtin': True},
    'record_ctypes': ['mlayout', 'muprefs', 'mtree', 'mbindings', 'mtreevec', 'mbuiltin'],
    'types_prelude': '#include "bp_model.h"\n',
    'virtual': {'builtin::build_pred': 'builtin_build_pred_model'},
    'extern': {'__assert_fail': 'verif_assert_fail_libc', 'abort': 'verif_abort',
               r'\(anonymous namespace\)::build_exec': 'build_exec_model',
               r'std::make_unique\|.*pred_not.*': 'mk_pred_not', r'std::make_unique\|.*pred_or.*': 'mk_pred_or',
               r'std::make_unique\|.*pred_and.*': 'mk_pred_and', r'std::make_unique\|.*pred_subx_any.*': 'mk_pred_subx_any',
               r'std::make_shared\|.*op_origin.*': 'mk_origin',
               r'tree::child': 'mtree_child', r'(const )?std::vector<tree.*>::operator\[\]': 'mtreevec_at',
               r'(const )?std::vector<tree.*>::size': 'mtreevec_size',
               r'bindings::ctor\|void \(bindings &\)': 'mbindings_nested',
               r'std::__shared_ptr_access<const builtin.*>::operator->': {'c': 'PTR_ID', 'by_value': True},
               r'std::move': 'VERIF_MOVE'},
}
BP_ROOTS = ['(anonymous namespace)::build_pred']
