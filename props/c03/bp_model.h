/* Model for the lowering of build_pred (build.cc) (TRUSTED): trees, layout, uprefs are opaque carriers; a `bindings`
 * object is {m_super}: bindings(bindings &super) = a new object whose m_super is &super (bindings.hh); build_exec (the
 * big recursive builder, not lowered) records which tree and which scope object it was handed; preds are numbered. */
#ifndef C03_BP_MODEL_H
#define C03_BP_MODEL_H
#include "../common.h"
typedef struct mop { char unused; } mop;
typedef struct mlayout { char unused; } mlayout;
typedef struct muprefs { char unused; } muprefs;
typedef struct mbuiltin { char unused; } mbuiltin;
typedef struct mbindings { struct mbindings *m_super; } mbindings;
struct mtree;
typedef struct mtreevec { struct mtree *d; unsigned long n; } mtreevec;
typedef struct mtree { int m_tt; mtreevec m_children; mbuiltin *m_builtin; } mtree;
#ifdef VERIF_CBMC
#define M_ASSERT(c, msg) __CPROVER_assert(c, "build model: " msg)
#else
#define M_ASSERT(c, msg) ((c) ? (void)0 : verif_assert_fail("build model: " msg))
#endif
#define PTR_ID(p) (p)
#define VERIF_MOVE(p) (p)
static inline const mtree *mtreevec_at(const mtreevec *v, unsigned long i) { M_ASSERT(i < v->n, "child index within the tree"); return &v->d[i]; }
static inline unsigned long mtreevec_size(const mtreevec *v) { return v->n; }
static inline const mtree *mtree_child(const mtree *t, unsigned long i) { return mtreevec_at(&t->m_children, i); }
static inline mbindings mbindings_nested(mbindings *super) { mbindings b; b.m_super = super; return b; }
extern unsigned g_exec_calls; extern const mtree *g_exec_tree; extern const mbindings *g_exec_scope; extern const mbindings *g_exec_scope_super;
extern mop g_origin_obj, g_op_obj;
static inline mop *mk_origin(mlayout *l) { return &g_origin_obj; }
static inline mop *build_exec_model(const mtree *t, mlayout *l, unsigned long rdv, mop *upstream, mbindings *scope, muprefs *up)
{ g_exec_calls++; g_exec_tree = t; g_exec_scope = scope; g_exec_scope_super = scope->m_super; return &g_op_obj; }
static inline int mk_pred_not(const int *a) { return 1000 + *a; }
static inline int mk_pred_or(const int *a, const int *b) { return 2000 + *a + *b; }
static inline int mk_pred_and(const int *a, const int *b) { return 3000 + *a + *b; }
static inline int mk_pred_subx_any(mop *const *o, mop *const *origin) { return 7; }
static inline int builtin_build_pred_model(const mbuiltin *b, mlayout *l) { return 5; }
#endif
