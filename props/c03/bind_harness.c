/* C03 (slice): scope chain, rebind check and up-value ids of bindings.cc.
   All functions under check are loop-free (uprefs::refd_ids iterates over the table: fully unwound); inputs are
   arbitrary well-formed tables, names and a probe name q for the pointwise "everything else unchanged". */
#include "bind_types.h"
#include "bind_protos.h"
#include "bind_model2.h"
int verif_raised;
_Bool nondet_bool(void); unsigned char nondet_uchar(void); unsigned nondet_uint(void);
bindings nondet_bindings(void); uprefs nondet_uprefs(void);
static char g_ops[3];                    /* three distinct op_bind objects (the type is opaque here) */
#define OP(i) ((op_bind *)&g_ops[i])
static char g_bis[2];
#define BI(i) ((const builtin *)&g_bis[i])

static _Bool wf_bmap(const bmap *m)
{ for (unsigned k = 0; k <= NAMES; ++k) if (m->slot[k].first != k) return 0; return 1; }
static _Bool wf_umap(const umap *m)
{ for (unsigned k = 0; k <= NAMES; ++k) if (m->slot[k].first != k) return 0; return 1; }
static _Bool same_bentry(const bentry *a, const bentry *b)
{ return (!a->has) == (!b->has) && (!a->has || (a->second.m_bind == b->second.m_bind && a->second.m_bi == b->second.m_bi)); }
static _Bool same_uentry(const uentry *a, const uentry *b)
{ return (!a->has) == (!b->has) && (!a->has || ((!a->second.m_id_used) == (!b->second.m_id_used) && a->second.m_bi == b->second.m_bi
                                        && (!a->second.m_id_used || a->second.m_id == b->second.m_id))); }

/* ---- bindings::bind: rebinding in the same scope is an error and changes nothing; otherwise exactly this name
        becomes bound, in this scope, to exactly this binder */
void h_bind(void)
{
  bindings b = nondet_bindings(), outer = nondet_bindings();
  __CPROVER_assume(wf_bmap(&b.m_bindings) && wf_bmap(&outer.m_bindings));
  b.m_super = nondet_bool() ? &outer : 0; outer.m_super = 0;
  name_t name = nondet_uchar(), q = nondet_uchar();
  __CPROVER_assume(NAME_OK(name) && NAME_OK(q));
  op_bind *op = OP(nondet_bool());
  bentry pre_q = b.m_bindings.slot[q], pre_outer_q = outer.m_bindings.slot[q];
  _Bool was_bound_here = b.m_bindings.slot[name].has ? 1 : 0;   /* nondet _Bool fields need not be 0/1 in CBMC */
  bindings *sup = b.m_super;
  verif_raised = 0;
  bindings_bind(&b, name, op);
  __CPROVER_assert((verif_raised != 0) == (was_bound_here != 0), "bind reports an error exactly when the name is already bound in THIS scope (outer scopes do not matter)");
  __CPROVER_assert(b.m_super == sup && same_bentry(&outer.m_bindings.slot[q], &pre_outer_q) && wf_bmap(&b.m_bindings),
                   "the enclosing scope is not touched");
  if (was_bound_here)
    __CPROVER_assert(same_bentry(&b.m_bindings.slot[q], &pre_q), "a rejected rebind changes nothing");
  else
    {
      const bentry *e = &b.m_bindings.slot[name];
      __CPROVER_assert(e->has && e->second.m_bind == op && e->second.m_bi == 0, "the name is now bound to exactly this binder (not a builtin)");
      __CPROVER_assert(q == name || same_bentry(&b.m_bindings.slot[q], &pre_q), "no other name of the scope changes");
    }
}

/* ---- bindings::find over a chain of up to three scopes: innermost binding wins, nullptr if unbound anywhere */
void hb_find_chain(void)
{
  bindings s0 = nondet_bindings(), s1 = nondet_bindings(), s2 = nondet_bindings();
  __CPROVER_assume(wf_bmap(&s0.m_bindings) && wf_bmap(&s1.m_bindings) && wf_bmap(&s2.m_bindings));
  unsigned depth = nondet_uint(); __CPROVER_assume(depth >= 1 && depth <= 3);
  s0.m_super = depth >= 2 ? &s1 : 0; s1.m_super = depth >= 3 ? &s2 : 0; s2.m_super = 0;
  name_t name = nondet_uchar(); __CPROVER_assume(NAME_OK(name));
  bindings c0 = s0, c1 = s1, c2 = s2;
  verif_raised = 0;
  const binding *r = bindings_find(&s0, name);
  const binding *expect = 0;
  if (s0.m_bindings.slot[name].has) expect = &s0.m_bindings.slot[name].second;
  else if (depth >= 2 && s1.m_bindings.slot[name].has) expect = &s1.m_bindings.slot[name].second;
  else if (depth >= 3 && s2.m_bindings.slot[name].has) expect = &s2.m_bindings.slot[name].second;
  __CPROVER_assert(verif_raised == 0, "find never raises");
  __CPROVER_assert(r == expect, "find returns the binding of the innermost enclosing scope that binds the name, nullptr if none does");
  name_t q = nondet_uchar(); __CPROVER_assume(NAME_OK(q));
  __CPROVER_assert(same_bentry(&s0.m_bindings.slot[q], &c0.m_bindings.slot[q]) && same_bentry(&s1.m_bindings.slot[q], &c1.m_bindings.slot[q])
                   && same_bentry(&s2.m_bindings.slot[q], &c2.m_bindings.slot[q]), "find modifies no scope");
}

/* ---- scoping law from the two: a binder introduced in an inner scope shadows the outer binding of the same name
        inside, is invisible outside, and leaves every other name resolving as before */
void hb_scope_law(void)
{
  bindings outer = nondet_bindings(), inner = nondet_bindings();
  __CPROVER_assume(wf_bmap(&outer.m_bindings) && wf_bmap(&inner.m_bindings));
  outer.m_super = 0; inner.m_super = &outer;
  name_t name = nondet_uchar(), q = nondet_uchar(); __CPROVER_assume(NAME_OK(name) && NAME_OK(q));
  verif_raised = 0;
  const binding *outer_before = bindings_find(&outer, q);
  const binding *inner_before = bindings_find(&inner, q);
  binding outer_before_v, inner_before_v;
  if (outer_before) outer_before_v = *outer_before;
  if (inner_before) inner_before_v = *inner_before;
  bindings_bind(&inner, name, OP(2));
  if (verif_raised == 0)
    {
      const binding *in = bindings_find(&inner, name);
      __CPROVER_assert(in != 0 && in->m_bind == OP(2) && in->m_bi == 0, "inside, the name reads the new binder (shadowing any outer binding)");
      const binding *out = bindings_find(&outer, q);
      __CPROVER_assert((out == 0) == (outer_before == 0) && (out == 0 || (out->m_bind == outer_before_v.m_bind && out->m_bi == outer_before_v.m_bi)),
                       "outside, every name resolves as before: the binding does not leak out");
      const binding *in_q = bindings_find(&inner, q);
      __CPROVER_assert(q == name || ((in_q == 0) == (inner_before == 0) && (in_q == 0 || (in_q->m_bind == inner_before_v.m_bind && in_q->m_bi == inner_before_v.m_bi))),
                       "inside, every other name resolves as before");
    }
}

/* ---- uprefs: ids are handed out 0,1,2,... in order of first use, one per name, stable afterwards */
static _Bool inv_uprefs(const uprefs *u)
{
  if (!wf_umap(&u->m_ids)) return 0;
  if (u->m_nextid > NAMES) return 0;
  unsigned used = 0;
  for (unsigned k = 0; k < NAMES; ++k)
    {
      const uentry *e = &u->m_ids.slot[k];
      if (e->has && e->second.m_bi == 0 && e->second.m_id_used)
        {
          used++;
          if (e->second.m_id >= u->m_nextid) return 0;
          for (unsigned j = 0; j < NAMES; ++j)
            if (j < k && u->m_ids.slot[j].has && u->m_ids.slot[j].second.m_bi == 0 && u->m_ids.slot[j].second.m_id_used
                && u->m_ids.slot[j].second.m_id == e->second.m_id) return 0;
        }
    }
  return used == u->m_nextid;            /* the ids in use are exactly 0 .. m_nextid-1 */
}

void h_uprefs_find(void)
{
  uprefs u = nondet_uprefs();
  __CPROVER_assume(inv_uprefs(&u));
  name_t name = nondet_uchar(), q = nondet_uchar(); __CPROVER_assume(NAME_OK(name) && NAME_OK(q));
  uentry pre = u.m_ids.slot[name], pre_q = u.m_ids.slot[q];
  unsigned next0 = u.m_nextid;
  verif_raised = 0;
  upref *r = uprefs_find(&u, name);
  __CPROVER_assert(verif_raised == 0, "no error, no failed assert()");
  __CPROVER_assert(q == name || same_uentry(&u.m_ids.slot[q], &pre_q), "no other name is touched");
  if (!pre.has)
    __CPROVER_assert(r == 0 && u.m_nextid == next0 && !u.m_ids.slot[name].has, "unknown name: nullptr, nothing changes");
  else
    {
      __CPROVER_assert(r == &u.m_ids.slot[name].second, "a known name yields its own entry");
      if (pre.second.m_bi != 0)
        __CPROVER_assert(u.m_nextid == next0 && same_uentry(&u.m_ids.slot[name], &pre), "builtins get no id");
      else if (pre.second.m_id_used)
        __CPROVER_assert(u.m_nextid == next0 && same_uentry(&u.m_ids.slot[name], &pre), "a name referenced before keeps its id");
      else
        __CPROVER_assert(r->m_id_used && r->m_id == next0 && u.m_nextid == next0 + 1 && r->m_bi == 0,
                         "first reference: the name gets the next free id");
    }
  __CPROVER_assert(inv_uprefs(&u), "the ids in use stay exactly 0 .. m_nextid-1, one per referenced name");
}

void hb_refd_ids(void)
{
  uprefs u = nondet_uprefs();
  __CPROVER_assume(inv_uprefs(&u));
  uprefs u0 = u;
  verif_raised = 0;
  idmap m = uprefs_refd_ids(&u);
  __CPROVER_assert(verif_raised == 0, "no error, no failed assert()");
  unsigned id = nondet_uint(); __CPROVER_assume(id < NAMES);
  name_t k = nondet_uchar(); __CPROVER_assume(NAME_OK(k));
  const uentry *e = &u0.m_ids.slot[k];
  _Bool k_refd = e->has && e->second.m_bi == 0 && e->second.m_id_used;
  __CPROVER_assert(!(k_refd && e->second.m_id == id) || (m.has[id] && m.name[id] == k), "every referenced name is listed under its id");
  __CPROVER_assert(!m.has[id] || id < u0.m_nextid, "only ids that were handed out are listed");
  __CPROVER_assert(!(m.has[id] && m.name[id] == k) || (k_refd && e->second.m_id == id), "a listed (id, name) pair is a referenced name with that id");
}

/* ---- a nested block starts its own numbering: uprefs (bindings &, uprefs &super) knows every name visible at the
        block (scope chain first, then the enclosing block's up-values), none of them referenced yet */
void hb_uprefs_ctor(void)
{
  bindings inner = nondet_bindings(), outer = nondet_bindings(); uprefs super = nondet_uprefs();
  __CPROVER_assume(wf_bmap(&inner.m_bindings) && wf_bmap(&outer.m_bindings) && inv_uprefs(&super));
  inner.m_super = nondet_bool() ? &outer : 0; outer.m_super = 0;
  for (unsigned k = 0; k < NAMES; ++k)       /* a binding is either a binder or a builtin */
    {
      __CPROVER_assume(!inner.m_bindings.slot[k].has || (inner.m_bindings.slot[k].second.m_bind != 0) != (inner.m_bindings.slot[k].second.m_bi != 0));
      __CPROVER_assume(!outer.m_bindings.slot[k].has || (outer.m_bindings.slot[k].second.m_bind != 0) != (outer.m_bindings.slot[k].second.m_bi != 0));
    }
  uprefs super0 = super;
  verif_raised = 0;
  uprefs u = uprefs_ctor_nested(&inner, &super);
  __CPROVER_assert(verif_raised == 0, "no error, no failed assert()");
  __CPROVER_assert(u.m_nextid == 0, "a block numbers its up-values from 0");
  name_t q = nondet_uchar(); __CPROVER_assume(NAME_OK(q));
  const binding *b = inner.m_bindings.slot[q].has ? &inner.m_bindings.slot[q].second
                   : (inner.m_super != 0 && outer.m_bindings.slot[q].has) ? &outer.m_bindings.slot[q].second : 0;
  const uentry *s = &super0.m_ids.slot[q], *e = &u.m_ids.slot[q];
  __CPROVER_assert((e->has != 0) == (b != 0 || s->has != 0), "exactly the names visible at the block are known: the scope chain and the enclosing block's up-values");
  if (e->has)
    {
      __CPROVER_assert(!e->second.m_id_used, "no name starts out as referenced: ids of the enclosing block are not inherited");
      const builtin *expect_bi = b != 0 ? b->m_bi : s->second.m_bi;
      __CPROVER_assert(e->second.m_bi == expect_bi, "a name stands for what the innermost visible binding says (scope chain before enclosing block)");
    }
  __CPROVER_assert(same_uentry(&super.m_ids.slot[q], s) && super.m_nextid == super0.m_nextid, "the enclosing block's table is not modified");
  __CPROVER_assert(inv_uprefs(&u), "the new table satisfies the id invariant");
}

#ifdef VERIF_CONTROL
void h_control(void)
{
  bindings outer = nondet_bindings(), inner = nondet_bindings();
  __CPROVER_assume(wf_bmap(&outer.m_bindings) && wf_bmap(&inner.m_bindings));
  outer.m_super = 0; inner.m_super = &outer;
  name_t name = nondet_uchar(); __CPROVER_assume(NAME_OK(name));
  verif_raised = 0;
  bindings_bind(&inner, name, OP(0));
  __CPROVER_assert(verif_raised == 0, "CONTROL (must fail): rebinding is never an error");
}
#endif
