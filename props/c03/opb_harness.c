/* C03 (slice): the operators that carry a bound value from its binder to its readers (op.cc):
   op_bind::next / ::current, op_read::next, op_lex_closure::next, op_upread::next. */
#include "opb_types.h"
#include "opb_protos.h"
#include "opb_model2.h"
int verif_raised;
op_bind__state g_bind_state[NLOC];
op g_upstream_op;
mstack *g_up; unsigned g_pulled;
mclosure g_closure; unsigned g_closures_made; mrdv g_rdv;
unsigned nondet_uint(void); _Bool nondet_bool(void); unsigned long nondet_ulong(void); int nondet_int(void);
mstack nondet_mstack(void); mclosure nondet_mclosure(void);
#define DEPTH 7
static _Bool same_below(const mstack *a, const mstack *b, unsigned upto)
{ for (unsigned j = 0; j < SMAX; ++j) if (j < upto && a->v[j] != b->v[j]) return 0; return 1; }
static mstack any_stack(void)
{
  mstack s = nondet_mstack();
  __CPROVER_assume(s.n <= DEPTH);
  for (unsigned j = 0; j < SMAX; ++j) __CPROVER_assume(j >= s.n || s.v[j] != 0);
  return s;
}

/* the binder takes the top value of each incoming stack and keeps it as its current value for that stack */
void h_bind_next(void)
{
  mstack s = any_stack(), s0 = s; op_bind self; mscon sc;
  self.__base0.m_upstream = &g_upstream_op; self.m_ll = nondet_ulong(); __CPROVER_assume(self.m_ll < NLOC);
  g_bind_state[0].m_current = nondet_int(); g_bind_state[1].m_current = nondet_int();
  int other0 = g_bind_state[1 - self.m_ll].m_current, own0 = g_bind_state[self.m_ll].m_current;
  _Bool exhausted = nondet_bool();
  g_up = &s; g_pulled = exhausted ? 1 : 0; verif_raised = 0;
  mstack *r = op_bind_next(&self, &sc);
  __CPROVER_assert(g_bind_state[1 - self.m_ll].m_current == other0, "another binder's value is not touched");
  if (exhausted)
    __CPROVER_assert(r == 0 && verif_raised == 0 && g_bind_state[self.m_ll].m_current == own0, "upstream exhausted: nothing yielded, the bound value stays");
  else if (s0.n == 0)
    __CPROVER_assert(verif_raised != 0, "binding from an empty stack is an error");
  else
    {
      __CPROVER_assert(verif_raised == 0 && r == &s, "the incoming stack is handed on");
      __CPROVER_assert(s.n == s0.n - 1 && same_below(&s, &s0, s.n), "exactly the top value is taken off; everything below is intact");
      __CPROVER_assert(g_bind_state[self.m_ll].m_current == s0.v[s0.n - 1], "the name is bound to the value that was on top of THIS incoming stack");
    }
}

/* a read pushes a copy of its own binder's current value and nothing else */
void h_read_next(void)
{
  mstack s = any_stack(), s0 = s; op_bind binder; op_read self; mscon sc;
  binder.m_ll = nondet_ulong(); __CPROVER_assume(binder.m_ll < NLOC);
  self.__base0.m_upstream = &g_upstream_op; self.m_src = &binder;
  g_bind_state[0].m_current = nondet_int(); g_bind_state[1].m_current = nondet_int();
  __CPROVER_assume(g_bind_state[0].m_current != 0 && g_bind_state[1].m_current != 0);
  int c0 = g_bind_state[0].m_current, c1 = g_bind_state[1].m_current;
  _Bool exhausted = nondet_bool();
  g_up = &s; g_pulled = exhausted ? 1 : 0; verif_raised = 0;
  mstack *r = op_read_next(&self, &sc);
  __CPROVER_assert(verif_raised == 0, "reading a bound name never fails");
  __CPROVER_assert(g_bind_state[0].m_current == c0 && g_bind_state[1].m_current == c1, "reading does not change any binding");
  if (exhausted)
    __CPROVER_assert(r == 0, "upstream exhausted: nothing yielded");
  else
    {
      __CPROVER_assert(r == &s && s.n == s0.n + 1 && same_below(&s, &s0, s0.n), "the incoming stack is handed on with exactly one value added");
      __CPROVER_assert(s.v[s0.n] == (binder.m_ll == 0 ? c0 : c1), "the value pushed is the one held by the name's OWN binder");
    }
}

/* let X := ; X  puts back what was taken */
void h_bind_then_read(void)
{
  mstack s = any_stack(), s0 = s; op_bind binder; op_read rd; mscon sc;
  __CPROVER_assume(s.n >= 1);
  binder.__base0.m_upstream = &g_upstream_op; binder.m_ll = nondet_ulong(); __CPROVER_assume(binder.m_ll < NLOC);
  rd.__base0.m_upstream = &g_upstream_op; rd.m_src = &binder;
  g_up = &s; g_pulled = 0; verif_raised = 0;
  mstack *r1 = op_bind_next(&binder, &sc);
  g_pulled = 0;                             /* the reader's upstream hands on the binder's result */
  mstack *r2 = op_read_next(&rd, &sc);
  __CPROVER_assert(verif_raised == 0 && r1 == &s && r2 == &s, "no error");
  __CPROVER_assert(s.n == s0.n && same_below(&s, &s0, s0.n), "a name pushes exactly the value it was bound to: bind then read restores the stack");
}

/* block creation captures the n top values, top first, and leaves one closure in their place (n <= 4: BOUNDED loop) */
void hb_lex_closure(void)
{
  mstack s = any_stack(), s0 = s; op_lex_closure self; mscon sc;
  self.__base0.m_upstream = &g_upstream_op; self.m_n_upvalues = nondet_ulong(); self.m_rdv_ll = 0;
  __CPROVER_assume(self.m_n_upvalues <= 4 && self.m_n_upvalues <= s.n);
  g_up = &s; g_pulled = 0; verif_raised = 0; g_closures_made = 0;
  mstack *r = op_lex_closure_next(&self, &sc);
  __CPROVER_assert(verif_raised == 0 && r == &s && g_closures_made == 1, "one closure per incoming stack");
  __CPROVER_assert(s.n == s0.n - self.m_n_upvalues + 1 && s.v[s.n - 1] == CLOSURE_ID && same_below(&s, &s0, s.n - 1),
                   "the captured values are replaced by the closure; everything below is intact");
  __CPROVER_assert(g_closure.n == self.m_n_upvalues, "exactly n values are captured");
  for (unsigned i = 0; i < 4; ++i)
    __CPROVER_assert(i >= self.m_n_upvalues || g_closure.env[i] == s0.v[s0.n - 1 - i], "up-value i is the i-th value from the top");
}

/* an up-value read pushes a copy of the captured value with its own id */
void h_upread(void)
{
  mstack s = any_stack(), s0 = s; op_upread self; mscon sc;
  g_closure = nondet_mclosure(); __CPROVER_assume(g_closure.n <= SMAX);
  for (unsigned j = 0; j < SMAX; ++j) __CPROVER_assume(g_closure.env[j] != 0);
  mclosure c0 = g_closure; g_rdv.closure = &g_closure;
  self.__base0.m_upstream = &g_upstream_op; self.m_id = nondet_uint(); self.m_rdv_ll = 0;
  __CPROVER_assume(self.m_id < g_closure.n);
  g_up = &s; g_pulled = 0; verif_raised = 0;
  mstack *r = op_upread_next(&self, &sc);
  __CPROVER_assert(verif_raised == 0 && r == &s && s.n == s0.n + 1 && same_below(&s, &s0, s0.n), "exactly one value is added");
  __CPROVER_assert(s.v[s0.n] == c0.env[self.m_id], "it is the captured value with this id");
  for (unsigned j = 0; j < SMAX; ++j) __CPROVER_assert(g_closure.env[j] == c0.env[j], "the environment is not modified");
}

#ifdef VERIF_CONTROL
void h_opb_control(void)
{
  mstack s = any_stack(); op_bind binder; op_read self; mscon sc;
  binder.m_ll = 0; self.__base0.m_upstream = &g_upstream_op; self.m_src = &binder;
  g_bind_state[0].m_current = nondet_int(); g_bind_state[1].m_current = nondet_int();
  __CPROVER_assume(g_bind_state[0].m_current != 0);
  g_up = &s; g_pulled = 0; verif_raised = 0;
  mstack *r = op_read_next(&self, &sc);
  __CPROVER_assert(s.v[s.n - 1] == g_bind_state[1].m_current, "CONTROL (must fail): a read pushes the other binder's value");
}
#endif
