/* C01 (slice, BOUNDED): op_format::next lowered from op.cc -- format strings with directives.
   Every input stack is treated alone: for each input the operator yields exactly the strings its directive chain
   produces for that input, numbered 0,1,2,... afresh (`pos`), whatever earlier inputs produced; also after an
   exhaustion and re-feed.  Chain yields 0..2 strings per input; 1-2 inputs, exhaustion, 1 more input. */
#include "fmt_types.h"
#include "fmt_protos.h"
#include "fmt_model2.h"
int verif_raised;
op g_upstream_op;
sid g_feed[4]; unsigned g_nfeed, g_fi;
unsigned g_fk[NIN]; sid g_fcur; unsigned g_fpending;
sid g_flog_input[FLOG]; unsigned long g_flog_pos[FLOG]; unsigned g_nflog;
unsigned long g_last_pos; op_format__state g_fmt_state;
unsigned nondet_uint(void);

static _Bool drive(op_format *self, mscon *sc, unsigned maxcalls)
{
  _Bool done = 0;
  for (unsigned c = 0; c < 6; ++c)
    if (c < maxcalls && !done)
      {
        unsigned before = g_nflog;
        sid r = op_format_next(self, sc);
        __CPROVER_assert(verif_raised == 0, "no error");
        if (r == 0) { done = 1; __CPROVER_assert(g_nflog == before, "exhaustion is reported without dropping a result"); }
        else __CPROVER_assert(g_nflog == before + 1 && r == g_flog_input[before], "each pull hands on the stack the string was pushed onto");
      }
  return done;
}

void hb_format(void)
{
  op_format self; mscon sc; mstringer origin, chain;
  self.__base0.m_upstream = &g_upstream_op; self.m_origin = &origin; self.m_stringer = &chain; self.m_ll = 0;
  for (unsigned h = 0; h < NIN; ++h) { g_fk[h] = nondet_uint(); __CPROVER_assume(g_fk[h] <= 2); }
  g_fmt_state = op_format_state_ctor();
  g_feed[0] = 1; g_feed[1] = 2; g_feed[2] = 3; g_fi = 0; g_nflog = 0; g_fpending = 0; g_fcur = 0; verif_raised = 0;
  g_nfeed = nondet_uint(); __CPROVER_assume(g_nfeed >= 1 && g_nfeed <= 2);
  _Bool doneA = drive(&self, &sc, 5);
  __CPROVER_assert(doneA, "phase A terminates");
  g_nfeed = g_nfeed + 1; g_feed[g_nfeed - 1] = 3;
  _Bool doneB = drive(&self, &sc, 3);
  __CPROVER_assert(doneB, "phase B terminates");
  for (sid h = 1; h <= 3; ++h)
    {
      _Bool fed = h == 3 || h <= (sid)(g_nfeed - 1);
      unsigned seen = 0;
      for (unsigned j = 0; j < FLOG; ++j)
        if (j < g_nflog && g_flog_input[j] == h)
          {
            __CPROVER_assert(g_flog_pos[j] == seen, "the results for one input stack are numbered 0, 1, 2, ... afresh, whatever came before");
            seen++;
          }
      __CPROVER_assert(seen == (fed ? g_fk[h - 1] : 0), "per input stack: exactly the strings the directive chain produces for it");
    }
}
#ifdef VERIF_CONTROL
void hb_format_control(void)
{
  op_format self; mscon sc; mstringer origin, chain;
  self.__base0.m_upstream = &g_upstream_op; self.m_origin = &origin; self.m_stringer = &chain; self.m_ll = 0;
  g_fk[0] = 2; g_fmt_state = op_format_state_ctor();
  g_feed[0] = 1; g_nfeed = 1; g_fi = 0; g_nflog = 0; g_fpending = 0; g_fcur = 0; verif_raised = 0;
  op_format_next(&self, &sc); op_format_next(&self, &sc);
  __CPROVER_assert(g_flog_pos[1] == 0, "CONTROL (must fail): every result has position 0");
}
#endif
