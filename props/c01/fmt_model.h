/* Model for the lowering of op_format::next (TRUSTED): stacks are handles (alt_model.h); the stringer chain is an
 * abstract producer: fed the stack h (stringer_origin::set_next) it yields g_fk[h-1] (0..2) pairs (h, some string) and
 * then (nullptr, ""); make_unique<value_str>(str, pos) and stack::push log which position number the result for which
 * input got; scon::reset<state>(loc) = construct again by the lowered constructor. */
#ifndef C01_FMT_MODEL_H
#define C01_FMT_MODEL_H
#include "alt_model.h"
typedef struct strpair { sid first; int second; } strpair;
typedef struct mstringer { char unused; } mstringer;
#endif
