#ifndef C01_FMT_MODEL2_H
#define C01_FMT_MODEL2_H
#define NIN 3
#define FLOG 8
extern op g_upstream_op;
extern sid g_feed[4]; extern unsigned g_nfeed, g_fi;
extern unsigned g_fk[NIN]; extern sid g_fcur; extern unsigned g_fpending;
extern sid g_flog_input[FLOG]; extern unsigned long g_flog_pos[FLOG]; extern unsigned g_nflog;
extern unsigned long g_last_pos; extern op_format__state g_fmt_state;
static inline op_format__state *scon_get_fmt_state(mscon *sc, unsigned long loc) { return &g_fmt_state; }
static inline void scon_reset_fmt_state(mscon *sc, unsigned long loc) { g_fmt_state = op_format_state_ctor(); }
static inline sid op_next_model(op *o, mscon *sc) { return g_fi < g_nfeed ? g_feed[g_fi++] : (sid)0; }
static inline void stringer_origin_set_next(mstringer *o, mscon *sc, sid s)
{
  M_ASSERT(s >= 1 && s <= NIN, "input handle in play");
  g_fcur = s; g_fpending = g_fk[(s >= 1 && s <= NIN) ? s - 1 : 0];
}
static inline strpair stringer_next_model(mstringer *s, mscon *sc)
{
  strpair r; r.first = 0; r.second = 0;
  if (g_fpending > 0) { g_fpending--; r.first = g_fcur; r.second = 42; }
  return r;
}
static inline int mk_value_str(int *str, unsigned long *pos) { g_last_pos = *pos; return 99; }
static inline void stack_push_model(sid stk, int value)
{
  M_ASSERT(stk != 0 && value == 99, "the formatted string is pushed onto the stack the stringer yielded");
  M_ASSERT(g_nflog < FLOG, "log large enough");
  if (g_nflog < FLOG) { g_flog_input[g_nflog] = stk; g_flog_pos[g_nflog] = g_last_pos; g_nflog++; }
}
#endif
