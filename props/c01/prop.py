"""C01 (slice, bounded) -- ALT (op_merge + op_tine) and OR (op_or): every input stack is treated alone."""
import os, sys
sys.path.insert(0, os.path.join(os.path.dirname(__file__), '..', '..', 'tools'))
import vlib
from vlib import Job
sys.path.insert(0, os.path.join(os.path.dirname(__file__), '..', 'bx'))
import bxcfg

PID = 'C01'
HERE = os.path.dirname(os.path.abspath(__file__))
OUT = os.path.join(vlib.BUILD, 'c01')
SPO = r'(const )?std::(shared_ptr<(op|op_origin)>|__shared_ptr<(op|op_origin).*>|__shared_ptr_access<(op|op_origin).*>)'
UPS = r'(const )?((std::)?unique_ptr<stack(, std::default_delete<stack>)?>|stack::uptr)'
VUPS = r'(const )?std::vector<' + UPS + r'(, std::allocator<' + UPS + r'>)?>'
VUPS_IT = r'(const )?(__gnu_cxx::__normal_iterator<(const )?' + UPS + r' \*, ' + VUPS + r'>|' + VUPS + r'::(const_)?iterator)'
VOPS = r'(const )?std::vector<std::shared_ptr<op>(, std::allocator<std::shared_ptr<op>>)?>'
ALT_CFG = {
    'names': {'op_merge::next': 'op_merge_next', 'op_tine::next': 'op_tine_next', 'op_merge::get_state': 'op_merge_get_state',
              'op_merge::get_upstream': 'op_merge_get_upstream', '_ZN8op_merge5stateC1Em': 'op_merge_state_ctor'},
    'types': {SPO: 'op *', UPS: 'sid', VUPS: 'pvec', VUPS_IT: 'sid *', VOPS: 'vec_opp', r'stack': 'sid', r'std::nullptr_t': 'void *',
              r'scon': 'mscon', r'layout::loc': 'unsigned long', r'std::vector<.*>::size_type|size_t': 'unsigned long'},
    'types_are_records': {VUPS: True, VOPS: True, r'scon': True},
    'record_ctypes': ['pvec', 'vec_opp', 'mscon'],
    'types_prelude': '#include "alt_model.h"\n#include "vecgen.h"\ntypedef struct op op;\nVERIF_VEC(vec_opp, op *);\n',
    'bodies_prelude': '#define C01_ALT 1\n#include "alt_model2.h"\n',
    'virtual': {'op::next': 'op_next_model'},
    'move_nulls': {UPS: 'SID_TAKE'},
    'functor_types': [r'\(lambda at .*\)'],
    'extern': {r'std::__shared_ptr_access<(op|op_origin).*>::operator(->|\*)': {'c': 'PTR_ID', 'by_value': True},
               UPS + r'::operator(->|\*)': {'c': 'PTR_ID', 'by_value': True},
               UPS + r'::operator bool': {'c': 'PTR_BOOL', 'by_value': True},
               UPS + r'::operator=': 'SID_ASSIGN',
               r'std::operator==\|.*nullptr_t\).*': 'UPTR_IS_NULL', r'std::operator!=\|.*nullptr_t\).*': 'UPTR_NOT_NULL',
               r'std::make_unique': 'STACK_COPY', r'std::move': 'VERIF_MOVE',
               r'scon::get': 'scon_get_merge_state',
               r'std::all_of': 'pvec_all_of',
               VUPS + r'::begin': 'PVEC_BEGIN', VUPS + r'::end': 'PVEC_END', VUPS + r'::operator\[\]': 'pvec_at',
               VUPS + r'::front': 'PVEC_FRONT', VUPS + r'::back': 'PVEC_BACK', VUPS + r'::size': 'PVEC_SIZE', VUPS + r'::empty': 'PVEC_EMPTY',
               VUPS + r'::ctor\|.*size_type.*': 'pvec_sized',
               r'__gnu_cxx::operator!=.*': {'c': 'IT_NE', 'by_value': True},
               r'__gnu_cxx::__normal_iterator<.*>::operator\*': {'c': 'IT_DEREF', 'by_value': True},
               r'__gnu_cxx::__normal_iterator<.*>::operator\+\+': 'IT_PREINC',
               VOPS + r'::operator\[\]': 'GVEC_AT', VOPS + r'::size': 'GVEC_SIZE'},
}


def lambda_root(tu, lw):
    """the lambda passed to std::all_of in op_tine::next: lowered as a function of its own"""
    import cxx2c
    fn = tu.find_functions('op_tine::next')[0]
    def walk(n):
        if n.get('kind') == 'LambdaExpr':
            for k in cxx2c.kids(n):
                if k.get('kind') == 'CXXRecordDecl':
                    for m in cxx2c.kids(k):
                        if m.get('kind') == 'CXXMethodDecl' and m.get('name') == 'operator()':
                            return m
        for k in cxx2c.kids(n):
            r = walk(k)
            if r is not None:
                return r
        return None
    m = walk(fn)
    if m is None:
        return None          # no lambda (the scan may have been rewritten): nothing extra to lower
    lw.names[m['mangledName']] = 'tine_slot_is_null'
    return m['mangledName']


ALT_ROOTS = ['op_merge::next', 'op_tine::next', lambda_root, '_ZN8op_merge5stateC1Em']


BRP = r'(const )?std::pair<std::shared_ptr<op_origin>, std::shared_ptr<op>>'
BRV = r'(const )?(std::vector<' + BRP + r'(, std::allocator<' + BRP + r'>)?>|decltype\(op_or::m_branches\))'
BRIT = r'(const )?(__gnu_cxx::__normal_iterator<(const )?' + BRP + r' \*, ' + BRV + r'>|' + BRV + r'::(const_)?iterator|decltype\(op_or::m_branches\)::const_iterator)'
OR_CFG = {
    'names': {'op_or::next': 'op_or_next'},
    'types': {SPO: 'op *', UPS: 'sid', BRV: 'brvec', BRIT: 'const brpair *', BRP: 'brpair', r'stack': 'sid', r'std::nullptr_t': 'void *',
              r'scon': 'mscon', r'layout::loc': 'unsigned long'},
    'types_are_records': {BRV: True, BRP: True, r'scon': True},
    'record_ctypes': ['brvec', 'brpair', 'mscon'],
    'types_prelude': '#include "alt_model.h"\ntypedef struct op op;\ntypedef struct brpair { op *first; op *second; } brpair;\n'
                     'typedef struct brvec { brpair d[NB]; unsigned long n; } brvec;\n',
    'bodies_prelude': '#define C01_OR 1\n#include "alt_model2.h"\n',
    'virtual': {'op::next': 'op_next_model'},
    'move_nulls': {UPS: 'SID_TAKE'},
    'extern': {r'std::__shared_ptr_access<(op|op_origin).*>::operator(->|\*)': {'c': 'PTR_ID', 'by_value': True},
               UPS + r'::operator(->|\*)': {'c': 'PTR_ID', 'by_value': True},
               UPS + r'::operator bool': {'c': 'PTR_BOOL', 'by_value': True},
               r'std::operator==\|.*nullptr_t\).*': 'UPTR_IS_NULL', r'std::operator!=\|.*nullptr_t\).*': 'UPTR_NOT_NULL',
               r'std::make_unique': 'STACK_COPY', r'std::move': 'VERIF_MOVE',
               r'scon::get': 'scon_get_or_state', r'scon::reset': 'scon_reset_or_state', r'op_origin::set_next': 'origin_set_next',
               BRV + r'::begin': 'BRV_BEGIN', BRV + r'::end': 'BRV_END',
               r'__gnu_cxx::operator!=.*': {'c': 'IT_NE', 'by_value': True},
               r'__gnu_cxx::operator==.*': {'c': 'IT_EQ', 'by_value': True},
               r'__gnu_cxx::__normal_iterator<.*>::operator->': {'c': 'PTR_ID', 'by_value': True},
               r'__gnu_cxx::__normal_iterator<.*>::operator\*': {'c': 'IT_DEREF', 'by_value': True},
               r'__gnu_cxx::__normal_iterator<.*>::operator\+\+': 'IT_PREINC'},
}


def or_state_ctor(tu, lw):
    import cxx2c
    for nid, n in tu.by_id.items():
        if n.get('kind') == 'CXXConstructorDecl' and (n.get('mangledName') or '').startswith('_ZN5op_or5stateC1') and not n.get('isImplicit') \
                and any(k.get('kind') == 'CompoundStmt' for k in cxx2c.kids(n)):
            lw.names[n['mangledName']] = 'op_or_state_ctor'
            return n['mangledName']
    raise cxx2c.Unsupported('constructor of op_or::state not found')


OR_ROOTS = ['op_or::next', or_state_ctor]

SPS_ = r'(const )?std::(shared_ptr<(stringer|stringer_origin)>|__shared_ptr<(stringer|stringer_origin).*>|__shared_ptr_access<(stringer|stringer_origin).*>)'
STRP = r'(const )?std::pair<' + UPS + r', std::(__cxx11::)?basic_string<char.*>>'
FMT_CFG = {
    'names': {'op_format::next': 'op_format_next', '_ZN9op_format5stateC1Ev': 'op_format_state_ctor'},
    'types': {SPO: 'op *', SPS_: 'mstringer *', UPS: 'sid', STRP: 'strpair', r'(const )?std::(__cxx11::)?basic_string<char.*>': 'int',
              r'(const )?std::unique_ptr<(value_str|(zw_)?value)(, std::default_delete<(value_str|(zw_)?value)>)?>': 'int', r'stack': 'sid', r'std::nullptr_t': 'void *',
              r'scon': 'mscon', r'layout::loc': 'unsigned long'},
    'types_are_records': {STRP: True, r'scon': True},
    'record_ctypes': ['strpair', 'mscon', 'mstringer'],
    'types_prelude': '#include "fmt_model.h"\ntypedef struct op op;\n',
    'bodies_prelude': '#include "fmt_model2.h"\n',
    'virtual': {'op::next': 'op_next_model', 'stringer::next': 'stringer_next_model'},
    'move_nulls': {UPS: 'SID_TAKE'},
    'extern': {r'std::__shared_ptr_access<.*>::operator(->|\*)': {'c': 'PTR_ID', 'by_value': True},
               UPS + r'::operator(->|\*)': {'c': 'PTR_ID', 'by_value': True},
               UPS + r'::operator bool': {'c': 'PTR_BOOL', 'by_value': True},
               r'std::operator==\|.*nullptr_t\).*': 'UPTR_IS_NULL', r'std::operator!=\|.*nullptr_t\).*': 'UPTR_NOT_NULL',
               r'std::make_unique\|.*value_str.*': 'mk_value_str', r'std::move': 'VERIF_MOVE',
               r'scon::get': 'scon_get_fmt_state', r'scon::reset': 'scon_reset_fmt_state', r'stringer_origin::set_next': 'stringer_origin_set_next',
               r'stack::push': 'stack_push_model'},
}
FMT_ROOTS = ['op_format::next', '_ZN9op_format5stateC1Ev']


BX_DROPPED = {}


def jobs(tier):
    inc = [OUT, os.path.join(vlib.VERIF, 'props'), HERE]
    asrc = [os.path.join(HERE, 'alt_harness.c'), os.path.join(OUT, 'alt_bodies.c')]
    osrc = [os.path.join(HERE, 'or_harness.c'), os.path.join(OUT, 'or_bodies.c')]
    AUW = ['--object-bits', '12', '--unwindset', 'op_merge_next.0:4,op_next_model.0:3,op_next_model.1:5,pvec_all_of.0:3,op_tine_next.0:3,drive.0:11']
    OUW = ['--object-bits', '12', '--unwindset', 'op_or_next.0:3,op_or_next.1:3,op_or_next.2:4,op_next_model.0:3,op_next_model.1:5,drive.0:7']
    J = [Job('bounded_alt_refeed', asrc, 'hb_alt', includes=inc, defines=['ALT_MAXFEED=1'], kind='bounded', unwind=17, timeout=1200, cbmc_args=AUW,
             inputs=['g_nfeed'], note='ALT with 2 branches, 0..2 results per branch and input; 1 input, exhaustion, 1 more input fed, exhaustion'),
         Job('bounded_or', osrc, 'hb_or', includes=inc, kind='bounded', unwind=17, timeout=1200, cbmc_args=OUW, inputs=['g_nfeed'],
             note='|| with 2 branches, 0..2 results per branch and input; 1-2 inputs, exhaustion, 1 more input fed, exhaustion'),
         Job('bounded_format', [os.path.join(HERE, 'fmt_harness.c'), os.path.join(OUT, 'fmt_bodies.c')], 'hb_format', includes=inc, kind='bounded',
             unwind=9, timeout=600, cbmc_args=['--object-bits', '10', '--unwindset', 'op_format_next.0:5,drive.0:7'], inputs=['g_nfeed'],
             note='op_format::next: directive chain yields 0..2 strings per input; 1-2 inputs, exhaustion, 1 more input'),
         Job('format_control', [os.path.join(HERE, 'fmt_harness.c'), os.path.join(OUT, 'fmt_bodies.c')], 'hb_format_control', includes=inc,
             defines=['VERIF_CONTROL'], kind='control', expect='fail', unwind=9, timeout=300, cbmc_args=['--object-bits', '10', '--unwindset', 'op_format_next.0:5,drive.0:7']),
         Job('alt_control', asrc, 'hb_alt_control', includes=inc, defines=['VERIF_CONTROL'], kind='control', expect='fail', unwind=17, timeout=600, cbmc_args=AUW),
         Job('or_control', osrc, 'hb_or_control', includes=inc, defines=['VERIF_CONTROL'], kind='control', expect='fail', unwind=17, timeout=600, cbmc_args=OUW)]
    if tier == 'thorough':
        J.append(Job('bounded_alt_3branches', asrc, 'hb_alt_branches', includes=inc, defines=['NB=3'], kind='bounded', unwind=17, timeout=3000,
             cbmc_args=['--object-bits', '12', '--unwindset', 'op_merge_next.0:9,op_next_model.0:4,op_next_model.1:5,pvec_all_of.0:4,op_tine_next.0:4,hb_alt_branches.2:8'],
             note='ALT with 3 branches (round-robin order differs from slot order), 0..1 results per branch and input, 2 inputs in one feed'))
        J.append(Job('bounded_alt_refeed_2inputs', asrc, 'hb_alt', includes=inc, defines=['ALT_MAXFEED=2'], kind='bounded', unwind=17, timeout=3000,
                     cbmc_args=AUW, inputs=['g_nfeed'], note='as bounded_alt_refeed with 1-2 inputs before the first exhaustion'))
    J += bxcfg.jobs(vlib, Job, OUT, ['capture', 'close_star', 'close_plus', 'or', 'cat'], control=True)
    return J


LEVEL = 'other'      # bounded stand-ins only: never reported as proof
TRUSTED = ['tools/cxx2c.py lowering']
ASSUMPTIONS = [
    'build_exec (build.cc): only the cases IFELSE ALT SCOPE CAPTURE CLOSE_STAR CLOSE_PLUS OR CAT READ BIND BLOCK FORMAT SUBX_EVAL ASSERT of its switch are lowered (cxx2c keep_cases; the other cases are dropped and reaching one is a failed obligation); the recursive call is an ASSUMED contract with a ghost call log (records tree, layout, scope, upstream; never shrinks the layout -- re-established for the lowered cases), operator constructors that take a layout reserve an arbitrary non-empty range at its end (contract of layout::reserve, C13), layout::add_union by its C13 contract (props/bx/bx_model.h)',
    'stacks are handles naming their contents, copying is the identity, moving a unique_ptr out of an lvalue nulls it (props/c01/alt_model.h); std::vector, std::all_of, scon::get/reset are modelled; the lambda given to std::all_of is lowered and called by the model',
    'each branch is an abstract well-behaved operator chain (props/c01/alt_model2.h): per input it yields 0..2 stacks and then pulls its source (the REAL op_tine::next for ALT, its origin for ||); what real branch operators do is not covered',
    'BOUNDED: 2 branches, <= 2 results per branch and input, <= 2 inputs before and 1 after an exhaustion',
    'op_format::next: the stringer chain (the directives) is an abstract producer of 0..2 strings per input (props/c01/fmt_model*.h); stringer_op/stringer_lit themselves are not covered',
    'SLICE of C01: concatenation, [ ], ?( ), let, if-then-else, closures (C10), the stringer operators and the build.cc wiring of the remaining constructs (FORMAT, SUBX_EVAL, BLOCK, READ, BIND, builtins; IFELSE is checked under C13, ALT/SCOPE under C03) are NOT covered by this check (op_subx: C04; op_tr_closure: C10)',
]
EXPLANATION = 'Bounded check of ALT and || on the real operator code; see DESIGN.md section 4 C01.'


def spec_files():
    return [os.path.join(vlib.VERIF, 'props', 'bx', 'bx_harness.c'), os.path.join(vlib.VERIF, 'props', 'bx', 'bx_model.h')] + [os.path.join(HERE, f) for f in ('alt_harness.c', 'or_harness.c', 'fmt_harness.c', 'alt_model.h', 'alt_model2.h', 'fmt_model.h', 'fmt_model2.h')]


def prepare(tier):
    global BX_DROPPED
    bxw, BX_DROPPED = bxcfg.prepare(vlib, OUT)
    a = vlib.extract('alt', 'libzwerg/op.cc', ALT_CFG, ALT_ROOTS, OUT)
    have = any(f['c_name'] == 'tine_slot_is_null' for f in a.report['functions'])
    with open(os.path.join(OUT, 'alt_features.h'), 'w') as f:
        f.write('#define C01_HAVE_LAMBDA 1\n' if have else '/* no lambda in op_tine::next */\n')
    o = vlib.extract('or', 'libzwerg/op.cc', OR_CFG, OR_ROOTS, OUT)
    f = vlib.extract('fmt', 'libzwerg/op.cc', FMT_CFG, FMT_ROOTS, OUT)
    o.report['functions'] += f.report['functions']
    return {'build_exec_cases_lowered': BX_DROPPED.get('kept'), 'build_exec_cases_dropped_by_extraction': BX_DROPPED.get('dropped'), 'build_exec_functions': bxw.report['functions'], 'unit': 'libzwerg/op.cc (op_merge, op_tine, op_or, op_format)', 'functions': a.report['functions'] + o.report['functions']}


QUERIES = [('(5, 6, 7) let A := (1, 2); A', '<5|1> <5|2> <6|1> <6|2> <7|1> <7|2>'), ('(5, 6) "%( (1, 2) %)"', '<5|1> <5|2> <6|1> <6|2>'),
           ('(5,6) ((1,2) || 3)', '<5|1> <5|2> <6|1> <6|2>'), ('(5, 6) ((1 ?(0 ?eq)) || (1, 2))', '<5|1> <5|2> <6|1> <6|2>'),
           ('(5,6) let A := ((1,2),3); A', '<5|1> <5|2> <5|3> <6|1> <6|2> <6|3>'), ('[(5, 6) let A := (1, 2, 3); A] length', '<6>'),
           ('7 (1, 2, 3)', '<7|1> <7|2> <7|3>'), ('(5, 6) (1 || 2)', '<5|1> <6|1>'), ('(5, 6) (?(6 ?eq) 1 || 2)', '<5|2> <6|1>'),
           ('(1, 2, 3) (?(2 ?eq) (10, 20) || ?(3 ?eq) 30)', '<2|10> <2|20> <3|30>'), ('0 ((1 add, 2 add) 5 mod)*', '<0> <1> <2> <3> <4>'),
           ('(1, 2) (10, 20, 30)', '<1|10> <1|20> <1|30> <2|10> <2|20> <2|30>'), ('[(1, 2, 3) (10, 20, 30, 40)] length', '<12>'),
           ('(1, 2, 3) ((== 2) || (== 3))', '<2> <3>'), ('(5, 6) let A := (1, 2, 3) ((== 2) || (== 3)); A', '<5|2> <5|3> <6|2> <6|3>'),
           ('(1, 2) "%s" pos', '<0> <0>'), ('(1, 2) "%( (7, 8) %)" pos', '<1|0> <1|1> <2|0> <2|1>')]


def replay(r):
    res = vlib.zw_queries([q for q, e in QUERIES], OUT)
    bad = []
    for (q, e), (cnt, txt) in zip(QUERIES, res):
        got = sorted((txt or '').split()) if cnt is not None else None
        if got != sorted(e.split()):
            bad.append('`%s` yields %s, expected %s (as a multiset)' % (q, txt if cnt is not None else 'an error', e))
    return {'reproduced': bool(bad), 'violations_on_real_library': bad[:6], 'queries': len(QUERIES)}
