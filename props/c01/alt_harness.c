/* C01 (slice, BOUNDED): ALT -- op_merge::next and op_tine::next lowered from op.cc, driven together.
   "The result for a stream of input stacks is the union of the results for each stack taken alone: no construct
   remembers, drops or re-orders work because of stacks it saw earlier."  Two branches, each an arbitrary operator
   chain yielding 0, 1 or 2 stacks per input (chosen independently for every input and branch).  Phase A: upstream yields 1 or 2 stacks, then reports exhaustion.
   Phase B: upstream is fed one more stack (as an origin inside let / || / a closure body is) and the ALT is pulled
   again.  In both phases every branch must yield exactly its k_i results for every input, and an ALT fed a single
   stack yields its alternatives left to right. */
#define C01_ALT 1
#include "alt_types.h"
#include "alt_protos.h"
#include "alt_model2.h"
int verif_raised;
op g_upstream_op, g_branch_op[NB];
unsigned g_k[NIN][NB]; sid g_cur[NB]; unsigned g_pending[NB];
sid g_feed[4]; unsigned g_nfeed, g_fi;
unsigned g_log_branch[LOGMAX]; sid g_log_input[LOGMAX]; unsigned g_nlog;
op_merge__state g_merge_state; op_tine g_tine[NB];
unsigned nondet_uint(void);
#ifndef ALT_MAXFEED
#define ALT_MAXFEED 2
#endif

static unsigned count(unsigned from, unsigned to, unsigned branch, sid input)
{
  unsigned c = 0;
  for (unsigned j = 0; j < LOGMAX; ++j) if (j >= from && j < to && g_log_branch[j] == branch && g_log_input[j] == input) c++;
  return c;
}
static _Bool drive(op_merge *self, mscon *sc, unsigned maxcalls)
{
  _Bool done = 0;
  for (unsigned c = 0; c < 10; ++c)
    if (c < maxcalls && !done)
      {
        unsigned before = g_nlog;
        sid r = op_merge_next(self, sc);
        __CPROVER_assert(verif_raised == 0, "no error");
        if (r == 0) { done = 1; __CPROVER_assert(g_nlog == before, "exhaustion is reported without dropping a result"); }
        else __CPROVER_assert(g_nlog == before + 1 && r == g_log_input[before], "each pull hands on exactly the one stack a branch just yielded");
      }
  return done;
}

void hb_alt(void)
{
  op_merge self; mscon sc; op *ops[NB];
  for (unsigned i = 0; i < NB; ++i) ops[i] = &g_branch_op[i];
  self.__base0.m_upstream = &g_upstream_op; self.m_ll = 0;
  self.m_ops.data = ops; self.m_ops.len = NB; self.m_ops.cap = NB;
  for (unsigned i = 0; i < NB; ++i)
    { g_tine[i].m_merge = &self; g_tine[i].m_branch_id = i; for (unsigned h = 0; h < NIN; ++h) { g_k[h][i] = nondet_uint(); __CPROVER_assume(g_k[h][i] <= 2); } g_pending[i] = 0; g_cur[i] = 0; }
  g_merge_state = op_merge_state_ctor(NB);            /* op_merge::state::state (size_t) */
  g_feed[0] = 1; g_feed[1] = 2; g_feed[2] = 3; g_fi = 0; g_nlog = 0; verif_raised = 0;
  g_nfeed = nondet_uint(); __CPROVER_assume(g_nfeed >= 1 && g_nfeed <= ALT_MAXFEED);

  /* phase A */
  _Bool doneA = drive(&self, &sc, ALT_MAXFEED * 4 + 1);
  __CPROVER_assert(doneA, "phase A terminates: exhaustion is reported after at most inputs*results pulls");
  unsigned endA = g_nlog;
  for (unsigned i = 0; i < NB; ++i)
    {
      __CPROVER_assert(count(0, endA, i, 1) == g_k[0][i], "first input: every branch yields all its results, once");
      __CPROVER_assert(count(0, endA, i, 2) == (g_nfeed == 2 ? g_k[1][i] : 0), "second input: every branch yields all its results, once");
    }
  if (g_nfeed == 1)
    for (unsigned j = 0; j < LOGMAX; ++j)
      __CPROVER_assert(j + 1 >= endA || g_log_branch[j] <= g_log_branch[j + 1], "an ALT fed one stack yields its alternatives left to right");

  /* phase B: the source is fed again */
  g_nfeed = g_nfeed + 1; g_feed[g_nfeed - 1] = 3;
  _Bool doneB = drive(&self, &sc, 5);
  __CPROVER_assert(doneB, "phase B terminates");
  for (unsigned i = 0; i < NB; ++i)
    __CPROVER_assert(count(endA, g_nlog, i, 3) == g_k[2][i], "a stack fed after an earlier exhaustion is treated like any other: every branch yields all its results for it");
  __CPROVER_assert(NB != 2 || g_nlog - endA == g_k[2][0] + g_k[2][1], "and nothing else is yielded");
  for (unsigned j = 0; j < LOGMAX; ++j)
    __CPROVER_assert(j < endA || j + 1 >= g_nlog || g_log_branch[j] <= g_log_branch[j + 1], "re-fed one stack, the ALT again yields its alternatives left to right");
}
/* any number NB of branches (job: NB = 3), two input stacks in one feed, 0 or 1 result per branch and input */
void hb_alt_branches(void)
{
  op_merge self; mscon sc; op *ops[NB];
  self.__base0.m_upstream = &g_upstream_op; self.m_ll = 0;
  self.m_ops.data = ops; self.m_ops.len = NB; self.m_ops.cap = NB;
  for (unsigned i = 0; i < NB; ++i)
    { ops[i] = &g_branch_op[i]; g_tine[i].m_merge = &self; g_tine[i].m_branch_id = i; g_pending[i] = 0; g_cur[i] = 0;
      for (unsigned h = 0; h < NIN; ++h) { g_k[h][i] = nondet_uint(); __CPROVER_assume(g_k[h][i] <= 1); } }
  g_merge_state = op_merge_state_ctor(NB);
  g_feed[0] = 1; g_feed[1] = 2; g_nfeed = 2; g_fi = 0; g_nlog = 0; verif_raised = 0;
  _Bool done = 0;
  for (unsigned c = 0; c < 2 * NB + 1; ++c)
    if (!done)
      {
        unsigned before = g_nlog;
        sid r = op_merge_next(&self, &sc);
        __CPROVER_assert(verif_raised == 0, "no error");
        if (r == 0) done = 1;
        else __CPROVER_assert(g_nlog == before + 1 && r == g_log_input[before], "each pull hands on exactly the one stack a branch just yielded");
      }
  __CPROVER_assert(done, "terminates");
  for (unsigned i = 0; i < NB; ++i)
    {
      __CPROVER_assert(count(0, g_nlog, i, 1) == g_k[0][i], "first input: every one of the branches yields all its results, once");
      __CPROVER_assert(count(0, g_nlog, i, 2) == g_k[1][i], "second input: every one of the branches yields all its results, once");
    }
}
#ifdef VERIF_CONTROL
void hb_alt_control(void)
{
  op_merge self; mscon sc; op *ops[NB] = {&g_branch_op[0], &g_branch_op[1]};
  self.__base0.m_upstream = &g_upstream_op; self.m_ll = 0;
  self.m_ops.data = ops; self.m_ops.len = NB; self.m_ops.cap = NB;
  for (unsigned i = 0; i < NB; ++i) { g_tine[i].m_merge = &self; g_tine[i].m_branch_id = i; g_k[0][i] = 1; g_pending[i] = 0; g_cur[i] = 0; }
  g_merge_state = op_merge_state_ctor(NB);
  g_feed[0] = 1; g_nfeed = 1; g_fi = 0; g_nlog = 0; verif_raised = 0;
  sid r1 = op_merge_next(&self, &sc);
  sid r2 = op_merge_next(&self, &sc);
  __CPROVER_assert(r2 == 0, "CONTROL (must fail): only one alternative is ever yielded");
}
#endif
