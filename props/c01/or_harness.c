/* C01 (slice, BOUNDED): OR -- op_or::next (E1 || E2) lowered from op.cc.
   For every input stack, taken alone: the results are exactly the results of the first branch that yields anything for
   that stack (all of them), and nothing if no branch does; what an earlier stack chose has no influence.
   Two branches yielding 0, 1 or 2 stacks per input (chosen independently for every input and branch); upstream yields 1 or 2 stacks, reports exhaustion, is then fed
   one more stack and the operator is pulled again. */
#define C01_OR 1
#include "or_types.h"
#include "or_protos.h"
#include "alt_model2.h"
int verif_raised;
op g_upstream_op, g_branch_op[NB], g_origin_op[NB];
unsigned g_k[NIN][NB]; sid g_cur[NB]; unsigned g_pending[NB];
sid g_feed[4]; unsigned g_nfeed, g_fi;
unsigned g_log_branch[LOGMAX]; sid g_log_input[LOGMAX]; unsigned g_nlog;
op_or__state g_or_state; sid g_origin_slot[NB];
unsigned nondet_uint(void);

static unsigned count(unsigned branch, sid input)
{
  unsigned c = 0;
  for (unsigned j = 0; j < LOGMAX; ++j) if (j < g_nlog && g_log_branch[j] == branch && g_log_input[j] == input) c++;
  return c;
}
static _Bool drive(op_or *self, mscon *sc, unsigned maxcalls)
{
  _Bool done = 0;
  for (unsigned c = 0; c < 6; ++c)
    if (c < maxcalls && !done)
      {
        unsigned before = g_nlog;
        /* the branches' behaviour for the input about to be processed */
        sid r = op_or_next(self, sc);
        __CPROVER_assert(verif_raised == 0, "no error");
        if (r == 0) { done = 1; __CPROVER_assert(g_nlog == before, "exhaustion is reported without dropping a result"); }
        else __CPROVER_assert(g_nlog == before + 1 && r == g_log_input[before], "each pull hands on exactly the one stack a branch just yielded");
      }
  return done;
}

void hb_or(void)
{
  op_or self; mscon sc;
  self.__base0.m_upstream = &g_upstream_op; self.m_ll = 0;
  self.m_branches.n = NB;
  for (unsigned i = 0; i < NB; ++i)
    { self.m_branches.d[i].first = &g_origin_op[i]; self.m_branches.d[i].second = &g_branch_op[i];
      for (unsigned h = 0; h < NIN; ++h) { g_k[h][i] = nondet_uint(); __CPROVER_assume(g_k[h][i] <= 2); } g_pending[i] = 0; g_cur[i] = 0; g_origin_slot[i] = 0; }
  g_or_state = op_or_state_ctor(&self.m_branches);            /* op_or::state::state (branches) */
  g_feed[0] = 1; g_feed[1] = 2; g_feed[2] = 3; g_fi = 0; g_nlog = 0; verif_raised = 0;
  g_nfeed = nondet_uint(); __CPROVER_assume(g_nfeed >= 1 && g_nfeed <= 2);

  _Bool doneA = drive(&self, &sc, 5);
  __CPROVER_assert(doneA, "phase A terminates");
  g_nfeed = g_nfeed + 1; g_feed[g_nfeed - 1] = 3;
  _Bool doneB = drive(&self, &sc, 3);
  __CPROVER_assert(doneB, "phase B terminates");

  for (sid h = 1; h <= 3; ++h)
    {
      unsigned first = g_k[h - 1][0] > 0 ? 0 : 1;          /* the first branch that yields anything for THIS input (if any) */
      _Bool fed = h == 3 || h <= (sid)(g_nfeed - 1);
      for (unsigned i = 0; i < NB; ++i)
        __CPROVER_assert(count(i, h) == ((fed && i == first) ? g_k[h - 1][i] : 0),
                         "per input stack: all results of the first branch that yields anything, nothing from the others");
    }
}
#ifdef VERIF_CONTROL
void hb_or_control(void)
{
  op_or self; mscon sc;
  self.__base0.m_upstream = &g_upstream_op; self.m_ll = 0; self.m_branches.n = NB;
  for (unsigned i = 0; i < NB; ++i)
    { self.m_branches.d[i].first = &g_origin_op[i]; self.m_branches.d[i].second = &g_branch_op[i]; g_k[0][i] = 1; g_pending[i] = 0; g_cur[i] = 0; g_origin_slot[i] = 0; }
  g_or_state = op_or_state_ctor(&self.m_branches);
  g_feed[0] = 1; g_nfeed = 1; g_fi = 0; g_nlog = 0; verif_raised = 0;
  sid r1 = op_or_next(&self, &sc);
  __CPROVER_assert(r1 == 0, "CONTROL (must fail): || never yields");
}
#endif
