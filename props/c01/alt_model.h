/* Abstract model for the lowering of op_merge / op_tine (ALT) and op_or (TRUSTED):
 *   stack, unique_ptr<stack>      a stack is a handle `sid` naming its contents (0 = nullptr); copying is the identity.
 *                                 Moving a unique_ptr out of an lvalue leaves that lvalue null (SID_TAKE): the ALT
 *                                 protocol depends on it.
 *   std::vector<stack::uptr>      small array of handles (the per-branch copies of the current input)
 *   std::vector<shared_ptr<op>>   small array of op pointers
 *   std::vector<pair<shared_ptr<op_origin>, shared_ptr<op>>>   small array of pairs; iterators are pointers
 *   std::all_of(b, e, f)          loop applying the lowered lambda
 *   scon::get<state>(loc)         the operator's state object;  scon::reset<state>(loc, args) = destroy + construct again
 *                                 by the lowered constructor
 *   op::next / op_origin::set_next  alt_model2.h
 */
#ifndef C01_ALT_MODEL_H
#define C01_ALT_MODEL_H
#include "../common.h"
#ifndef NB
#define NB 2              /* branches */
#endif
typedef long sid;
typedef struct mscon { char dummy; } mscon;
typedef struct pvec { sid d[NB]; unsigned long n; } pvec;
#ifdef VERIF_CBMC
#define M_ASSERT(c, msg) __CPROVER_assert(c, "ALT/OR model: " msg)
#else
#define M_ASSERT(c, msg) ((c) ? (void)0 : verif_assert_fail("ALT/OR model: " msg))
#endif
#define PTR_ID(p) (p)
#define PTR_BOOL(p) ((_Bool)((p) != 0))
#define UPTR_IS_NULL(p, n) ((_Bool)(*(p) == 0))
#define UPTR_NOT_NULL(p, n) ((_Bool)(*(p) != 0))
#define VERIF_MOVE(p) (p)
#define STACK_COPY(s) (M_ASSERT((s) != 0, "copy of a stack through a non-null pointer"), (s))
static inline sid SID_TAKE(sid *p) { sid r = *p; *p = 0; return r; }
#define SID_ASSIGN(lhs, rhs) (*(lhs) = *(rhs), (lhs))
static inline pvec pvec_sized(unsigned long n) { pvec v; M_ASSERT(n <= NB, "branches fit"); v.n = n <= NB ? n : NB; for (unsigned i = 0; i < NB; ++i) v.d[i] = 0; return v; }
#define PVEC_FRONT(v) (M_ASSERT((v)->n > 0, "front() of a non-empty vector"), &(v)->d[0])
#define PVEC_BACK(v) (M_ASSERT((v)->n > 0, "back() of a non-empty vector"), &(v)->d[(v)->n > 0 && (v)->n <= NB ? (v)->n - 1 : 0])
#define PVEC_SIZE(v) ((v)->n)
#define PVEC_EMPTY(v) ((_Bool)((v)->n == 0))
#define PVEC_BEGIN(v) (&(v)->d[0])
#define PVEC_END(v) (&(v)->d[(v)->n <= NB ? (v)->n : NB])
static inline sid *pvec_at(pvec *v, unsigned long i) { M_ASSERT(i < v->n && i < NB, "index within the vector"); return &v->d[i < NB ? i : 0]; }
#define BRV_BEGIN(v) (&(v)->d[0])
#define BRV_END(v) (&(v)->d[(v)->n <= NB ? (v)->n : NB])
#define IT_NE(a, b) ((_Bool)((a) != (b)))
#define IT_EQ(a, b) ((_Bool)((a) == (b)))
#define IT_DEREF(a) (a)
#define IT_PREINC(ap) (++*(ap), (ap))
#endif
