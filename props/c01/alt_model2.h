/* second half: needs the generated types.
 * Branch i of the ALT / OR is an arbitrary well-behaved operator chain: for every stack it takes in it yields
 * g_k[h-1][i] stacks (0..2, chosen independently per input h), then asks for the next one; when its source is exhausted it reports exhaustion and can be
 * pulled again later.  For ALT its source is the REAL op_tine::next of tine i; for OR it is the origin it was fed through.
 * Every yield is logged (which branch, for which input). */
#ifndef C01_ALT_MODEL2_H
#define C01_ALT_MODEL2_H
#define LOGMAX 16
extern op g_upstream_op;
extern op g_branch_op[NB];
#define NIN 3
extern unsigned g_k[NIN][NB];                  /* g_k[h-1][i]: number of results of branch i for the input with handle h */
extern sid g_cur[NB]; extern unsigned g_pending[NB];
extern sid g_feed[4]; extern unsigned g_nfeed, g_fi;     /* what upstream will yield before reporting exhaustion */
extern unsigned g_log_branch[LOGMAX]; extern sid g_log_input[LOGMAX]; extern unsigned g_nlog;
#ifdef C01_ALT
extern op_merge__state g_merge_state; extern op_tine g_tine[NB];
static inline op_merge__state *scon_get_merge_state(mscon *sc, unsigned long loc) { return &g_merge_state; }
#include "alt_features.h"      /* written by prop.py: C01_HAVE_LAMBDA iff op_tine::next still passes a lambda to std::all_of */
#ifdef C01_HAVE_LAMBDA
static inline _Bool pvec_all_of(sid *b, sid *e, int functor)
{
  for (unsigned i = 0; i < NB; ++i)
    if (b + i < e && !tine_slot_is_null((const _anonymous_ *)0, b + i)) return 0;
  return 1;
}
#endif
#endif
#ifdef C01_OR
extern op_or__state g_or_state; extern sid g_origin_slot[NB]; extern op g_origin_op[NB];
static inline op_or__state *scon_get_or_state(mscon *sc, unsigned long loc) { return &g_or_state; }
static inline void scon_reset_or_state(mscon *sc, unsigned long loc, const brvec *branches) { g_or_state = op_or_state_ctor((brvec *)branches); }
static inline void origin_set_next(op *origin, mscon *sc, sid s)
{
  for (unsigned i = 0; i < NB; ++i) if (origin == &g_origin_op[i]) { g_origin_slot[i] = s; return; }
  M_ASSERT(0, "set_next on one of the branch origins");
}
#endif
static inline sid branch_source(unsigned i, mscon *sc)
{
#ifdef C01_ALT
  return op_tine_next(&g_tine[i], sc);
#else
  return SID_TAKE(&g_origin_slot[i]);          /* op_origin::next hands out what it was fed, once */
#endif
}
static inline sid op_next_model(op *o, mscon *sc)
{
  if (o == &g_upstream_op)
    return g_fi < g_nfeed ? g_feed[g_fi++] : (sid)0;
  for (unsigned i = 0; i < NB; ++i)
    if (o == &g_branch_op[i])
      {
        for (unsigned round = 0; round < 4; ++round)
          {
            if (g_pending[i] > 0)
              {
                g_pending[i]--;
                M_ASSERT(g_nlog < LOGMAX, "log large enough");
                if (g_nlog < LOGMAX) { g_log_branch[g_nlog] = i; g_log_input[g_nlog] = g_cur[i]; g_nlog++; }
                return g_cur[i];
              }
            sid in = branch_source(i, sc);
            if (verif_raised) return (sid)0;
            if (in == 0) return (sid)0;
            M_ASSERT(in >= 1 && in <= NIN, "input handle in play");
            g_cur[i] = in; g_pending[i] = g_k[(in >= 1 && in <= NIN) ? in - 1 : 0][i];
          }
        M_ASSERT(0, "branch model: bounded number of inputs without results per pull");
        return (sid)0;
      }
  M_ASSERT(0, "next() on a modelled operator");
  return (sid)0;
}
#endif
