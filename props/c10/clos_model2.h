/* second half of the model: needs the generated types.
 * The body E of the closure is an arbitrary relation g_R over NODES one-value stacks: fed the stack <x>, the
 * body's operator yields <y> for every y with g_R[x][y], in ascending order, then nullptr until fed again.
 * Upstream yields the stacks <g_inp[0]>, <g_inp[1]>, ... then nullptr. */
#ifndef C10_CLOS_MODEL2_H
#define C10_CLOS_MODEL2_H
extern op_tr_closure__state g_clos_state;
extern op g_upstream_op, g_inner_op, g_origin_op;
extern _Bool g_R[NODES][NODES];
extern int g_inp[2]; extern unsigned g_un, g_ui;
#ifdef CLOS_INDUCTIVE
/* inductive harness: upstream is an arbitrary source (any node, or exhausted), at most MAXPULL stacks per call;
   g_Y = ghost set of stacks yielded for the current input g_s; g_T = reachability by >= 1 step; g_plus = mode.
   OBLIGATION placed here: upstream is pulled only when everything reachable from the current input was yielded. */
#define MAXPULL 2
extern _Bool g_has_input, g_Y[NODES], g_T[NODES][NODES], g_plus; extern int g_s; extern unsigned g_pulls;
_Bool nondet_bool(void); int nondet_int(void);
#define REACH(s, y) (g_T[s][y] || (!g_plus && (int)(y) == (s)))
#endif
extern _Bool g_fed; extern int g_cur; extern unsigned g_cursor, g_feeds;
static inline op_tr_closure__state *scon_get_state(mscon *sc, unsigned long loc) { return &g_clos_state; }
#define mk1(x) ((sid)(x) + 1)          /* handle of the x-th stack in play */
#define NODE_OF(h) ((int)((h) - 1))
#define IS_NODE(h) ((h) >= 1 && (h) <= NODES)
static inline sid op_next_model(op *o, mscon *sc)
{
#ifdef CLOS_INDUCTIVE
  if (o == &g_upstream_op)
    {
      if (g_has_input)
        for (unsigned y = 0; y < NODES; ++y)
          M_ASSERT(!REACH(g_s, y) || g_Y[y], "OBLIGATION: the next input is pulled only after every stack reachable from the current input was yielded");
      g_pulls++;
      if (g_pulls <= MAXPULL && nondet_bool())
        {
          g_s = nondet_int();
#ifdef VERIF_CBMC
          __CPROVER_assume(g_s >= 0 && g_s < NODES);
#endif
          g_has_input = 1;
          for (unsigned y = 0; y < NODES; ++y) g_Y[y] = 0;
          return mk1(g_s);
        }
      g_has_input = 0;
      for (unsigned y = 0; y < NODES; ++y) g_Y[y] = 0;
      return (sid)0;
    }
#else
  if (o == &g_upstream_op)
    return g_ui < g_un ? mk1(g_inp[g_ui++]) : (sid)0;
#endif
  if (!g_fed) return (sid)0;
  while (g_cursor < NODES)
    {
      unsigned y = g_cursor++;
      if (g_R[g_cur][y]) return mk1((int)y);
    }
  return (sid)0;
}
static inline void origin_set_next(op *origin, mscon *sc, sid s)
{
  M_ASSERT(IS_NODE(s), "the body is fed one of the stacks in play");
  g_fed = 1; g_cur = NODE_OF(s); g_cursor = 0; g_feeds++;
}
#endif
