/* C10 (inductive step, graphs of <= 3 stacks): op_tr_closure::next lowered from op.cc.
   Instead of running the operator from the start for a bounded number of pulls, this harness proves an
   invariant of the operator's state: from ANY state satisfying INV (whatever history of inputs and pulls led
   to it) one call of next()
     - terminates, raises nothing,
     - yields only stacks reachable from the current input (E*: or the input itself),
     - never yields a stack already yielded for the current input (exactly once),
     - pulls the next input only when every reachable stack of the current one has been yielded
       (obligation in the upstream model, clos_model2.h), having cleared the seen-set (clean slate),
     - reports exhaustion only when upstream is exhausted,
     - and re-establishes INV.
   h_closure_init: the freshly constructed state satisfies INV.
   Remaining bounds: 3 distinct one-value stacks, body = any relation over them, <= 2 inputs with an empty
   closure skipped within one call. */
#ifndef CLOS_INDUCTIVE
#error "compile with -DCLOS_INDUCTIVE"
#endif
#include "clos_types.h"
#include "clos_protos.h"
#include "clos_model2.h"
int verif_raised;
op_tr_closure__state g_clos_state;
op g_upstream_op, g_inner_op, g_origin_op;
_Bool g_R[NODES][NODES];
int g_inp[2]; unsigned g_un, g_ui;
_Bool g_fed; int g_cur; unsigned g_cursor, g_feeds;
_Bool g_has_input, g_Y[NODES], g_T[NODES][NODES], g_plus; int g_s; unsigned g_pulls;
unsigned nondet_uint(void);

#define S (g_clos_state.m_seen)
#define W (g_clos_state.m_stks)
#define D (g_clos_state.m_op_drained)
static _Bool inS(int y)
{
  for (unsigned i = 0; i < SETMAX; ++i) if (i < S.n && S.e[i] == mk1(y)) return 1;
  return 0;
}
static _Bool inW(int y)
{
  for (unsigned i = 0; i < VMAX; ++i) if (i < W.n && W.d[i] == mk1(y)) return 1;
  return 0;
}
static _Bool closed(int x)
{
  for (unsigned y = 0; y < NODES; ++y) if (g_R[x][y] && !inS((int)y)) return 0;
  return 1;
}
static _Bool partial(void)
{
  for (unsigned y = 0; y < NODES; ++y) if (y < g_cursor && g_R[g_cur][y] && !inS((int)y)) return 0;
  return 1;
}
/* INV, clause by clause */
static _Bool inv_struct(void)
{
  if (S.n > NODES || W.n > NODES) return 0;
  for (unsigned i = 0; i < SETMAX; ++i)
    if (i < S.n)
      {
        if (!IS_NODE(S.e[i])) return 0;
        for (unsigned j = 0; j < SETMAX; ++j) if (j < i && S.e[j] == S.e[i]) return 0;
      }
  for (unsigned i = 0; i < VMAX; ++i)
    if (i < W.n)
      {
        if (!IS_NODE(W.d[i]) || !inS(NODE_OF(W.d[i]))) return 0;
        for (unsigned j = 0; j < VMAX; ++j) if (j < i && W.d[j] == W.d[i]) return 0;
      }
  return g_cursor <= NODES;
}
static _Bool inv_ghost(void)     /* the seen-set is exactly what was yielded for the current input */
{ for (unsigned y = 0; y < NODES; ++y) if (g_Y[y] != inS((int)y)) return 0; return 1; }
static _Bool inv_idle(void)      /* no current input: nothing seen, nothing pending, body drained */
{ return g_has_input || (S.n == 0 && W.n == 0 && D); }
static _Bool inv_expanding(void) /* body not drained: it was fed a stack in play whose earlier successors were seen */
{ return D || (g_fed && g_has_input && g_cur >= 0 && g_cur < NODES && partial() && (inS(g_cur) || (g_plus && g_cur == g_s))); }
static _Bool inv_sound(void)     /* everything seen is reachable from the current input */
{ for (unsigned y = 0; y < NODES; ++y) if (g_has_input && inS((int)y) && !REACH(g_s, y)) return 0; return 1; }
static _Bool inv_root(void)
{
  if (!g_has_input) return 1;
  if (!g_plus) return inS(g_s);
  return closed(g_s) || (!D && g_cur == g_s);
}
static _Bool inv_frontier(void)  /* every seen stack is expanded, awaits expansion, or is being expanded */
{
  for (unsigned x = 0; x < NODES; ++x)
    if (inS((int)x) && !(closed((int)x) || inW((int)x) || (!D && g_cur == (int)x))) return 0;
  return 1;
}

static void setup_graph(op_tr_closure *self)
{
  self->__base0.m_upstream = &g_upstream_op; self->m_op = &g_inner_op; self->m_origin = &g_origin_op; self->m_ll = 0;
  g_plus = nondet_bool(); self->m_is_plus = g_plus;
  for (unsigned i = 0; i < NODES; ++i) for (unsigned j = 0; j < NODES; ++j) { g_R[i][j] = nondet_bool(); g_T[i][j] = g_R[i][j]; }
  for (unsigned k = 0; k < NODES; ++k)
    for (unsigned i = 0; i < NODES; ++i)
      for (unsigned j = 0; j < NODES; ++j)
        if (g_T[i][k] && g_T[k][j]) g_T[i][j] = 1;
}

op_tr_closure__state nondet_state(void);
static void havoc_state(void)     /* globals are zero-initialised: make the whole operator/model state arbitrary */
{
  g_clos_state = nondet_state();
  g_fed = nondet_bool(); g_cur = nondet_int(); g_cursor = nondet_uint(); g_has_input = nondet_bool(); g_s = nondet_int();
  for (unsigned y = 0; y < NODES; ++y) g_Y[y] = nondet_bool();
}

void h_closure_step(void)
{
  op_tr_closure self; mscon sc;
  setup_graph(&self);
  /* an arbitrary state ... */
  havoc_state();
  __CPROVER_assume(g_s >= 0 && g_s < NODES);
  g_pulls = 0; verif_raised = 0;
  /* ... that satisfies INV */
  __CPROVER_assume(inv_struct() && inv_ghost() && inv_idle() && inv_expanding() && inv_sound() && inv_root() && inv_frontier());
#ifdef CASE_PLUS
  __CPROVER_assume(g_plus == CASE_PLUS && W.n == CASE_WN);   /* case split over mode and work-list length: the cases are exhaustive (W.n <= NODES by INV) */
#endif
  _Bool Y0[NODES]; for (unsigned y = 0; y < NODES; ++y) Y0[y] = g_Y[y];

  sid r = op_tr_closure_next(&self, &sc);

  __CPROVER_assert(verif_raised == 0, "no error");
  if (r != 0)
    {
      __CPROVER_assert(IS_NODE(r), "a result is one of the stacks in play");
      __CPROVER_assert(g_has_input, "a result belongs to a current input");
      if (IS_NODE(r))
        {
          __CPROVER_assert(REACH(g_s, NODE_OF(r)), "only stacks reachable from the current input are yielded");
          __CPROVER_assert(!g_Y[NODE_OF(r)], "no stack is yielded twice for one input");
          g_Y[NODE_OF(r)] = 1;
        }
    }
  else
    __CPROVER_assert(!g_has_input, "exhaustion is reported only when upstream is exhausted (and, by the upstream obligation, the current input was completed)");
  __CPROVER_assert(inv_struct(), "INV re-established: structure (no duplicates, work list within the seen-set)");
  __CPROVER_assert(inv_ghost(), "INV re-established: seen-set = stacks yielded for the current input");
  __CPROVER_assert(inv_idle(), "INV re-established: without a current input nothing is seen or pending (clean slate)");
  __CPROVER_assert(inv_expanding(), "INV re-established: the stack being expanded");
  __CPROVER_assert(inv_sound(), "INV re-established: everything seen is reachable");
  __CPROVER_assert(inv_root(), "INV re-established: the input itself is accounted for");
  __CPROVER_assert(inv_frontier(), "INV re-established: every seen stack is expanded, pending or being expanded");
}

void h_closure_init(void)
{
  op_tr_closure self;
  setup_graph(&self);
  g_clos_state = op_tr_closure_state_ctor();          /* op_tr_closure::state::state() */
  g_has_input = 0; g_fed = 0; g_cursor = 0;
  for (unsigned y = 0; y < NODES; ++y) g_Y[y] = 0;
  __CPROVER_assert(inv_struct() && inv_ghost() && inv_idle() && inv_expanding() && inv_sound() && inv_root() && inv_frontier(),
                   "the freshly constructed state satisfies INV");
}
#ifdef VERIF_CONTROL
void h_closure_step_control(void)
{
  op_tr_closure self; mscon sc;
  setup_graph(&self);
  havoc_state();
  __CPROVER_assume(g_s >= 0 && g_s < NODES);
  g_pulls = 0; verif_raised = 0;
  __CPROVER_assume(inv_struct() && inv_ghost() && inv_idle() && inv_expanding() && inv_sound() && inv_root() && inv_frontier());
  __CPROVER_assume(g_has_input && !D && W.n == 2 && S.n == 3);
  sid r = op_tr_closure_next(&self, &sc);
  __CPROVER_assert(r != 0, "CONTROL (must fail): with everything seen a pull still yields");
}
#endif
