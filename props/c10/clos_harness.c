/* C10 (BOUNDED): op_tr_closure::next and its helpers lowered from op.cc -- the operator behind E* and E+.
   For any relation R (the body E) over 3 distinct one-value stacks and any <= 2 input stacks: pulling the
   operator until it reports exhaustion terminates within the bound and yields, for each input s in turn,
   exactly the stacks reachable from s by R (E*: including s; E+: by at least one step), each exactly once;
   a new input starts from a clean slate (the second input's results do not depend on the first's). */
#include "clos_types.h"
#include "clos_protos.h"
#include "clos_model2.h"
int verif_raised;
op_tr_closure__state g_clos_state;
op g_upstream_op, g_inner_op, g_origin_op;
_Bool g_R[NODES][NODES];
int g_inp[2]; unsigned g_un, g_ui;
_Bool g_fed; int g_cur; unsigned g_cursor, g_feeds;
unsigned nondet_uint(void); _Bool nondet_bool(void); int nondet_int(void);
#ifndef MAXIN
#define MAXIN 2
#endif
#define MAXOUT (MAXIN * NODES)

void hb_closure(void)
{
  op_tr_closure self; mscon sc;
  self.__base0.m_upstream = &g_upstream_op; self.m_op = &g_inner_op; self.m_origin = &g_origin_op; self.m_ll = 0;
  self.m_is_plus = nondet_bool();
  for (unsigned i = 0; i < NODES; ++i) for (unsigned j = 0; j < NODES; ++j) g_R[i][j] = nondet_bool();
  g_un = nondet_uint(); __CPROVER_assume(g_un <= MAXIN); g_ui = 0;
  for (unsigned k = 0; k < 2; ++k) { g_inp[k] = nondet_int(); __CPROVER_assume(g_inp[k] >= 0 && g_inp[k] < NODES); }
  g_fed = 0; g_cursor = 0; g_feeds = 0; verif_raised = 0;
  /* state as constructed by op_tr_closure::state::state() */
  g_clos_state.m_seen.n = 0; g_clos_state.m_stks.n = 0; g_clos_state.m_op_drained = 1;

  /* reachability by at least one step (Warshall) */
  _Bool T[NODES][NODES];
  for (unsigned i = 0; i < NODES; ++i) for (unsigned j = 0; j < NODES; ++j) T[i][j] = g_R[i][j];
  for (unsigned k = 0; k < NODES; ++k)
    for (unsigned i = 0; i < NODES; ++i)
      for (unsigned j = 0; j < NODES; ++j)
        if (T[i][k] && T[k][j]) T[i][j] = 1;

  unsigned cnt[2][NODES] = {{0, 0, 0}, {0, 0, 0}};
  _Bool done = 0;
  for (unsigned call = 0; call < MAXOUT + 1; ++call)
    if (!done)
      {
        sid r = op_tr_closure_next(&self, &sc);
        __CPROVER_assert(verif_raised == 0, "no error");
        if (r == 0) done = 1;
        else
          {
            __CPROVER_assert(g_ui >= 1 && g_ui <= g_un, "a result belongs to an input that was pulled");
            __CPROVER_assert(IS_NODE(r), "a result is one of the stacks in play");
            if (g_ui >= 1 && g_ui <= 2 && IS_NODE(r)) cnt[g_ui - 1][NODE_OF(r)]++;
          }
      }
  __CPROVER_assert(done, "terminates: exhaustion is reported within inputs*nodes+1 pulls");
  __CPROVER_assert(g_ui == g_un, "every input has been pulled when exhaustion is reported");
  for (unsigned i = 0; i < 2; ++i)
    for (unsigned y = 0; y < NODES; ++y)
      {
        _Bool expect = i < g_un && (T[g_inp[i]][y] || (!self.m_is_plus && (int)y == g_inp[i]));
        __CPROVER_assert(cnt[i][y] == (expect ? 1u : 0u), "each reachable stack exactly once per input, nothing else");
      }
}
#ifdef VERIF_CONTROL
void hb_closure_control(void)
{
  op_tr_closure self; mscon sc;
  self.__base0.m_upstream = &g_upstream_op; self.m_op = &g_inner_op; self.m_origin = &g_origin_op; self.m_ll = 0;
  self.m_is_plus = 0;
  for (unsigned i = 0; i < NODES; ++i) for (unsigned j = 0; j < NODES; ++j) g_R[i][j] = nondet_bool();
  g_un = 1; g_ui = 0; g_inp[0] = 0; g_fed = 0; g_cursor = 0; g_feeds = 0; verif_raised = 0;
  g_clos_state.m_seen.n = 0; g_clos_state.m_stks.n = 0; g_clos_state.m_op_drained = 1;
  sid r1 = op_tr_closure_next(&self, &sc);
  sid r2 = op_tr_closure_next(&self, &sc);
  __CPROVER_assert(r2 == 0, "CONTROL (must fail): E* never yields a second stack");
}
#endif
