/* Abstract model for the lowering of op_tr_closure (TRUSTED):
 *   stack, unique_ptr<stack>, shared_ptr<stack>
 *                                a stack is represented by the identity of its CONTENTS: a handle `sid`
 *                                (0 = nullptr, k+1 = the k-th of the distinct stacks in play).  The closure
 *                                operator only copies stacks, orders them (through the seen-set) and hands
 *                                them on, it never looks inside; copying (make_unique<stack>(*p)) is the
 *                                identity on contents.  Object identity, ownership and aliasing are NOT
 *                                modelled here (C04's op_subx model keeps stacks as objects).
 *   std::set<shared_ptr<stack>, deref_less>   a set of stack contents (assumes stack::operator< is a strict weak
 *                                order whose equivalence is equality of contents: C09 covers compare_stack)
 *   std::vector<shared_ptr<stack>>            small vector of handles
 *   scon::get<state>(loc)        the operator's state object g_clos_state
 *   op::next, op_origin::set_next   clos_model2.h
 */
#ifndef C10_CLOS_MODEL_H
#define C10_CLOS_MODEL_H
#include "../common.h"
#ifndef NODES
#define NODES 3
#endif
#define SETMAX (NODES + 1)
#define VMAX (NODES + 1)
typedef long sid;
typedef struct mscon { char dummy; } mscon;
typedef struct sset { sid e[SETMAX]; unsigned n; } sset;
typedef struct sset_ins { unsigned first; _Bool second; } sset_ins;
typedef struct svec { sid d[VMAX]; unsigned n; } svec;
#ifdef VERIF_CBMC
#define M_ASSERT(c, msg) __CPROVER_assert(c, "closure model: " msg)
#else
#define M_ASSERT(c, msg) ((c) ? (void)0 : verif_assert_fail("closure model: " msg))
#endif
#define PTR_ID(p) (p)
#define PTR_BOOL(p) ((_Bool)((p) != 0))
#define UPTR_IS_NULL(p, n) ((_Bool)((p) == 0))
#define UPTR_NOT_NULL(p, n) ((_Bool)((p) != 0))
#define VERIF_MOVE(p) (p)
#define STACK_COPY(s) (M_ASSERT((s) != 0, "copy of a stack through a non-null pointer"), (s))
static inline sset sset_new(void) { sset s; s.n = 0; return s; }
static inline svec svec_new(void) { svec v; v.n = 0; return v; }
static inline sset_ins sset_insert(sset *s, const sid *p)
{
  sset_ins r; r.first = 0; r.second = 0;
  M_ASSERT(*p != 0, "the comparator dereferences its operands: no null pointer is inserted");
  for (unsigned i = 0; i < SETMAX; ++i)
    if (i < s->n && s->e[i] == *p) { r.first = i; return r; }
  M_ASSERT(s->n < SETMAX, "seen-set fits");
  if (s->n < SETMAX) { s->e[s->n] = *p; r.first = s->n; s->n++; }
  r.second = 1;
  return r;
}
static inline void sset_clear(sset *s) { s->n = 0; }
static inline void svec_push_back(svec *v, const sid *x) { M_ASSERT(v->n < VMAX, "work list fits"); if (v->n < VMAX) v->d[v->n++] = *x; }
#define SVEC_BACK(v) (M_ASSERT((v)->n > 0, "back() of a non-empty vector"), &(v)->d[(v)->n > 0 ? (v)->n - 1 : 0])
static inline void svec_pop_back(svec *v) { M_ASSERT(v->n > 0, "pop_back of a non-empty vector"); if (v->n > 0) v->n--; }
static inline void svec_clear(svec *v) { v->n = 0; }
#define SVEC_EMPTY(v) ((_Bool)((v)->n == 0))
#endif
