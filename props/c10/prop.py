"""C10 (bounded) -- the closure operator behind E* / E+."""
import os, sys
sys.path.insert(0, os.path.join(os.path.dirname(__file__), '..', '..', 'tools'))
import vlib
from vlib import Job

PID = 'C10'
HERE = os.path.dirname(os.path.abspath(__file__))
OUT = os.path.join(vlib.BUILD, 'c10')
SPO = r'(const )?std::(shared_ptr<(op|op_origin)>|__shared_ptr<(op|op_origin).*>|__shared_ptr_access<(op|op_origin).*>)'
UPS = r'(const )?std::unique_ptr<stack(, std::default_delete<stack>)?>'
SPS = r'(const )?std::(shared_ptr<stack>|__shared_ptr<stack.*>|__shared_ptr_access<stack.*>)'
SETS = r'std::set<std::shared_ptr<stack>, .*deref_less.*>'
VECS = r'std::vector<std::shared_ptr<stack>(, std::allocator<std::shared_ptr<stack>>)?>'
PAIR = r'std::pair<std::_Rb_tree_const_iterator<std::shared_ptr<stack>>, bool>'
CFG = {
    'names': {'op_tr_closure::next': 'op_tr_closure_next', 'op_tr_closure::next_from_upstream': 'op_tr_closure_next_from_upstream',
              'op_tr_closure::next_from_op': 'op_tr_closure_next_from_op',
              'op_tr_closure::state::yield_and_cache': 'op_tr_closure_state_yield_and_cache',
              '_ZN13op_tr_closure5stateC1Ev': 'op_tr_closure_state_ctor'},
    'types': {SPO: 'op *', UPS: 'sid', SPS: 'sid', SETS: 'sset', VECS: 'svec', PAIR: 'sset_ins',
              r'stack': 'sid', r'std::nullptr_t': 'void *', r'scon': 'mscon', r'layout::loc': 'unsigned long'},
    'types_are_records': {SETS: True, VECS: True, PAIR: True, r'scon': True},
    'record_ctypes': ['sset', 'svec', 'sset_ins', 'mscon'],
    'record_default': {'sset': 'sset_new()', 'svec': 'svec_new()'},
    'types_prelude': '#include "clos_model.h"\n',
    'bodies_prelude': '#include "clos_model2.h"\n',
    'virtual': {'op::next': 'op_next_model'},
    'extern': {r'std::__shared_ptr_access<(op|op_origin).*>::operator->': {'c': 'PTR_ID', 'by_value': True},
               r'std::__shared_ptr_access<stack.*>::operator(->|\*)': {'c': 'PTR_ID', 'by_value': True},
               UPS + r'::operator(->|\*)': {'c': 'PTR_ID', 'by_value': True},
               r'(std::__shared_ptr<stack.*>|' + UPS + r')::operator bool': {'c': 'PTR_BOOL', 'by_value': True},
               r'std::operator==\|.*nullptr_t\).*': {'c': 'UPTR_IS_NULL', 'by_value': True},
               r'std::operator!=\|.*nullptr_t\).*': {'c': 'UPTR_NOT_NULL', 'by_value': True},
               r'std::make_unique': 'STACK_COPY', r'std::move': 'VERIF_MOVE',
               r'scon::get': 'scon_get_state', r'op_origin::set_next': 'origin_set_next',
               SETS + r'::insert': 'sset_insert', SETS + r'::clear': 'sset_clear',
               VECS + r'::push_back': 'svec_push_back', VECS + r'::back': 'SVEC_BACK', VECS + r'::pop_back': 'svec_pop_back',
               VECS + r'::empty': 'SVEC_EMPTY', VECS + r'::clear': 'svec_clear'},
}
ROOTS = ['op_tr_closure::next', '_ZN13op_tr_closure5stateC1Ev']


def jobs(tier):
    inc = [OUT, os.path.join(vlib.VERIF, 'props'), HERE]
    src = [os.path.join(HERE, 'clos_harness.c'), os.path.join(OUT, 'clos_bodies.c')]
    isrc = [os.path.join(HERE, 'clos_ind_harness.c'), os.path.join(OUT, 'clos_bodies.c')]
    def uw(wh, do):
        return ['--object-bits', '10', '--unwindset', 'op_tr_closure_next.0:%d,op_tr_closure_next.1:%d' % (wh, do)]
    J = [Job('closure_step_nodes3', isrc, 'h_closure_step', includes=inc, defines=['CLOS_INDUCTIVE'], kind='bounded', unwind=10, timeout=900,
             cbmc_args=uw(5, 8), inputs=['g_plus', 'g_s', 'g_has_input'],
             note='inductive step of the state invariant INV over ARBITRARY histories (any state satisfying INV, any number of earlier inputs and pulls); bounded only in the graph: body = any relation over 3 distinct stacks, <= 2 inputs with empty closure skipped inside one call'),
         Job('closure_init', isrc, 'h_closure_init', includes=inc, defines=['CLOS_INDUCTIVE'], kind='bounded', unwind=10, timeout=300,
             cbmc_args=uw(5, 8), note='base case: the state built by op_tr_closure::state::state() satisfies INV'),
         Job('bounded_closure_run_1input', src, 'hb_closure', includes=inc, defines=['MAXIN=1'], kind='bounded', unwind=8, timeout=900,
             cbmc_args=uw(5, 6), inputs=['g_un'],
             note='whole run from the constructed state: body = any relation over 3 stacks, 1 input stack, both E* and E+; result multiset = reachable set, each once; terminates'),
         Job('closure_step_control', isrc, 'h_closure_step_control', includes=inc, defines=['CLOS_INDUCTIVE', 'VERIF_CONTROL'], kind='control', expect='fail',
             unwind=10, timeout=600, cbmc_args=uw(5, 8)),
         Job('closure_control', src, 'hb_closure_control', includes=inc, defines=['VERIF_CONTROL'], kind='control', expect='fail',
             unwind=8, timeout=600, cbmc_args=uw(5, 6))]
    if tier == 'thorough':
        J.append(Job('closure_step_nodes4', isrc, 'h_closure_step', includes=inc, defines=['CLOS_INDUCTIVE', 'NODES=4'], kind='bounded', unwind=12,
                     timeout=6000, cbmc_args=uw(6, 10), inputs=['g_plus', 'g_s', 'g_has_input'],
                     note='as closure_step_nodes3 over 4 distinct stacks'))
        J.append(Job('bounded_closure_run_2inputs', src, 'hb_closure', includes=inc, defines=['MAXIN=2'], kind='bounded', unwind=8, timeout=6000,
                     cbmc_args=uw(5, 6), inputs=['g_un'], note='whole run with <= 2 input stacks (clean slate for the second input)'))
    return J


UNWIND = 8
LEVEL = 'other'      # bounded stand-ins only: never reported as proof
TRUSTED = ['tools/cxx2c.py lowering']
ASSUMPTIONS = [
    'stacks, smart pointers, the seen-set (std::set with deref_less), the work list (std::vector), the state area and the virtual op::next / op_origin::set_next are modelled (props/c10/clos_model*.h)',
    'the seen-set model identifies stacks by equal contents: assumes stack::operator< (compare_stack, C09) is a strict weak order whose equivalence is equality',
    'stacks are represented by the identity of their contents (handles); copying is the identity; object identity, ownership and aliasing of stacks are not modelled in this unit',
    'BOUNDED in the graph only: body = any relation over 3 (thorough: 4) distinct stacks; the step job quantifies over all states satisfying INV, i.e. all histories; INV itself is hand-written (props/c10/clos_ind_harness.c) and is checked to hold initially and to be preserved',
    'termination: every call terminates within the unwinding bounds (unwinding assertions); the number of results per input is bounded by exactly-once',
    'SLICE: the parser\'s desugaring of E+ / E* / E? and nested closures through real sub-operators are NOT covered',
]
EXPLANATION = 'Bounded check of the closure operator on the real op_tr_closure code; see DESIGN.md section 4 C10.'


def spec_files():
    return [os.path.join(HERE, 'clos_ind_harness.c'), os.path.join(HERE, 'clos_harness.c'), os.path.join(HERE, 'clos_model.h'), os.path.join(HERE, 'clos_model2.h')]


def prepare(tier):
    lw = vlib.extract('clos', 'libzwerg/op.cc', CFG, ROOTS, OUT)
    return {'unit': 'libzwerg/op.cc (op_tr_closure)', 'functions': lw.report['functions']}


def replay(r):
    qs = ['0 (1 add ?(10 ?lt))*', '0 (1 add ?(3 ?lt), 1 add ?(3 ?lt))*', '0 (1 add 3 mod)*', '0 (1 add 3 mod)+', '(0, 1) (1 add 3 mod)*',
          '0 (drop 0)*', '0 (drop 0)+', '5 (drop 1, drop 2)+', '1 (2 mul [0, 1] elem add ?(16 ?lt))*', '1 (2 mul [0, 1] elem add ?(16 ?lt))+',
          '(0, 1) (1 add 3 mod)+', '(0, 3) (1 add ?(6 ?lt))+', '0 ((1 add, 2 add) 5 mod)*', '0 ((1 add 5 mod)?)*', '0 ()*', '7 (drop 7)*']
    exp = [10, 3, 3, 3, 6, 1, 1, 2, 15, 14, 6, 7, 5, 5, 1, 1]
    res = vlib.zw_queries(qs, OUT)
    bad = ['`%s` yields %s results, expected %d' % (q, c, e) for q, (c, t), e in zip(qs, res, exp) if c != e]
    return {'reproduced': bool(bad), 'violations_on_real_library': bad, 'queries': len(qs)}
