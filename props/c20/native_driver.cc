// Native replay driver for C20: includes the REAL dwgrep/dwgrep.cc text (its main renamed, the
// dumper's private members opened up) and calls dumper::dump_charp on a real std::ostringstream.
//   render b0 b1 ...   -> prints the brief rendering as hex bytes
// Unresolved libzwerg symbols referenced by other parts of dwgrep.cc are left unresolved at link
// time (-Wl,--unresolved-symbols=ignore-all); dump_charp does not reach them.
#include <sstream>
#define private public
#define main dwgrep_real_main
#include "dwgrep/dwgrep.cc"
#undef main
#undef private

int main (int argc, char **argv)
{
  std::string in;
  for (int i = 2; i < argc; ++i)
    in.push_back ((char) (unsigned char) atoi (argv[i]));
  std::ostringstream ss;
  dumper d {*(zw_vocabulary const *) nullptr};
  d.dump_charp (ss, in.data (), in.size (), dumper::format::brief);
  std::string out = ss.str ();
  for (unsigned char c : out)
    printf ("%02x", c);
  printf ("\n");
  return 0;
}
