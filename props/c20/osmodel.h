/* Model of the parts of std::ostream that dumper::dump_charp uses (TRUSTED; assumed contract on
 * libstdc++).  A stream is an output buffer plus the formatting state that the code touches:
 * basefield (dec/hex/oct), width (reset by every formatted insertion) and fill character.
 *   os << char / const char* / std::string     append the bytes (width is not used by the code for these)
 *   os << std::hex                               basefield = hex
 *   os << std::setw(n)                           width = n
 *   os << unsigned                               digits in the current base, lowercase, right-aligned in
 *                                                `width` columns padded with `fill`; width reset to 0
 *   flags()/flags(f), fill()/fill(c)             read / write that state (used by ios_flag_saver)
 */
#ifndef C20_OSMODEL_H
#define C20_OSMODEL_H
#include "../common.h"

#ifndef OS_CAP
#define OS_CAP 64
#endif
typedef struct verif_os { char buf[OS_CAP]; size_t len; unsigned flags; char fill; int width; } verif_os;
#ifndef VERIF_STR_DEFINED
#define VERIF_STR_DEFINED
typedef struct verif_str { const char *p; size_t n; } verif_str;
#endif
#define OSF_HEX 8u          /* std::ios_base::hex in libstdc++ */
#define OSF_DEC 2u
#define OSF_OCT 64u
#define OSF_BASEFIELD (OSF_HEX | OSF_DEC | OSF_OCT)
#define OSF_SHOWBASE 512u   /* std::ios_base::showbase */

#ifdef VERIF_CBMC
#define OS_ASSERT(c, msg) __CPROVER_assert(c, "ostream model: " msg)
#else
#define OS_ASSERT(c, msg) ((c) ? (void)0 : verif_assert_fail("ostream model: " msg))
#endif

static inline verif_os *os_putc(verif_os *os, char c)
{ OS_ASSERT(os->len < OS_CAP, "output fits the modelled buffer"); os->buf[os->len++] = c; return os; }
static inline verif_os *os_put_char(verif_os *os, char c) { return os_putc(os, c); }
static inline verif_os *os_put_cstr(verif_os *os, const char *s)
{ for (size_t i = 0; s[i] != 0; ++i) os_putc(os, s[i]); return os; }
static inline verif_os *os_put_str(verif_os *os, const verif_str *s)
{ for (size_t i = 0; i < s->n; ++i) os_putc(os, s->p[i]); return os; }
static inline verif_os *os_manip_hex(verif_os *os) { os->flags = (os->flags & ~OSF_BASEFIELD) | OSF_HEX; return os; }
typedef verif_os *(*os_manip_t)(verif_os *);
static inline verif_os *os_apply(verif_os *os, os_manip_t f) { return f(os); }
static inline verif_os *os_setw(verif_os *os, int w) { os->width = w; return os; }
static inline verif_os *os_setfill(verif_os *os, char c) { os->fill = c; return os; }
static inline verif_os *os_put_unsigned(verif_os *os, unsigned v)
{
  unsigned base = (os->flags & OSF_HEX) ? 16 : (os->flags & OSF_OCT) ? 8 : 10;
  char d[12]; int n = 0;
  do { unsigned r = v % base; d[n++] = (char)(r < 10 ? '0' + r : 'a' + (r - 10)); v /= base; } while (v != 0 && n < 11);
  for (int i = n; i < os->width; ++i) os_putc(os, os->fill);
  while (n > 0) os_putc(os, d[--n]);
  os->width = 0;
  return os;
}
static inline verif_os *os_manip_oct(verif_os *os) { os->flags = (os->flags & ~OSF_BASEFIELD) | OSF_OCT; return os; }
static inline verif_os *os_manip_showbase(verif_os *os) { os->flags |= OSF_SHOWBASE; return os; }
/* unsigned long insertion: digits in the current base, lowercase; with showbase a non-zero value gets
   "0x" (hex) or a leading "0" (oct); right-aligned in `width` columns padded with `fill` (default
   adjustfield); width reset to 0 */
static inline verif_os *os_put_ulong(verif_os *os, unsigned long v)
{
  unsigned base = (os->flags & OSF_HEX) ? 16 : (os->flags & OSF_OCT) ? 8 : 10;
  char d[24]; int n = 0;
  unsigned long w = v;
  do { unsigned r = (unsigned)(w % base); d[n++] = (char)(r < 10 ? '0' + r : 'a' + (r - 10)); w /= base; } while (w != 0 && n < 23);
  int extra = 0;
  if ((os->flags & OSF_SHOWBASE) && v != 0)
    extra = base == 16 ? 2 : base == 8 ? 1 : 0;
  for (int i = n + extra; i < os->width; ++i) os_putc(os, os->fill);
  if (extra == 2) { os_putc(os, '0'); os_putc(os, 'x'); }
  if (extra == 1) os_putc(os, '0');
  while (n > 0) os_putc(os, d[--n]);
  os->width = 0;
  return os;
}
/* long insertion: decimal prints sign and magnitude; hex and oct print the two's complement bit
   pattern as an unsigned number (what num_put does for signed types in those bases) */
static inline verif_os *os_put_long(verif_os *os, long v)
{
  if ((os->flags & (OSF_HEX | OSF_OCT)) || v >= 0)
    return os_put_ulong(os, (unsigned long)v);
  os_putc(os, '-');
  return os_put_ulong(os, 0UL - (unsigned long)v);
}
#define OS_FLAGS(os) ((os)->flags)
static inline unsigned os_set_flags(verif_os *os, unsigned f) { unsigned o = os->flags; os->flags = f; return o; }
#define OS_FILL(os) ((os)->fill)
static inline char os_set_fill(verif_os *os, char c) { char o = os->fill; os->fill = c; return o; }
#define VERIF_SETW(n) (n)
#define VERIF_SETFILL(c) (c)
#ifndef VERIF_MKSTR
#define VERIF_MKSTR(p, n) ((verif_str){(p), (n)})
#endif

/* isprint in the locale of the process: ASCII graphic characters and space are printable, ASCII
   controls are not; for bytes >= 0x80 (negative as plain char) the answer depends on the locale
   and is left open (uninterpreted). */
#ifdef VERIF_CBMC
_Bool __CPROVER_uninterpreted_isprint_high(int);
static inline int verif_isprint(int c)
{
  OS_ASSERT(c >= -128 && c <= 255, "isprint argument within glibc's table");
  if (c >= 0x20 && c <= 0x7e) return 1;
  if (c >= 0 && c <= 0x7f) return 0;
  return __CPROVER_uninterpreted_isprint_high(c & 0xff);
}
#else
#include <ctype.h>
#define verif_isprint(c) isprint(c)
#endif
#endif
