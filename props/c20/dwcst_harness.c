/* C20 (named constants, slice): every DW_ / ELF constant is rendered by looking its number up in the
   generated name table through positive_int_from_mpz (dwcst.cc): the number itself when it is a
   non-negative int -- in particular 0, which nine DWARF constants have -- and -1 ("no name") otherwise,
   in either representation of the value. */
#include "../common.h"
#include "dwcst_types.h"
#include "dwcst_protos.h"
int verif_raised;
unsigned long nondet_ulong(void); _Bool nondet_bool(void);
typedef __int128 i128;
#define VALC(v) ((v).m_sign == signedness__sign ? (i128)(v).m_i : (i128)(v).m_u)
void h_code(void)
{
  mpz_class v; v.m_u = nondet_ulong(); v.m_sign = nondet_bool() ? signedness__sign : signedness__unsign;
  int r = positive_int_from_mpz(&v);
  __CPROVER_assert((VALC(v) >= 0 && VALC(v) <= 2147483647) ? (i128)r == VALC(v) : r == -1,
                   "a constant is looked up under its own number iff that is a non-negative int");
}
