/* C20 (integers): "integers render, in full form, in their domain's radix such that reading the text
   back as a literal gives an equal value of the same domain".
   render: <domain>::show(v, os, brevity::full)   -- lowered from constant.cc (hex, oct, decimal
           domains) on top of operator<<(ostream&, mpz_class) lowered from int.cc, ostream by its model
   read  : parse_int lowered from parser.yy (std::stoull by its model)
   for every 64-bit value in both representations. */
#include "parse_types.h"
#include "parse_protos.h"
#include "osmodel.h"
int verif_raised;
zw_cdom g_dom_hex, g_dom_bin, g_dom_oct, g_dom_dec;
unsigned long nondet_ulong(void);
_Bool nondet_bool(void);
typedef __int128 i128;
#define VALC(v) ((v).m_sign == signedness__sign ? (i128)(v).m_i : (i128)(v).m_u)

void show_hex(const void *self, const mpz_class *v, verif_os *o, brevity brv);
void show_oct(const void *self, const mpz_class *v, verif_os *o, brevity brv);
void show_bin(const void *self, const mpz_class *v, verif_os *o, brevity brv);
void show_dec(const void *self, const mpz_class *v, verif_os *o, brevity brv);

/* the parse unit calls the unary minus of int.cc, which the intio unit carries under another name */
mpz_class io_mpz_neg(mpz_class v);
mpz_class mpz_neg(mpz_class v) { return io_mpz_neg(v); }

static void os_init(verif_os *os) { os->len = 0; os->flags = OSF_DEC; os->fill = ' '; os->width = 0; }

static void roundtrip(int which)
{
  mpz_class v;
  v.m_u = nondet_ulong();
  v.m_sign = nondet_bool() ? signedness__sign : signedness__unsign;
#ifdef RADIX_SMALL
  __CPROVER_assume(VALC(v) >= -RADIX_SMALL && VALC(v) <= RADIX_SMALL);
#endif
  verif_os os; os_init(&os);
  verif_raised = 0;
  if (which == 16) show_hex(0, &v, &os, brevity__full);
  else if (which == 8) show_oct(0, &v, &os, brevity__full);
  else if (which == 2) show_bin(0, &v, &os, brevity__full);
  else show_dec(0, &v, &os, brevity__full);
  __CPROVER_assert(verif_raised == 0, "rendering an integer raises no error");
  __CPROVER_assert(os.flags == OSF_DEC && os.fill == ' ', "stream formatting state restored after rendering");
  __CPROVER_assert(os.len >= 1 && os.len < OS_CAP, "rendering is non-empty and fits");
  os.buf[os.len] = 0;
  strlit s; s.buf = os.buf; s.len = os.len;
  constant c = parse_int(s);
  __CPROVER_assert(verif_raised == 0, "the rendering reads back as a literal");
  __CPROVER_assert(verif_raised != 0 || VALC(c.m_value) == VALC(v), "reading the rendering back gives an equal value");
  const zw_cdom *want = which == 16 ? &g_dom_hex : which == 8 ? &g_dom_oct : which == 2 ? &g_dom_bin : &g_dom_dec;
#ifndef RADIX_ZERO_DOMAIN_KNOWN
  __CPROVER_assert(verif_raised != 0 || c.m_dom == want, "reading the rendering back gives the same domain");
#else
  /* known finding: zero in the hex and oct domains renders as "0", which reads back as decimal */
  __CPROVER_assert(verif_raised != 0 || c.m_dom == want || (VALC(v) == 0 && which != 10), "reading the rendering back gives the same domain");
#endif
}

void hb_radix_hex(void) { roundtrip(16); }
void hb_radix_oct(void) { roundtrip(8); }
void hb_radix_dec(void) { roundtrip(10); }
void hb_radix_bin(void) { roundtrip(2); }

/* the known finding on its own: exactly the listed inputs (value 0 in the hex, oct and bin domains) */
void hb_known_zero_domain(void)
{
  for (int k = 0; k < 3; ++k)
    {
      int which = k == 0 ? 16 : k == 1 ? 8 : 2;
      mpz_class v; v.m_u = 0; v.m_sign = signedness__unsign;
      verif_os os; os_init(&os);
      verif_raised = 0;
      if (which == 16) show_hex(0, &v, &os, brevity__full); else if (which == 8) show_oct(0, &v, &os, brevity__full); else show_bin(0, &v, &os, brevity__full);
      os.buf[os.len] = 0;
      strlit s; s.buf = os.buf; s.len = os.len;
      constant c = parse_int(s);
      __CPROVER_assert(c.m_dom == (which == 16 ? &g_dom_hex : which == 8 ? &g_dom_oct : &g_dom_bin), "zero of the hex/oct/bin domain reads back in its own domain");
    }
}
