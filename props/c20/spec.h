/* C20 (slice) -- the CLI's brief string rendering reads back as the same bytes
 * (dwgrep/dwgrep.cc dumper::dump_charp against the <STRING> rules of libzwerg/lexer.ll).
 *
 * zwerg_read_string() is a hand transcription of the scanner's <STRING> state (ASSUMED contract on
 * flex-generated code: longest match, earlier rule wins ties):
 *   \[0-3][0-7]?[0-7]?  -> that byte            \x HEX HEX -> that byte
 *   \a \b \e \t \n \v \f \r -> the control char  \<newline> -> nothing      \<other> -> <other>
 *   "\ [ \t\n]* "  /  "\ [ \t\n]* r"             -> continuation
 *   "                                            -> end of literal
 *   %% -> '%'      %( %s %x %o %b %d             -> a format directive (NOT literal text)
 *   anything else                                -> itself
 * The rendering reads back iff the scanner consumes exactly the whole rendering as one literal
 * without meeting a format directive and yields the original bytes.
 */
#ifndef C20_SPEC_H
#define C20_SPEC_H
#include "dump_types.h"
#include "dump_protos.h"

static inline int hexval(char c)
{
  if (c >= '0' && c <= '9') return c - '0';
  if (c >= 'a' && c <= 'f') return c - 'a' + 10;
  if (c >= 'A' && c <= 'F') return c - 'A' + 10;
  return -1;
}
static inline _Bool isoct(char c) { return c >= '0' && c <= '7'; }

/* returns 1 and fills out/outn when text[0..n) is exactly one plain string literal */
static inline _Bool zwerg_read_string(const char *t, size_t n, char *out, size_t outcap, size_t *outn)
{
  size_t p = 0, o = 0;
  if (n < 2 || t[0] != '"')
    return 0;
  p = 1;
  while (p < n)
    {
      char c = t[p];
      if (c == '\\' && p + 1 < n)
        {
          char d = t[p + 1];
          if (d >= '0' && d <= '3')
            {
              unsigned v = (unsigned)(d - '0');
              size_t k = p + 2;
              if (k < n && isoct(t[k])) { v = v * 8 + (unsigned)(t[k] - '0'); ++k; if (k < n && isoct(t[k])) { v = v * 8 + (unsigned)(t[k] - '0'); ++k; } }
              if (o >= outcap) return 0;
              out[o++] = (char)(unsigned char)v;
              p = k;
              continue;
            }
          if (d == 'x' && p + 3 < n && hexval(t[p + 2]) >= 0 && hexval(t[p + 3]) >= 0)
            {
              if (o >= outcap) return 0;
              out[o++] = (char)(unsigned char)(hexval(t[p + 2]) * 16 + hexval(t[p + 3]));
              p += 4;
              continue;
            }
          char r = d;
          _Bool skip = 0;
          switch (d)
            {
            case 'a': r = '\a'; break; case 'b': r = '\b'; break; case 'e': r = 27; break;
            case 't': r = '\t'; break; case 'n': r = '\n'; break; case 'v': r = '\v'; break;
            case 'f': r = '\f'; break; case 'r': r = '\r'; break; case '\n': skip = 1; break;
            default: break;
            }
          if (!skip) { if (o >= outcap) return 0; out[o++] = r; }
          p += 2;
          continue;
        }
      if (c == '"')
        {
          /* continuation?  "\ ws* "   or   "\ ws* r"  */
          if (p + 1 < n && t[p + 1] == '\\')
            {
              size_t k = p + 2;
              while (k < n && (t[k] == ' ' || t[k] == '\t' || t[k] == '\n')) ++k;
              if (k < n && t[k] == '"') { p = k + 1; continue; }
              if (k + 1 < n && t[k] == 'r' && t[k + 1] == '"') return 0;   /* switches to raw mode: not modelled, reject */
            }
          /* end of literal: must be the end of the rendering */
          *outn = o;
          return p + 1 == n;
        }
      if (c == '%' && p + 1 < n)
        {
          char d = t[p + 1];
          if (d == '%') { if (o >= outcap) return 0; out[o++] = '%'; p += 2; continue; }
          if (d == '(' || d == 's' || d == 'x' || d == 'o' || d == 'b' || d == 'd')
            return 0;           /* a format directive, not literal text */
        }
      if (o >= outcap) return 0;
      out[o++] = c;
      ++p;
    }
  return 0;                     /* not terminated */
}
#endif
