"""C20 (slice) -- brief string rendering reads back as the same bytes."""
import os, sys, json
sys.path.insert(0, os.path.join(os.path.dirname(__file__), '..', '..', 'tools'))
import vlib
from vlib import Job

PID = 'C20'
HERE = os.path.dirname(os.path.abspath(__file__))
OUT = os.path.join(vlib.BUILD, 'c20')
OS = r'(std::basic_ostream<char(, std::char_traits<char>)?>|std::ostream|std::basic_ios<char(, std::char_traits<char>)?>|std::ios|std::ios_base|std::basic_ostream<char>::__ostream_type)'
STR = r'(std::basic_string<char.*>|std::string)'
CFG = {
    'names': {'dumper::dump_charp': 'dump_charp', 'ios_flag_saver::ios_flag_saver': 'ios_flag_saver_ctor',
              'ios_flag_saver::~ios_flag_saver': 'ios_flag_saver_dtor'},
    'types': {OS: 'verif_os', STR: 'verif_str', r'std::_Setw': 'int', r'std::_Setfill<char>': 'char',
              r'(std::_Ios_Fmtflags|std::ios_base::fmtflags|std::basic_ios<char>::fmtflags|std::ios::fmtflags)': 'unsigned',
              r'std::allocator<char>': 'int'},
    'types_are_records': {OS: True, STR: True},
    'record_ctypes': ['verif_os', 'verif_str'],
    'opaque_records': ['dumper'],
    'types_prelude': '#include "osmodel.h"\ntypedef struct dumper dumper;\n',
    'functor_types': [r'std::allocator<char>'],
    'extern': {
        r'std::operator<<\|.*\(basic_ostream<char, .*> &, char\)': 'os_put_char',
        r'std::operator<<\|.*\(basic_ostream<char, .*> &, const char \*\)': 'os_put_cstr',
        r'std::operator<<\|.*basic_string<.*': 'os_put_str',
        r'std::operator<<\|.*_Setw\)': 'os_setw',
        r'std::operator<<\|.*_Setfill<.*': 'os_setfill',
        r'std::basic_ostream<char(, std::char_traits<char>)?>::operator<<\|.*\(\*\).*': 'os_apply',
        r'std::basic_ostream<char(, std::char_traits<char>)?>::operator<<\|.*\(unsigned int\)': 'os_put_unsigned',
        r'std::hex': 'os_manip_hex', r'std::setw': 'VERIF_SETW', r'std::setfill': 'VERIF_SETFILL',
        r'isprint': 'verif_isprint',
        r'std::ios_base::flags\|.*\(\) const': 'OS_FLAGS',
        r'std::ios_base::flags\|.*\(std::ios_base::fmtflags\)': 'os_set_flags',
        r'std::basic_ios<char(, std::char_traits<char>)?>::fill\|.*\(\) const': 'OS_FILL',
        r'std::basic_ios<char(, std::char_traits<char>)?>::fill\|.*\(.*char_type\)': 'os_set_fill',
        STR + r'::ctor\|.*': 'VERIF_MKSTR',
    },
}
ROOTS = ['dumper::dump_charp']
INPUTS = ['len', 'in[*']
FLAGS = ['-I%s' % vlib.REPO]


def jobs(tier):
    src = [os.path.join(HERE, 'harness.c'), os.path.join(OUT, 'dump_bodies.c')]
    inc = [OUT, os.path.join(vlib.VERIF, 'props'), HERE]
    n = 3 if tier == 'quick' else 4
    J = []
    J.append(Job('brief_roundtrip_len%d' % n, src, 'hb_brief_roundtrip', includes=inc, inputs=INPUTS,
                 defines=['C20_LEN=%d' % n, 'OS_CAP=%d' % (4 * n + 4)], kind='bounded', unwind=4 * n + 8, timeout=1500,
                 note='bounded: all byte strings of length <= %d (256^%d)' % (n, n)))
    J.append(Job('full_verbatim_len%d' % n, src, 'hb_full_verbatim', includes=inc, inputs=INPUTS,
                 defines=['C20_LEN=%d' % n, 'OS_CAP=%d' % (4 * n + 4)], kind='bounded', unwind=4 * n + 8, timeout=600,
                 note='bounded: all byte strings of length <= %d' % n))
    J.append(Job('control', src, 'hb_control', includes=inc, defines=['VERIF_CONTROL', 'C20_LEN=1', 'OS_CAP=16'],
                 kind='control', expect='fail', unwind=16, timeout=300))
    return J


LEVEL = 'other'
TRUSTED = [
    'tools/cxx2c.py lowering',
    'props/c20/osmodel.h: model of std::ostream insertion, std::hex, std::setw, fill/flags and isprint (assumed contract on libstdc++/glibc)',
    'props/c20/spec.h zwerg_read_string: hand transcription of the <STRING> scanner rules of lexer.ll (assumed contract on flex-generated code)',
]
ASSUMPTIONS = [
    'isprint: ASCII graphic+space printable, ASCII controls not, bytes >= 0x80 locale-dependent (left open)',
    'SLICE: named-constant tables, integer radix rendering, %d %x %o %b, nested sequences and the other dump_* functions are NOT covered',
]
EXPLANATION = 'Bounded round trip of dumper::dump_charp against a transcription of the scanner; see DESIGN.md section 4 C20.'


def spec_files():
    return [os.path.join(HERE, 'spec.h'), os.path.join(HERE, 'harness.c'), os.path.join(HERE, 'osmodel.h')]


def prepare(tier):
    lw = vlib.extract('dump', 'dwgrep/dwgrep.cc', CFG, ROOTS, OUT, extra_flags=FLAGS)
    return {'unit': 'dwgrep/dwgrep.cc', 'functions': lw.report['functions'], 'externals': lw.report['externals']}


def build_native():
    exe = os.path.join(OUT, 'native_driver')
    vlib.native(['g++', '-std=c++14', '-O0', '-w', '-static', '-I%s' % vlib.REPO, '-I%s/libzwerg' % vlib.REPO, '-I%s/_build' % vlib.REPO,
                 '-I%s/dwgrep' % vlib.REPO, os.path.join(HERE, 'native_driver.cc'), '-Wl,--unresolved-symbols=ignore-all', '-o', exe])
    return exe


def read_back(t):
    """Python transcription of the same scanner rules (independent of spec.h) -> bytes or None."""
    n = len(t)
    if n < 2 or t[0] != 0x22:
        return None
    p, out = 1, []
    OCT = b'01234567'
    HEX = b'0123456789abcdefABCDEF'
    while p < n:
        c = t[p]
        if c == 0x5c and p + 1 < n:
            d = t[p + 1]
            if d in b'0123':
                k = p + 2
                v = d - 48
                for _ in range(2):
                    if k < n and t[k] in OCT:
                        v = v * 8 + t[k] - 48
                        k += 1
                    else:
                        break
                out.append(v & 255)
                p = k
                continue
            if d == ord('x') and p + 3 < n and t[p + 2] in HEX and t[p + 3] in HEX:
                out.append(int(bytes(t[p + 2:p + 4]), 16))
                p += 4
                continue
            m = {ord('a'): 7, ord('b'): 8, ord('e'): 27, ord('t'): 9, ord('n'): 10, ord('v'): 11, ord('f'): 12, ord('r'): 13}
            if d == 10:
                pass
            else:
                out.append(m.get(d, d))
            p += 2
            continue
        if c == 0x22:
            if p + 1 < n and t[p + 1] == 0x5c:
                k = p + 2
                while k < n and t[k] in b' \t\n':
                    k += 1
                if k < n and t[k] == 0x22:
                    p = k + 1
                    continue
                if k + 1 < n and t[k] == ord('r') and t[k + 1] == 0x22:
                    return None
            return bytes(out) if p + 1 == n else None
        if c == ord('%') and p + 1 < n:
            d = t[p + 1]
            if d == ord('%'):
                out.append(ord('%'))
                p += 2
                continue
            if d in b'(sxobd':
                return None
        out.append(c)
        p += 1
    return None


def replay_bytes(bs):
    exe = build_native()
    rc, out, err, w = vlib.run([exe, 'render'] + [str(b) for b in bs], timeout=30)
    if rc != 0:
        return {'reproduced': False, 'error': 'driver rc=%s %s' % (rc, (out + err)[-200:])}
    rendering = bytes.fromhex(out.strip())
    back = read_back(rendering)
    return {'reproduced': back != bytes(bs), 'input_bytes': list(bs), 'rendering_on_real_code': rendering.decode('latin-1'),
            'read_back': None if back is None else list(back)}


def replay(r):
    if not r.cex or 'len' not in r.cex:
        return {'reproduced': False, 'note': 'no input in the counterexample'}
    def num(x):
        s = str(x)
        neg = s.strip().startswith('-')
        v = int(''.join(ch for ch in s if ch.isdigit()) or 0)
        return (-v if neg else v) & 255
    n = num(r.cex['len'])
    bs = [num(r.cex.get('in[%dl]' % i, r.cex.get('in[%d]' % i, 0))) for i in range(n)]
    return replay_bytes(bs)
