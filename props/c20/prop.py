"""C20 (slice) -- brief string rendering reads back as the same bytes."""
import os, sys, json
sys.path.insert(0, os.path.join(os.path.dirname(__file__), '..', '..', 'tools'))
import vlib
from vlib import Job

PID = 'C20'
HERE = os.path.dirname(os.path.abspath(__file__))
OUT = os.path.join(vlib.BUILD, 'c20')
OS = r'(std::basic_ostream<char(, std::char_traits<char>)?>|std::ostream|std::basic_ios<char(, std::char_traits<char>)?>|std::ios|std::ios_base|std::basic_ostream<char>::__ostream_type)'
STR = r'(std::basic_string<char.*>|std::string)'
CFG = {
    'names': {'dumper::dump_charp': 'dump_charp', 'ios_flag_saver::ios_flag_saver': 'ios_flag_saver_ctor',
              'ios_flag_saver::~ios_flag_saver': 'ios_flag_saver_dtor'},
    'types': {OS: 'verif_os', STR: 'verif_str', r'std::_Setw': 'int', r'std::_Setfill<char>': 'char',
              r'(std::_Ios_Fmtflags|std::ios_base::fmtflags|std::basic_ios<char>::fmtflags|std::ios::fmtflags)': 'unsigned',
              r'std::allocator<char>': 'int'},
    'types_are_records': {OS: True, STR: True},
    'record_ctypes': ['verif_os', 'verif_str'],
    'opaque_records': ['dumper'],
    'types_prelude': '#include "osmodel.h"\ntypedef struct dumper dumper;\n',
    'functor_types': [r'std::allocator<char>'],
    'extern': {
        r'std::operator<<\|.*\(basic_ostream<char, .*> &, char\)': 'os_put_char',
        r'std::operator<<\|.*\(basic_ostream<char, .*> &, const char \*\)': 'os_put_cstr',
        r'std::operator<<\|.*basic_string<.*': 'os_put_str',
        r'std::operator<<\|.*_Setw\)': 'os_setw',
        r'std::operator<<\|.*_Setfill<.*': 'os_setfill',
        r'std::basic_ostream<char(, std::char_traits<char>)?>::operator<<\|.*\(\*\).*': 'os_apply',
        r'std::basic_ostream<char(, std::char_traits<char>)?>::operator<<\|.*\(unsigned int\)': 'os_put_unsigned',
        r'std::hex': 'os_manip_hex', r'std::setw': 'VERIF_SETW', r'std::setfill': 'VERIF_SETFILL',
        r'isprint': 'verif_isprint',
        r'std::ios_base::flags\|.*\(\) const': 'OS_FLAGS',
        r'std::ios_base::flags\|.*\(std::ios_base::fmtflags\)': 'os_set_flags',
        r'std::basic_ios<char(, std::char_traits<char>)?>::fill\|.*\(\) const': 'OS_FILL',
        r'std::basic_ios<char(, std::char_traits<char>)?>::fill\|.*\(.*char_type\)': 'os_set_fill',
        STR + r'::ctor\|.*': 'VERIF_MKSTR',
    },
}
ROOTS = ['dumper::dump_charp']

# ---- integers: radix rendering round trip -----------------------------------------------------------
import copy, importlib.util
_spec = importlib.util.spec_from_file_location('c08prop', os.path.join(HERE, '..', 'c08', 'prop.py'))
_c08 = importlib.util.module_from_spec(_spec)
_spec.loader.exec_module(_c08)
PARSE_CFG, PARSE_ROOTS = _c08.PARSE_CFG, _c08.PARSE_ROOTS

OSEXT = {k: v for k, v in CFG['extern'].items()}
OSEXT.update({
    r'std::basic_ostream<char(, std::char_traits<char>)?>::operator<<\|.*\(unsigned long\)': 'os_put_ulong',
    r'std::basic_ostream<char(, std::char_traits<char>)?>::operator<<\|.*\(long\)': 'os_put_long',
    r'std::oct': 'os_manip_oct', r'std::showbase': 'os_manip_showbase',
})
INTIO_CFG = {
    'names': {'_ZlsRSo9mpz_class': 'mpz_print', '_Zlt9mpz_classS_': 'io_mpz_lt', '_Zng9mpz_class': 'io_mpz_neg',
              '_ZN9mpz_classC1Ei': 'io_mpz_from_int', '_ZN9mpz_classC1Em10signedness': 'io_mpz_mk'},
    'types': CFG['types'], 'types_are_records': CFG['types_are_records'], 'record_ctypes': CFG['record_ctypes'],
    'types_prelude': '#include "osmodel.h"\n', 'functor_types': CFG['functor_types'],
    'raise': ['(anonymous namespace)::int_error'],
    'extern': OSEXT,
}
INTIO_ROOTS = ['_ZlsRSo9mpz_class']


def show_root(domname):
    """The radix domains are objects of anonymous structs; pick the one whose name() returns `domname`."""
    def pick(tu, lw):
        import cxx2c
        for nid, n in tu.by_id.items():
            if n.get('kind') != 'CXXRecordDecl' or not n.get('completeDefinition'):
                continue
            meths = {k.get('name'): k for k in cxx2c.kids(n) if k.get('kind') == 'CXXMethodDecl'}
            if 'name' in meths and 'show' in meths:
                txt = json.dumps(meths['name'])
                if '"value": "\\"%s\\""' % domname in txt:
                    m = meths['show'].get('mangledName')
                    lw.names[m] = 'show_' + domname
                    return m
        raise cxx2c.Unsupported('no domain class whose name() returns "%s"' % domname)
    return pick


SHOW_CFG = {
    'names': {'numeric_constant_dom_t::show': 'show_dec', 'ios_flag_saver::ios_flag_saver': 'show_ifs_ctor',
              'ios_flag_saver::~ios_flag_saver': 'show_ifs_dtor'},
    'types': CFG['types'], 'types_are_records': CFG['types_are_records'], 'record_ctypes': CFG['record_ctypes'],
    'types_prelude': '#include "osmodel.h"\n', 'functor_types': CFG['functor_types'],
    'extern': dict(OSEXT, **{r'operator<<\|std::ostream &\(std::ostream &, mpz_class\)': 'mpz_print'}),
    'extern_may_raise': ['mpz_print'],
    'extern_ret': {'mpz_print': 'verif_os *'},
    'bodies_prelude': 'verif_os *mpz_print(verif_os *o, mpz_class value);\n',
}
VC = r'std::vector<char(, std::allocator<char>)?>'
VCIT = r'__gnu_cxx::__normal_iterator<(const )?char \*, std::vector<char.*>>'
SHOW_CFG['types'] = dict(SHOW_CFG['types'])
SHOW_CFG['types'].update({VC: 'vec_char', VCIT + r'|std::vector<char>::(const_)?iterator': 'char *'})
SHOW_CFG['types_are_records'] = dict(SHOW_CFG['types_are_records'])
SHOW_CFG['types_are_records'][VC] = True
SHOW_CFG['record_ctypes'] = list(SHOW_CFG['record_ctypes']) + ['vec_char']
SHOW_CFG['record_default'] = {'vec_char': 'vec_char_new()'}
SHOW_CFG['types_prelude'] = '#include "osmodel.h"\n#include "vecgen.h"\nVERIF_VEC(vec_char, char);\n' \
    'static inline vec_char vec_char_new(void) { static char store[72]; vec_char v; v.data = store; v.len = 0; v.cap = 72; return v; }\n'
SHOW_CFG['extern'].update({
    VC + r'::push_back': 'GVEC_PUSH_BACK', VC + r'::begin': 'GVEC_BEGIN', VC + r'::end': 'GVEC_END',
    VCIT + r'::operator\*': {'c': 'GIT_DEREF', 'by_value': True},
    r'std::reverse': {'c': 'gvec_reverse_char', 'by_value': True},
    r'operator<\|bool \(mpz_class, mpz_class\)': 'io_mpz_lt', r'operator==\|bool \(mpz_class, mpz_class\)': 'io_mpz_eq',
    r'operator-\|mpz_class \(mpz_class\)': 'io_mpz_neg'})
SHOW_CFG['extern_may_raise'] = ['mpz_print', 'io_mpz_neg']
SHOW_CFG['bodies_prelude'] += '_Bool io_mpz_lt(mpz_class, mpz_class); _Bool io_mpz_eq(mpz_class, mpz_class); mpz_class io_mpz_neg(mpz_class);\n'
SHOW_CFG['names'].update({'_ZN9mpz_classC1Ei': 'show_mpz_from_int', '_ZN9mpz_classC1Em10signedness': 'show_mpz_mk', 'mpz_class::uval': 'show_mpz_uval',
                          '_Zge9mpz_classS_': 'io_mpz_ge'})
SHOW_CFG['extern'][r'operator>=\|bool \(mpz_class, mpz_class\)'] = 'io_mpz_ge'
SHOW_CFG['bodies_prelude'] += '_Bool io_mpz_ge(mpz_class, mpz_class);\n'
DWCST_CFG = {
    'names': {'(anonymous namespace)::positive_int_from_mpz': 'positive_int_from_mpz', 'mpz_class::uval': 'dwcst_mpz_uval',
              '_ZN9mpz_classC1Ei': 'dwcst_mpz_from_int', '_ZN9mpz_classC1Em10signedness': 'dwcst_mpz_mk'},
    'extern': {r'operator%s\|bool \(mpz_class, mpz_class\)' % o: 'io_mpz_' + n
               for o, n in (('<', 'lt'), ('>=', 'ge'), ('<=', 'le'), ('>', 'gt'), ('==', 'eq'), ('!=', 'ne'))},
    'bodies_prelude': ''.join('_Bool io_mpz_%s(mpz_class, mpz_class); ' % n for n in ('lt', 'ge', 'le', 'gt', 'eq', 'ne')) + '\n',
}
DWCST_ROOTS = ['(anonymous namespace)::positive_int_from_mpz']
SHOW_ROOTS = [show_root('hex'), show_root('oct'), show_root('bin'), 'numeric_constant_dom_t::show']
INTIO_CFG['names'].update({'_Zeq9mpz_classS_': 'io_mpz_eq', '_Zge9mpz_classS_': 'io_mpz_ge', '_Zle9mpz_classS_': 'io_mpz_le',
                           '_Zgt9mpz_classS_': 'io_mpz_gt', '_Zne9mpz_classS_': 'io_mpz_ne'})
INTIO_ROOTS = ['_ZlsRSo9mpz_class', '_Zeq9mpz_classS_', '_Zge9mpz_classS_', '_Zle9mpz_classS_', '_Zgt9mpz_classS_', '_Zne9mpz_classS_']
INPUTS = ['len', 'in[*']
FLAGS = ['-I%s' % vlib.REPO]


def jobs(tier):
    src = [os.path.join(HERE, 'harness.c'), os.path.join(OUT, 'dump_bodies.c')]
    inc = [OUT, os.path.join(vlib.VERIF, 'props'), HERE]
    n = 3 if tier == 'quick' else 4
    J = []
    J.append(Job('brief_roundtrip_len%d' % n, src, 'hb_brief_roundtrip', includes=inc, inputs=INPUTS,
                 defines=['C20_LEN=%d' % n, 'OS_CAP=%d' % (4 * n + 4)], kind='bounded', unwind=4 * n + 8, timeout=1500,
                 note='bounded: all byte strings of length <= %d (256^%d)' % (n, n)))
    J.append(Job('full_verbatim_len%d' % n, src, 'hb_full_verbatim', includes=inc, inputs=INPUTS,
                 defines=['C20_LEN=%d' % n, 'OS_CAP=%d' % (4 * n + 4)], kind='bounded', unwind=4 * n + 8, timeout=600,
                 note='bounded: all byte strings of length <= %d' % n))
    kf = [k for k in vlib.load_known_findings().get('findings', []) if k.get('property') == PID and k.get('job') == 'known_zero_domain']
    kf_defs = ['RADIX_ZERO_DOMAIN_KNOWN'] if kf else []
    rsrc = [os.path.join(HERE, 'radix_harness.c'), os.path.join(OUT, 'intio_bodies.c'), os.path.join(OUT, 'show_bodies.c'),
            os.path.join(OUT, 'parse_bodies.c')]
    for radix, extra, note in (('hex', [], 'all 2^65 values'), ('oct', [], 'all 2^65 values'), ('bin', [], 'all 2^65 values'),
                               ('dec', ['RADIX_SMALL=%d' % (9999 if tier == 'quick' else 999999)],
                                'BOUNDED: |value| <= %d (decimal digit arithmetic is out of the solver\'s reach for all values)' % (9999 if tier == 'quick' else 999999))):
        J.append(Job('radix_roundtrip_' + radix, rsrc, 'hb_radix_' + radix, includes=inc + [os.path.join(HERE, '..', 'c08')],
                     inputs=['v.*', 'v'], input_fns=['roundtrip'], defines=['OS_CAP=80', 'PARSE_MAXLEN=78'] + extra + kf_defs,
                     kind='bounded' if radix == 'dec' else 'proof', unwind=70 if radix == 'bin' else 28, timeout=1500,
                     note='render by <domain>::show, read back by parse_int; %s; loops bounded by the number of digits of a '
                          '64-bit value (full unwinding)' % note))
    J.append(Job('named_constant_code', [os.path.join(HERE, 'dwcst_harness.c'), os.path.join(OUT, 'dwcst_bodies.c'),
                                         os.path.join(OUT, 'intio_bodies.c')], 'h_code', includes=inc, kind='proof', timeout=300,
                 inputs=['v.*'], note='positive_int_from_mpz (dwcst.cc): the code under which a named constant is looked up for rendering'))
    if kf:
        J.append(Job('known_zero_domain', rsrc, 'hb_known_zero_domain', includes=inc + [os.path.join(HERE, '..', 'c08')],
                     defines=['OS_CAP=32', 'PARSE_MAXLEN=30'], kind='proof', unwind=28, timeout=600,
                     note='witness of the listed known finding (exactly value 0 in the hex and oct domains); the round-trip jobs exclude exactly these inputs'))
    J.append(Job('control', src, 'hb_control', includes=inc, defines=['VERIF_CONTROL', 'C20_LEN=1', 'OS_CAP=16'],
                 kind='control', expect='fail', unwind=16, timeout=300))
    return J


LEVEL = 'other'
TRUSTED = [
    'tools/cxx2c.py lowering',
    'props/c20/osmodel.h: model of std::ostream insertion, std::hex, std::setw, fill/flags and isprint (assumed contract on libstdc++/glibc)',
    'props/c20/spec.h zwerg_read_string: hand transcription of the <STRING> scanner rules of lexer.ll (assumed contract on flex-generated code)',
]
ASSUMPTIONS = [
    'isprint: ASCII graphic+space printable, ASCII controls not, bytes >= 0x80 locale-dependent (left open)',
    'SLICE: named-constant tables, integer radix rendering, %d %x %o %b, nested sequences and the other dump_* functions are NOT covered',
]
EXPLANATION = 'Bounded round trip of dumper::dump_charp against a transcription of the scanner; see DESIGN.md section 4 C20.'


def spec_files():
    return [os.path.join(HERE, 'spec.h'), os.path.join(HERE, 'harness.c'), os.path.join(HERE, 'osmodel.h')]


def prepare(tier):
    lw = vlib.extract('dump', 'dwgrep/dwgrep.cc', CFG, ROOTS, OUT, extra_flags=FLAGS)
    io = vlib.extract('intio', 'libzwerg/int.cc', INTIO_CFG, INTIO_ROOTS, OUT)
    sh = vlib.extract('show', 'libzwerg/constant.cc', SHOW_CFG, SHOW_ROOTS, OUT)
    dc = vlib.extract('dwcst', 'libzwerg/dwcst.cc', DWCST_CFG, DWCST_ROOTS, OUT)
    lw.report['functions'] += dc.report['functions']
    gen = vlib.gen_frontend(os.path.join(OUT, 'gen'))
    pw = vlib.extract('parse', os.path.join(gen, 'parser.cc'), PARSE_CFG, PARSE_ROOTS, OUT, extra_flags=['-I' + gen])
    for u in (io, sh, pw):
        lw.report['functions'] += u.report['functions']
        lw.report['externals'] += u.report['externals']
    return {'unit': 'dwgrep/dwgrep.cc', 'functions': lw.report['functions'], 'externals': lw.report['externals']}


def build_native():
    exe = os.path.join(OUT, 'native_driver')
    vlib.native(['g++', '-std=c++14', '-O0', '-w', '-static', '-I%s' % vlib.REPO, '-I%s/libzwerg' % vlib.REPO, '-I%s/_build' % vlib.REPO,
                 '-I%s/dwgrep' % vlib.REPO, os.path.join(HERE, 'native_driver.cc'), '-Wl,--unresolved-symbols=ignore-all', '-o', exe])
    return exe


def read_back(t):
    """Python transcription of the same scanner rules (independent of spec.h) -> bytes or None."""
    n = len(t)
    if n < 2 or t[0] != 0x22:
        return None
    p, out = 1, []
    OCT = b'01234567'
    HEX = b'0123456789abcdefABCDEF'
    while p < n:
        c = t[p]
        if c == 0x5c and p + 1 < n:
            d = t[p + 1]
            if d in b'0123':
                k = p + 2
                v = d - 48
                for _ in range(2):
                    if k < n and t[k] in OCT:
                        v = v * 8 + t[k] - 48
                        k += 1
                    else:
                        break
                out.append(v & 255)
                p = k
                continue
            if d == ord('x') and p + 3 < n and t[p + 2] in HEX and t[p + 3] in HEX:
                out.append(int(bytes(t[p + 2:p + 4]), 16))
                p += 4
                continue
            m = {ord('a'): 7, ord('b'): 8, ord('e'): 27, ord('t'): 9, ord('n'): 10, ord('v'): 11, ord('f'): 12, ord('r'): 13}
            if d == 10:
                pass
            else:
                out.append(m.get(d, d))
            p += 2
            continue
        if c == 0x22:
            if p + 1 < n and t[p + 1] == 0x5c:
                k = p + 2
                while k < n and t[k] in b' \t\n':
                    k += 1
                if k < n and t[k] == 0x22:
                    p = k + 1
                    continue
                if k + 1 < n and t[k] == ord('r') and t[k + 1] == 0x22:
                    return None
            return bytes(out) if p + 1 == n else None
        if c == ord('%') and p + 1 < n:
            d = t[p + 1]
            if d == ord('%'):
                out.append(ord('%'))
                p += 2
                continue
            if d in b'(sxobd':
                return None
        out.append(c)
        p += 1
    return None


def replay_bytes(bs):
    exe = build_native()
    rc, out, err, w = vlib.run([exe, 'render'] + [str(b) for b in bs], timeout=30)
    if rc != 0:
        return {'reproduced': False, 'error': 'driver rc=%s %s' % (rc, (out + err)[-200:])}
    rendering = bytes.fromhex(out.strip())
    back = read_back(rendering)
    return {'reproduced': back != bytes(bs), 'input_bytes': list(bs), 'rendering_on_real_code': rendering.decode('latin-1'),
            'read_back': None if back is None else list(back)}


def replay_radix(r):
    radix = r.job.name.rsplit('_', 1)[1]
    def num(x):
        s = str(x)
        return int(''.join(ch for ch in s if ch.isdigit()) or 0)
    u = None
    sign = 0
    for k, v in r.cex.items():
        if k.endswith('m_u'):
            u = num(v)
        if k.endswith('m_sign'):
            sign = 1 if (str(v).strip().endswith('__sign') or str(v).strip() in ('1',)) else 0
    if u is None:
        return {'reproduced': False, 'note': 'no value in the counterexample'}
    val = u - (1 << 64) if (sign and u >= 1 << 63) else u
    word = {'hex': 'hex', 'oct': 'oct', 'dec': 'dec', 'bin': 'bin'}[radix]
    res = vlib.zw_queries(['%d %s' % (val, word)], OUT)
    if not res or res[0][0] is None:
        return {'reproduced': False, 'error': 'query failed: %r' % (res,)}
    text = res[0][1].strip().strip('<>').split('|')[-1]
    res2 = vlib.zw_queries(['(%s) == (%d)' % (text, val), '%s %s' % (text, word)], OUT)
    same_value = bool(res2 and res2[0][0])
    return {'reproduced': not same_value, 'value': val, 'domain': word, 'rendering_on_real_library': text,
            'reads_back_equal': same_value, 'raw': [x[1] for x in res2]}


def replay_named():
    names = ['DW_ATE_void', 'DW_INL_not_inlined', 'DW_ORD_row_major', 'DW_VIRTUALITY_none', 'DW_TAG_array_type', 'DW_AT_sibling',
             'DW_FORM_addr', 'DW_LANG_C89']
    res = vlib.zw_queries(names, OUT, dw=True)
    bad = ['`%s` renders as %s' % (n, t.strip()) for n, (c, t) in zip(names, res) if c != 1 or t.strip().strip('<>') != n]
    return {'reproduced': bool(bad), 'violations_on_real_library': bad, 'words': len(names)}


def replay(r):
    if r.job.name == 'named_constant_code':
        return replay_named()
    if r.job.name.startswith('radix_roundtrip_'):
        return replay_radix(r)
    if not r.cex or 'len' not in r.cex:
        return {'reproduced': False, 'note': 'no input in the counterexample'}
    def num(x):
        s = str(x)
        neg = s.strip().startswith('-')
        v = int(''.join(ch for ch in s if ch.isdigit()) or 0)
        return (-v if neg else v) & 255
    n = num(r.cex['len'])
    bs = [num(r.cex.get('in[%dl]' % i, r.cex.get('in[%d]' % i, 0))) for i in range(n)]
    return replay_bytes(bs)


def finding_covers(k, r, rep):
    """The listed finding is exactly: value 0 of the hex/oct domain renders as "0" and reads back as decimal.
    Only the witness job (which runs exactly those inputs) can be covered by it."""
    return r.job.name == 'known_zero_domain' and k.get('job') == 'known_zero_domain'
