/* C20 bounded harness: every byte string of length <= C20_LEN (all 256 byte values) is rendered by
   the extracted dump_charp in brief format and read back by the scanner model.  BOUNDED in the
   string length; the longest scanner rule spans 4 characters and each byte renders to at most 4,
   so length 3 exercises every adjacency between two escapes plus one more. */
#include "spec.h"
int verif_raised;
unsigned char nondet_uchar(void);
size_t nondet_size(void);
#ifndef C20_LEN
#define C20_LEN 3
#endif

static void os_init(verif_os *os) { os->len = 0; os->flags = OSF_DEC; os->fill = ' '; os->width = 0; }

void hb_brief_roundtrip(void)
{
  char in[C20_LEN];
  size_t len = nondet_size();
  __CPROVER_assume(len <= C20_LEN);
  for (int i = 0; i < C20_LEN; ++i) in[i] = (char)nondet_uchar();
  verif_os os; os_init(&os);
  dump_charp((dumper *)0, &os, in, len, dumper__format__brief);
  char back[C20_LEN + 1]; size_t backn = 0;
  _Bool ok = zwerg_read_string(os.buf, os.len, back, C20_LEN + 1, &backn);
  __CPROVER_assert(ok, "brief rendering is exactly one plain string literal for the scanner");
  __CPROVER_assert(!ok || backn == len, "reading the rendering back yields the same number of bytes");
  for (size_t i = 0; i < C20_LEN; ++i)
    __CPROVER_assert(!ok || backn != len || i >= len || back[i] == in[i], "reading the rendering back yields the same bytes");
  __CPROVER_assert(os.flags == OSF_DEC && os.fill == ' ', "stream formatting state restored");
}

void hb_full_verbatim(void)
{
  char in[C20_LEN];
  size_t len = nondet_size();
  __CPROVER_assume(len <= C20_LEN);
  for (int i = 0; i < C20_LEN; ++i) in[i] = (char)nondet_uchar();
  verif_os os; os_init(&os);
  dump_charp((dumper *)0, &os, in, len, dumper__format__full);
  __CPROVER_assert(os.len == len, "full format writes exactly the bytes");
  for (size_t i = 0; i < C20_LEN; ++i)
    __CPROVER_assert(i >= len || os.buf[i] == in[i], "full format writes the bytes verbatim");
}

#ifdef VERIF_CONTROL
void hb_control(void)
{
  char in[1]; in[0] = (char)nondet_uchar();
  verif_os os; os_init(&os);
  dump_charp((dumper *)0, &os, in, 1, dumper__format__brief);
  __CPROVER_assert(os.len == 3, "CONTROL (must fail): every byte renders as itself");
}
#endif
