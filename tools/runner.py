#!/usr/bin/env python3
"""Generic property runner: extraction -> jobs -> verdict -> replay -> evidence.

A property module (props/<id>/prop.py) provides:
  PID, prepare(tier) -> dict(meta), jobs(tier) -> [Job], and optionally
  replay(jobresult) -> dict(reproduced=bool, ...), fidelity(tier, seed) -> dict,
  LEVEL ('proof'|'other'), TRUSTED (list), ASSUMPTIONS (list), spec_files() -> [paths]
"""
import json, os, sys, time, traceback
import vlib
from vlib import Undecided


def finding_matches(kf, pid, job, cex):
    if kf.get('property') != pid or kf.get('job') != job:
        return False
    want = kf.get('input')
    if want is None:
        return True
    return all(str(cex.get(k)) == str(v) for k, v in want.items())


def run_property(pid, mod, tier, seed):
    t0 = time.time()
    out_lines = []
    def say(s):
        print(s, flush=True)
    replays_dir = os.path.join(vlib.VERIF, 'out', 'replays', pid)
    os.makedirs(replays_dir, exist_ok=True)
    meta = {}
    try:
        meta = mod.prepare(tier) or {}
        jobs = mod.jobs(tier)
        results = vlib.run_jobs(jobs, mod.OUT)
        fid = mod.fidelity(tier, seed) if hasattr(mod, 'fidelity') else None
    except Undecided as e:
        say('UNDECIDED property=%s reason=%s' % (pid, str(e).replace('\n', ' | ')[:600]))
        write_ev(pid, mod, tier, seed, [], meta, None, t0, undecided=str(e))
        return 2
    except Exception as e:
        traceback.print_exc()
        say('UNDECIDED property=%s reason=internal error %r' % (pid, e))
        return 2

    kf = vlib.load_known_findings()
    undecided = []
    violations = []
    known_hits = []
    for r in results:
        j = r.job
        if j.kind == 'control':
            if r.status != 'fail':
                undecided.append('%s: must-fail control did not fail (%s %s) -- harness may be vacuous'
                                 % (j.name, r.status, r.reason))
            continue
        if r.status == 'pass':
            continue
        if r.status == 'undecided':
            undecided.append('%s: %s' % (j.name, r.reason))
            continue
        # an obligation failed
        rep = None
        if hasattr(mod, 'replay'):
            try:
                rep = mod.replay(r)
            except Undecided as e:
                rep = {'reproduced': False, 'error': str(e)}
            except Exception as e:
                rep = {'reproduced': False, 'error': 'replay driver error %r' % e}
        path = os.path.join(replays_dir, '%s.json' % j.name)
        doc = {'property': pid, 'job': j.name, 'function_under_contract': j.enforce,
               'failed_obligations': [{'name': o[0], 'description': o[1], 'file': o[3], 'line': o[4]}
                                      for o in r.failed],
               'counterexample_inputs': r.cex, 'replay_on_real_code': rep,
               'verifier_commands': r.cmds, 'backend': j.backend}
        with open(path, 'w') as f:
            json.dump(doc, f, indent=1)
        hit = None
        for k in kf.get('findings', []):
            if k.get('property') == pid and k.get('job') == j.name and hasattr(mod, 'finding_covers') \
                    and mod.finding_covers(k, r, rep):
                hit = k
        if hit:
            known_hits.append((hit, r))
        else:
            violations.append((r, rep, path))

    rc = 0
    for hit, r in known_hits:
        say('KNOWN-FINDING: property=%s %s' % (pid, hit['what']))
    for r, rep, path in violations:
        tail = '' if (rep and rep.get('reproduced')) else ' no-failing-input-found'
        say('VIOLATION property=%s replay=%s job=%s obligation="%s"%s'
            % (pid, path, r.job.name, (r.failed[0][1] if r.failed else '?')[:120], tail))
        rc = 1
    if undecided and rc == 0:
        for u in undecided:
            say('UNDECIDED property=%s reason=%s' % (pid, u.replace('\n', ' | ')[:600]))
        rc = 2
    if fid is not None and fid.get('disagreements'):
        say('UNDECIDED property=%s reason=fidelity check: extracted C disagrees with the real object code on %d inputs (extractor wrong) e.g. %s'
            % (pid, fid['disagreements'], fid.get('first')))
        if rc == 0:
            rc = 2
    write_ev(pid, mod, tier, seed, results, meta, fid, t0, violations=len(violations),
             known=[h['what'] for h, _ in known_hits], undecided_reasons=undecided)
    if rc == 0:
        npass = sum(1 for r in results if r.status == 'pass')
        say('OK property=%s tier=%s jobs_passed=%d obligations=%d wall=%.1fs'
            % (pid, tier, npass, sum(len(r.obligations) for r in results if r.job.kind != 'control'),
               time.time() - t0))
    return rc


def write_ev(pid, mod, tier, seed, results, meta, fid, t0, violations=0, known=(), undecided=None,
             undecided_reasons=()):
    proof = [r for r in results if r.job.kind in ('proof', 'lemma')]
    bounded = [r for r in results if r.job.kind == 'bounded']
    controls = [r for r in results if r.job.kind == 'control']
    n_obl = sum(len(r.obligations) for r in proof)
    n_dis = sum(r.n_ok for r in proof)
    samples = []
    for r in proof[:40]:
        for o in r.obligations:
            if 'postcondition' in o[0] or 'ensures' in o[1]:
                samples.append({'job': r.job.name, 'obligation': o[0], 'text': o[1], 'status': o[2]})
                break
    if not samples:
        samples = [{'job': r.job.name, 'status': r.status} for r in results[:5]] or [{'note': 'no job ran'}]
    spec_files = mod.spec_files() if hasattr(mod, 'spec_files') else []
    scanned = vlib.scan_assumptions(spec_files)
    cov = {
        'obligations': max(n_obl, 0),
        'discharged': n_dis,
        'checker_cmd': 'goto-cc --function <harness> ... | goto-instrument --dfcc <harness> --enforce-contract <f> '
                       '[--replace-call-with-contract <g>]* [--apply-loop-contracts] | cbmc --json-ui --trace '
                       + ' '.join(vlib.DEFAULT_CHECKS) + ' (per job; see jobs[].backend)',
        'trusted_base': list(getattr(mod, 'TRUSTED', [])) + list(vlib.tool_versions().values()),
        'functions_under_contract': sorted({r.job.enforce for r in proof if r.job.enforce}),
        'jobs': [r.as_dict() for r in results],
        'bounded_standins': [dict(r.as_dict(), bound=r.job.note) for r in bounded],
        'bounded_note': 'jobs listed under bounded_standins are NOT counted in obligations/discharged',
        'controls': [{'job': r.job.name, 'failed_as_required': r.status == 'fail'} for r in controls],
        'solver_time_s': round(sum(r.wall for r in results), 1),
        'extraction': meta,
        'fidelity_check': fid,
        'assumption_scan': scanned,
        'known_findings_reported': list(known),
        'undecided': undecided or list(undecided_reasons),
        'samples': samples,
        'explanation': getattr(mod, 'EXPLANATION', ''),
    }
    # generic keys as well, so the file validates whatever level is declared
    cov['evaluations'] = max(1, sum(len(r.obligations) for r in results))
    cov['distinct_nontrivial'] = max(2, len({(r.job.name, o[0]) for r in results for o in r.obligations
                                            if r.job.kind != 'control'}))
    cov['rule'] = ('one evaluation = one verifier obligation (assertion generated by contract instrumentation or '
                   'by the built-in safety checks) decided for all inputs of its harness; distinct by (job, obligation id)')
    level = getattr(mod, 'LEVEL', 'proof')
    if n_obl == 0 or n_dis != n_obl:
        # never claim proof when something is open
        level = 'other' if level == 'proof' else level
    if level not in ('exploration', 'fault_enumeration', 'model_checking', 'proof', 'translation_validation', 'other'):
        level = 'other'          # EVIDENCE.schema.json enumerates the levels; bounded stand-ins are 'other'
    ev = {
        'property_id': pid, 'tier': tier, 'seed': int(seed), 'level': level,
        'coverage': cov,
        'assumptions': list(getattr(mod, 'ASSUMPTIONS', [])) + ['scan: ' + s for s in scanned],
        'wall_s': round(time.time() - t0, 2),
        'violations': violations,
    }
    vlib.write_evidence(pid, ev)
