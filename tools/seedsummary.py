#!/usr/bin/env python3
"""Writes seeded/SUMMARY.md from seeded/*/meta.json (latest run of each seed)."""
import json, os, glob
HERE = os.path.dirname(os.path.dirname(os.path.abspath(__file__)))
rows = []
for m in sorted(glob.glob(os.path.join(HERE, 'seeded', '*', 'meta.json'))):
    d = json.load(open(m))
    runs = d.get('check_runs', [])
    own = [r for r in runs if r.get('check', d['property']) == d['property']]
    other = [r for r in runs if r.get('check', d['property']) != d['property'] and r.get('detected')]
    last = own[-1] if own else {}
    first_line = ''
    notes = d.get('needs_to_manifest', '')
    for ln in notes.split('\n'):
        if ln.strip() and not set(ln.strip()) <= set('=-'):
            first_line = ln.strip()[:110]
            break
    det = last.get('detected')
    rc = last.get('check_rc')
    out = [l for l in last.get('output', []) if l.startswith('VIOLATION') or l.startswith('OK') or l.startswith('UNDECIDED')]
    job = ''
    if out and out[0].startswith('VIOLATION'):
        job = out[0].split('job=')[1].split()[0] if 'job=' in out[0] else ''
    rows.append((d['seed_id'], d['property'], first_line, 'yes' if d['confirmation'].get('confirmed') else 'NO',
                 'DETECTED' if det else (('detected by ' + other[-1]['check']) if other else ('undecided' if rc == 2 else 'missed')),
                 job, len(runs)))
with open(os.path.join(HERE, 'seeded', 'SUMMARY.md'), 'w') as f:
    f.write('# Seeded changes and the checks that catch them\n\n')
    f.write('Each change was written by an independent sub-agent that saw only the property text and a scratch worktree; '
            'each was re-confirmed here (applies, builds, the 7 baseline ctest entries pass, demonstration fails with / passes '
            'without).  "latest run" is the last `tools/seedtool.py run` of the property\'s quick check with the patch applied to /repo '
            '(and reverted afterwards).\n\n')
    f.write('| seed | property | what it is | confirmed | latest run | failing job | runs |\n|---|---|---|---|---|---|---|\n')
    for r in rows:
        f.write('| %s | %s | %s | %s | %s | %s | %d |\n' % r)
    n = len(rows)
    k = sum(1 for r in rows if r[4] == 'DETECTED')
    k2 = sum(1 for r in rows if r[4].startswith('detected by'))
    f.write('\n%d of %d seeded changes detected by the property\'s own check; %d more by the check of another property.\n' % (k, n, k2))
print(open(os.path.join(HERE, 'seeded', 'SUMMARY.md')).read())
