#!/usr/bin/env python3
"""Shared machinery: extraction, CBMC contract pipeline, verdicts, evidence.

Pipeline per job (DESIGN.md 3.1):
  goto-cc --function <harness> srcs -> goto-instrument --dfcc <harness>
  --enforce-contract f [--replace-call-with-contract g]* [--apply-loop-contracts]
  -> cbmc (back end per job), under timeout and an address-space limit.

Verdict rules (DESIGN.md 3.3):
  PASS       : VERIFICATION SUCCESSFUL, every obligation SUCCESS, count > 0,
               no 'ignoring' warning, loop-contract obligations present when
               loop contracts were applied.
  VIOLATION  : at least one obligation FAILURE (and no 'ignoring' warning).
  UNDECIDED  : anything else (ERROR/UNKNOWN status, timeout, OOM, tool crash,
               extraction failure).  Exit 2; never a pass, never a violation.
"""
import json, os, re, resource, shutil, subprocess, sys, time, concurrent.futures

REPO = os.environ.get('VERIF_REPO', '/repo')
VERIF = os.path.dirname(os.path.dirname(os.path.abspath(__file__)))
BUILD = os.path.join(VERIF, 'build')
sys.path.insert(0, os.path.join(VERIF, 'tools'))
import cxx2c

CXXFLAGS = ['-std=c++14', '-I%s/libzwerg' % REPO, '-I%s/_build' % REPO, '-I%s/_build/libzwerg' % REPO]


class Undecided(Exception):
    pass


def limits(mem_gb):
    def f():
        b = int(mem_gb * (1 << 30))
        resource.setrlimit(resource.RLIMIT_AS, (b, b))
        os.setsid()
    return f


def run(cmd, timeout=600, mem_gb=8, cwd=None, env=None):
    t0 = time.time()
    try:
        p = subprocess.Popen(cmd, stdout=subprocess.PIPE, stderr=subprocess.PIPE, text=True,
                             cwd=cwd, env=env, preexec_fn=limits(mem_gb))
        try:
            out, err = p.communicate(timeout=timeout)
        except subprocess.TimeoutExpired:
            try:
                os.killpg(p.pid, 9)
            except Exception:
                p.kill()
            out, err = p.communicate()
            return 'timeout', out, err, time.time() - t0
        return p.returncode, out, err, time.time() - t0
    except OSError as e:
        return 'oserror', '', str(e), time.time() - t0


# --------------------------------------------------------------------------
# extraction

def ensure_build_headers():
    """The lowering needs _build/version.h etc. only for TUs that include them;
    nothing to do for the leaf units used here."""
    return


def extract(unit_name, src_rel, cfg, roots, outdir, extra_flags=None):
    """Lower the given roots from /repo/<src_rel>; returns the Lowering object.
    Writes <outdir>/<unit>_types.h, _protos.h, _bodies.c."""
    os.makedirs(outdir, exist_ok=True)
    src = src_rel if os.path.isabs(src_rel) else os.path.join(REPO, src_rel)
    if not os.path.exists(src):
        raise Undecided('extraction: %s does not exist' % src)
    try:
        lw = cxx2c.lower(src, CXXFLAGS + (extra_flags or []), cfg, roots,
                         os.path.join(outdir, 'ast'))
    except cxx2c.Unsupported as e:
        raise Undecided('extraction of %s broke: %s' % (src_rel, e))
    hdr = "/* GENERATED on every run by tools/cxx2c.py from %s (clang AST). Do not edit. */\n" % src_rel
    with open(os.path.join(outdir, unit_name + '_types.h'), 'w') as f:
        f.write(hdr + cfg.get('types_prelude', '') + lw.emit_types())
    with open(os.path.join(outdir, unit_name + '_protos.h'), 'w') as f:
        f.write(hdr + lw.emit_protos())
    with open(os.path.join(outdir, unit_name + '_bodies.c'), 'w') as f:
        f.write(hdr + '#include "common.h"\n#include "%s_types.h"\n#include "%s_protos.h"\n\n' % (unit_name, unit_name)
                + cfg.get('bodies_prelude', '') + lw.emit_bodies())
    return lw


def gen_frontend(outdir):
    """Regenerate parser.cc/parser.hh (bison) and lexer.cc/lexer.hh (flex) from /repo's working tree,
    with the commands the repository's build uses."""
    os.makedirs(outdir, exist_ok=True)
    rc, out, err, _ = run(['bison', '-d', '-o', os.path.join(outdir, 'parser.cc'), 'parser.yy'],
                          cwd=os.path.join(REPO, 'libzwerg'), timeout=120)
    if rc != 0:
        raise Undecided('bison failed: ' + (err or out)[-400:])
    rc, out, err, _ = run(['flex', '--header-file=' + os.path.join(outdir, 'lexer.hh'),
                           '-o' + os.path.join(outdir, 'lexer.cc'), 'lexer.ll'],
                          cwd=os.path.join(REPO, 'libzwerg'), timeout=120)
    if rc != 0:
        raise Undecided('flex failed: ' + (err or out)[-400:])
    return outdir


# --------------------------------------------------------------------------
# CBMC jobs

class Job:
    def __init__(self, name, sources, harness, enforce=None, replace=(), loop_contracts=False,
                 cbmc_args=(), defines=(), includes=(), timeout=600, mem_gb=8, kind='proof',
                 expect='pass', backend='sat', inputs=(), note='', unwind=None, function_desc=None, input_fns=()):
        self.name = name
        self.sources = list(sources)
        self.harness = harness
        self.enforce = enforce
        self.replace = list(replace)
        self.loop_contracts = loop_contracts
        self.cbmc_args = list(cbmc_args)
        self.defines = list(defines)
        self.includes = list(includes)
        self.timeout = timeout
        self.mem_gb = mem_gb
        self.kind = kind            # proof | bounded | control | lemma
        self.expect = expect        # pass | fail  (fail: must-fail control)
        self.backend = backend      # sat | cvc5 | cvc5-int | z3 | kissat
        self.inputs = list(inputs)  # harness variable names to read from a counterexample
        self.note = note
        self.unwind = unwind
        self.function_desc = function_desc
        self.input_fns = list(input_fns)   # extra functions whose local assignments count as inputs


BACKENDS = {
    'sat': [],
    'kissat': ['--external-sat-solver', 'kissat'],
    'cvc5': ['--cvc5'],
    'z3': ['--z3'],
    'cvc5-int': ['--cvc5', '--external-smt2-solver',
                 os.path.join(VERIF, 'tools', 'cvc5-int.sh')],
}

DEFAULT_CHECKS = ['--bounds-check', '--pointer-check', '--div-by-zero-check',
                  '--signed-overflow-check', '--undefined-shift-check',
                  '--pointer-overflow-check']


class JobResult:
    def __init__(self, job):
        self.job = job
        self.status = 'undecided'     # pass | fail | undecided
        self.reason = ''
        self.obligations = []         # (name, description, status, file, line)
        self.n_ok = self.n_fail = self.n_err = 0
        self.wall = 0.0
        self.failed = []              # obligations with FAILURE
        self.cex = {}                 # input name -> value (from first failing trace)
        self.raw_tail = ''
        self.probe = None
        self.loop_obligations = 0
        self.cmds = []

    def as_dict(self):
        return {'job': self.job.name, 'kind': self.job.kind, 'backend': self.job.backend,
                'status': self.status, 'reason': self.reason, 'obligations': len(self.obligations),
                'ok': self.n_ok, 'fail': self.n_fail, 'error': self.n_err,
                'loop_contract_obligations': self.loop_obligations,
                'wall_s': round(self.wall, 2), 'enforce': self.job.enforce,
                'replaced_by_contract': self.job.replace, 'note': self.job.note, 'vacuity_probe': self.probe,
                'failed': [o[0] + ': ' + o[1] for o in self.failed][:10]}


def run_job(job, workdir):
    r = JobResult(job)
    t0 = time.time()
    wd = os.path.join(workdir, 'jobs', job.name)
    shutil.rmtree(wd, ignore_errors=True)
    os.makedirs(wd)
    a = os.path.join(wd, 'a.gb')
    b = os.path.join(wd, 'b.gb')
    cc = ['goto-cc', '--function', job.harness, '-DVERIF_CBMC=1'] + \
         ['-D' + d for d in job.defines] + ['-I' + i for i in job.includes] + job.sources + ['-o', a]
    r.cmds.append(' '.join(cc))
    rc, out, err, _ = run(cc, timeout=120)
    if rc != 0 or 'is not declared' in (err + out):
        r.reason = 'goto-cc failed: ' + (err or out)[-800:]
        r.wall = time.time() - t0
        return r
    if job.enforce or job.replace or job.loop_contracts:
        gi = ['goto-instrument', '--dfcc', job.harness]
        if job.enforce:
            gi += ['--enforce-contract', job.enforce]
        for g in job.replace:
            gi += ['--replace-call-with-contract', g]
        if job.loop_contracts:
            gi += ['--apply-loop-contracts']
        gi += [a, b]
        r.cmds.append(' '.join(gi))
        rc, out, err, _ = run(gi, timeout=300)
        if rc != 0:
            r.reason = 'goto-instrument failed: ' + (err + out)[-800:]
            r.wall = time.time() - t0
            return r
    else:
        b = a
    cb = ['cbmc', b, '--json-ui', '--trace', '--drop-unused-functions'] + DEFAULT_CHECKS + BACKENDS[job.backend] + job.cbmc_args
    if job.unwind is not None:
        cb += ['--unwind', str(job.unwind), '--unwinding-assertions']
    r.cmds.append(' '.join(cb))
    rc, out, err, wall = run(cb, timeout=job.timeout, mem_gb=job.mem_gb)
    r.wall = time.time() - t0
    if rc == 'timeout':
        r.reason = 'solver timeout after %ds' % job.timeout
        return r
    try:
        msgs = json.loads(out)
    except Exception:
        r.reason = 'cbmc output not JSON (rc=%s): %s' % (rc, (out[-400:] + err[-400:]))
        return r
    ignoring = False
    cprover_status = None
    results = None
    for m in msgs:
        if not isinstance(m, dict):
            continue
        txt = m.get('messageText', '')
        if 'ignoring' in txt:
            ignoring = True
            r.reason = 'warning: ' + txt[:200]
        if m.get('messageType') == 'ERROR' and not r.reason:
            r.reason = 'cbmc error: ' + txt[:400]
        if 'result' in m:
            results = m['result']
        if 'cProverStatus' in m:
            cprover_status = m['cProverStatus']
    if results is None:
        r.reason = r.reason or ('no result section (rc=%s) %s' % (rc, err[-300:]))
        return r
    for p in results:
        st = p.get('status')
        sl = p.get('sourceLocation', {})
        ob = (p.get('property', '?'), p.get('description', ''), st, sl.get('file'), sl.get('line'))
        r.obligations.append(ob)
        if re.search(r'loop.?invariant|loop_invariant|decreases|loop assigns', p.get('property', '') + p.get('description', ''), re.I):
            r.loop_obligations += 1
        if st == 'SUCCESS':
            r.n_ok += 1
        elif st == 'FAILURE':
            r.n_fail += 1
            r.failed.append(ob)
            if not r.cex and p.get('trace'):
                r.cex = trace_inputs(p['trace'], job.inputs, [job.harness] + job.input_fns)
        else:
            r.n_err += 1
    if ignoring:
        r.status = 'undecided'
        return r
    if not r.obligations:
        r.reason = 'zero obligations generated (vacuous)'
        return r
    # A FAILURE comes with a concrete trace and is definitive even when other obligations were left
    # UNKNOWN -- except a failed unwinding/recursion assertion, which only says the bound was too small.
    real_fail = [o for o in r.failed if not re.search(r'\.unwind\.|\.recursion|unwinding assertion', o[0] + ' ' + o[1])]
    if real_fail and job.loop_contracts and all(re.search(r'Check that .* is assignable', o[1]) for o in real_fail):
        # only frame checks of a loop contract fail: the loop writes something the hand-written `assigns` clause does not
        # list (typically a new local after a harmless rewrite).  That is a failed PROOF, not a counterexample to the
        # property: a change that breaks the property also breaks an invariant step or a postcondition.
        r.reason = 'only frame checks of a loop contract failed (%s): the loop no longer matches its assigns clause -- proof failed, property undecided' % real_fail[0][1][:80]
        return r
    if real_fail:
        r.failed = real_fail + [o for o in r.failed if o not in real_fail]
        r.status = 'fail'
        if r.n_err:
            r.reason = '%d other obligations left UNKNOWN' % r.n_err
        return r
    if r.n_fail:
        r.reason = 'unwinding assertion failed: bound too small (%s)' % r.failed[0][0]
        return r
    if r.n_err:
        r.reason = '%d obligations in state ERROR/UNKNOWN' % r.n_err
        return r
    if cprover_status != 'success':
        r.reason = 'cProverStatus=%s' % cprover_status
        return r
    if job.loop_contracts and r.loop_obligations == 0:
        r.reason = 'loop contracts requested but no loop-invariant obligations present'
        return r
    r.status = 'pass'
    # vacuity probe: every user-level obligation (harness assertions, contract postconditions) must be
    # reachable under the harness's assumptions / the contract's preconditions
    if job.kind != 'control' and (PROBE_ALL or r.wall < PROBE_FAST_S):
        unreach = vacuity_probe(job, b, r)
        if unreach is None:
            r.probe = 'probe did not finish'
        elif unreach:
            r.status = 'undecided'
            r.reason = 'vacuous: %d obligation(s) unreachable under the preconditions, e.g. "%s"' % (len(unreach), unreach[0][:120])
            r.probe = 'unreachable: ' + '; '.join(u[:80] for u in unreach[:5])
        else:
            r.probe = 'all user obligations reachable'
    return r


PROBE_ALL = os.environ.get('VERIF_TIER', '').startswith('t')
PROBE_FAST_S = 40.0


def vacuity_probe(job, binary, r):
    user = {}
    for o in r.obligations:
        name, desc, line = o[0], o[1], str(o[4])
        if re.search(r'\.postcondition\.', name) or (re.search(r'\.assertion\.', name) and o[3] and '/props/' in str(o[3])
                                                   and not desc.startswith('repo assert') and 'model:' not in desc
                                                   and 'CONTROL' not in desc):
            user[(desc, line)] = name
    if not user:
        return []
    cb = ['cbmc', binary, '--cover', 'assertion', '--json-ui', '--drop-unused-functions'] + BACKENDS.get('sat', []) + \
         [a for a in job.cbmc_args]
    if job.unwind is not None:
        cb += ['--unwind', str(job.unwind)]
    rc, out, err, wall = run(cb, timeout=max(120, min(job.timeout, 900)), mem_gb=job.mem_gb)
    r.wall += wall
    try:
        msgs = json.loads(out)
    except Exception:
        return None
    goals = None
    for m in msgs:
        if isinstance(m, dict) and 'goals' in m:
            goals = m['goals']
    if goals is None:
        return None
    seen = {}
    for g in goals:
        sl = g.get('sourceLocation') or {}
        key = (g.get('description', ''), str(sl.get('line')))
        if key in user:
            seen[key] = seen.get(key, False) or g.get('status') == 'satisfied'
    return ['%s (line %s)' % k for k, ok in seen.items() if not ok]


def trace_inputs(trace, names, harness=None):
    vals = {}
    for st in trace:
        if st.get('stepType') != 'assignment':
            continue
        fn = (st.get('sourceLocation') or {}).get('function')
        if harness is not None and fn is not None and fn not in (harness if isinstance(harness, list) else [harness]):
            continue
        lhs = st.get('lhs', '')
        v = st.get('value', {})
        # a nondet-initialised aggregate appears as one assignment of the whole object: flatten it
        if isinstance(v, dict) and ('elements' in v or 'members' in v) and \
                any(n.endswith('[*') and lhs == n[:-2] for n in names):
            flatten_value(lhs, v, vals)
            continue
        if lhs in names or any(n.endswith('*') and lhs.startswith(n[:-1]) for n in names):
            v = st.get('value', {})
            d = v.get('data')
            if d is None and 'binary' in v:
                d = str(int(v['binary'], 2))
            vals[lhs] = d
    return vals


def flatten_value(prefix, v, out):
    if not isinstance(v, dict):
        return
    if 'elements' in v:
        for e in v['elements']:
            flatten_value('%s[%dl]' % (prefix, e.get('index', 0)), e.get('value', {}), out)
    elif 'members' in v:
        for m in v['members']:
            flatten_value('%s.%s' % (prefix, m.get('name', '?')), m.get('value', {}), out)
    else:
        d = v.get('data')
        if d is None and 'binary' in v:
            d = str(int(v['binary'], 2))
        out[prefix] = d


def run_jobs(jobs, workdir, par=None):
    par = par or min(16, os.cpu_count() or 4)
    res = {}
    with concurrent.futures.ThreadPoolExecutor(max_workers=par) as ex:
        futs = {ex.submit(run_job, j, workdir): j for j in jobs}
        for f in concurrent.futures.as_completed(futs):
            j = futs[f]
            try:
                res[j.name] = f.result()
            except Exception as e:
                r = JobResult(j)
                r.reason = 'internal error: %r' % e
                res[j.name] = r
    return [res[j.name] for j in jobs]


# --------------------------------------------------------------------------
# native builds (fidelity check and replay against the real code)

def native(cmd, timeout=600):
    rc, out, err, w = run(cmd, timeout=timeout, mem_gb=16)
    if rc != 0:
        raise Undecided('native build failed: %s\n%s' % (' '.join(cmd), (err or out)[-1500:]))
    return out


def zw_queries(queries, outdir, dw=False):
    """Native replay through the real library: refresh /repo/_build's objects from the working tree
    (incremental ninja build), link tools/zwq.cc against LibzwergCore + TestZwAux objects, run the queries.
    Returns list of (count, text) or raises Undecided when the repository build tree is not available."""
    bdir = os.path.join(REPO, '_build')
    if not os.path.isdir(bdir):
        raise Undecided('no /repo/_build to link the query runner against')
    run(['cmake', '--build', bdir, '-j16', '--', '-k', '0'], timeout=1800, mem_gb=32)
    import glob
    objs = glob.glob(os.path.join(bdir, 'libzwerg/CMakeFiles/TestZwAux.dir/*.o')) + \
        glob.glob(os.path.join(bdir, 'libzwerg/CMakeFiles/LibzwergCore.dir/*.o'))
    exe = os.path.join(outdir, 'zwq_dw' if dw else 'zwq')
    extra = []
    if dw:
        objs += glob.glob(os.path.join(bdir, 'libzwerg/CMakeFiles/LibzwergDw.dir/*.o'))
        extra = ['-DZWQ_DW', '-ldw', '-lelf']
    native(['g++', '-std=c++14', '-O1', '-I%s/libzwerg' % REPO, '-I%s/libzwerg' % bdir, '-I' + bdir,
            os.path.join(VERIF, 'tools', 'zwq.cc')] + objs + ['-rdynamic', '-o', exe] + extra)
    def parse(out):
        res = []
        for ln in out.split('\n'):
            if ln.startswith('Q'):
                head, _, rest = ln.partition(':')
                parts = head.split()
                if len(parts) >= 2 and parts[1] == 'EXCEPTION':
                    res.append((None, ln))
                else:
                    res.append((int(parts[1]), rest.strip()))
        return res
    rc, out, err, w = run([exe] + list(queries), timeout=120)
    res = parse(out)
    if len(res) != len(queries):
        # the runner died on one of the queries (crash in the real library): run them one by one
        res = []
        for q in queries:
            rc, out, err, w = run([exe, q], timeout=60)
            one = parse(out)
            res.append(one[0] if len(one) == 1 else (None, 'Q1 EXCEPTION the real library crashed (exit status %s)' % rc))
    return res


# --------------------------------------------------------------------------
# evidence / known findings

def load_known_findings():
    p = os.path.join(VERIF, 'known_findings.json')
    if not os.path.exists(p):
        return {'findings': [], 'fixed': []}
    return json.load(open(p))


def write_evidence(pid, ev):
    os.makedirs(os.path.join(VERIF, 'evidence'), exist_ok=True)
    p = os.path.join(VERIF, 'evidence', pid + '.json')
    with open(p, 'w') as f:
        json.dump(ev, f, indent=1, sort_keys=False)
    return p


def scan_assumptions(paths):
    """Mechanical scan for assume/stub markers in the spec and harness text."""
    found = []
    for p in paths:
        try:
            for i, ln in enumerate(open(p), 1):
                if re.search(r'__CPROVER_assume|VERIF_ASSUMED|VERIF_TRUSTED', ln):
                    found.append('%s:%d: %s' % (os.path.relpath(p, VERIF), i, ln.strip()[:160]))
        except OSError:
            pass
    return found


def tool_versions():
    v = {}
    for t, c in (('cbmc', ['cbmc', '--version']), ('clang', ['clang++', '--version']),
                 ('cvc5', ['cvc5', '--version'])):
        rc, out, err, _ = run(c, timeout=20)
        v[t] = (out or err).strip().split('\n')[0][:80]
    return v
