#!/usr/bin/env python3
"""cxx2c -- mechanical lowering of selected C++ functions of /repo to C.

The input is clang's own JSON AST of the real translation unit (so overload
resolution, implicit conversions, constructor selection and template
instantiation are the compiler's, not ours).  The output is a C translation
unit that CBMC's C front end accepts and that gcc compiles natively (for the
fidelity check).  Nothing is rewritten semantically: each AST node is printed
as the C construct with the same meaning.  What is *not* carried over is
declared by the per-unit configuration (`raise`, `drop`, `extern`) and is
reported back in `Lowering.report` so that the evidence file can list it.

Anything the lowering does not understand raises Unsupported -> the caller
exits 2 (UNDECIDED: extraction broke), never a pass and never a violation.
"""
import json, os, re, subprocess, sys, hashlib

class Unsupported(Exception):
    pass

C_KNOWN_TYPEDEFS = {
    'uint64_t', 'int64_t', 'uint32_t', 'int32_t', 'uint16_t', 'int16_t',
    'uint8_t', 'int8_t', 'size_t', 'ssize_t', 'uintptr_t', 'intptr_t',
    'ptrdiff_t',
}
C_BUILTIN = {
    'void', 'char', 'signed char', 'unsigned char', 'short', 'unsigned short',
    'int', 'unsigned int', 'long', 'unsigned long', 'long long',
    'unsigned long long', 'float', 'double', 'unsigned', '__int128',
    'unsigned __int128',
}

def run_clang(src, flags, out):
    cmd = ['clang++', '-fsyntax-only', '-Xclang', '-ast-dump=json'] + flags + [src]
    with open(out, 'w') as f:
        p = subprocess.run(cmd, stdout=f, stderr=subprocess.PIPE, text=True)
    if p.returncode != 0:
        raise Unsupported('clang failed on %s:\n%s' % (src, p.stderr[-2000:]))
    return out

class TU:
    """Index over clang's JSON AST."""
    def __init__(self, path):
        with open(path) as f:
            self.root = json.load(f)
        self.by_id = {}
        self.parent = {}
        self.defs = {}          # mangled -> definition node
        self.qual = {}          # id -> qualified name
        self._file = None
        self._line = None
        self._index(self.root, None, '')
        # records/enums defined out of line (struct outer::inner { ... }) are lexically at namespace scope;
        # name them by their semantic parent
        for nid, n in list(self.by_id.items()):
            if n.get('kind') in ('CXXRecordDecl', 'EnumDecl', 'VarDecl') and n.get('parentDeclContextId') in self.qual and n.get('name'):
                self.qual[nid] = self.qual[n['parentDeclContextId']] + '::' + n['name']

    def _loc(self, l):
        if not isinstance(l, dict):
            return
        for k in ('spellingLoc', 'expansionLoc'):
            if k in l:
                self._loc(l[k])
        if 'file' in l:
            self._file = l['file']
        if 'line' in l:
            self._line = l['line']
        if 'offset' in l:
            l['_file'] = self._file
            l['_line'] = self._line

    def _index(self, n, parent, scope):
        if not isinstance(n, dict):
            return
        # resolve delta-encoded file/line in document order
        if 'loc' in n:
            self._loc(n['loc'])
        if 'range' in n:
            self._loc(n['range'].get('begin'))
            self._loc(n['range'].get('end'))
        nid = n.get('id')
        if nid:
            old = self.by_id.get(nid)
            if old is None or ('inner' in n and 'inner' not in old):
                self.by_id[nid] = n
                self.parent[nid] = parent
        if n.get('kind') == 'LabelStmt' and 'declId' in n:
            self.by_id.setdefault(n['declId'], {'kind': 'LabelDecl', 'name': n['name']})
        kind = n.get('kind', '')
        name = n.get('name', '')
        myscope = scope
        if kind in ('NamespaceDecl', 'CXXRecordDecl', 'ClassTemplateSpecializationDecl',
                    'EnumDecl', 'ClassTemplateDecl'):
            if kind == 'NamespaceDecl' and not name:
                nm = '(anonymous namespace)'
            elif not name:
                nm = '(anonymous)'
            else:
                nm = name
                if kind == 'ClassTemplateSpecializationDecl':
                    nm = name + self._targs(n)
            if kind == 'ClassTemplateDecl':
                myscope = scope          # the inner CXXRecordDecl adds the name
            else:
                myscope = (scope + '::' if scope else '') + nm
            if nid:
                self.qual[nid] = myscope
        elif kind.endswith('Decl') and nid:
            self.qual[nid] = (scope + '::' if scope else '') + name
        if kind in ('FunctionDecl', 'CXXMethodDecl', 'CXXConstructorDecl',
                    'CXXDestructorDecl', 'CXXConversionDecl'):
            m = n.get('mangledName')
            if m and any(c.get('kind') == 'CompoundStmt' for c in n.get('inner', [])
                         if isinstance(c, dict)):
                self.defs.setdefault(m, n)
        for c in n.get('inner', []) or []:
            self._index(c, n, myscope)
        # lambdas hide their class under 'inner' too; ctor initialisers are
        # plain dict children already.

    def _targs(self, n):
        args = []
        for c in n.get('inner', []):
            if c.get('kind') == 'TemplateArgument':
                t = c.get('type', {}).get('qualType')
                if t is None:
                    t = str(c.get('value', '?'))
                args.append(t)
        return '<' + ', '.join(args) + '>'

    def node(self, nid):
        return self.by_id.get(nid)

    def definition(self, decl):
        """Map any redeclaration to the node that has the body (or itself)."""
        m = decl.get('mangledName')
        if m and m in self.defs:
            return self.defs[m]
        return decl

    def qualname(self, decl):
        """Qualified name; out-of-line definitions inherit the lexical parent of
        the first declaration."""
        d = decl
        seen = set()
        while d.get('previousDecl') and d['previousDecl'] in self.by_id and d['id'] not in seen:
            seen.add(d['id'])
            d = self.by_id[d['previousDecl']]
        if 'parentDeclContextId' in d and d['parentDeclContextId'] in self.qual:
            return self.qual[d['parentDeclContextId']] + '::' + d.get('name', '')
        return self.qual.get(d['id'], d.get('name', ''))

    def find_functions(self, key):
        """key: mangled name, or 'qualname', or 'qualname|type'."""
        res = []
        if key in self.defs:
            return [self.defs[key]]
        want_t = None
        if '|' in key:
            key, want_t = key.split('|', 1)
        for m, d in self.defs.items():
            if self.qualname(d) == key and (want_t is None or d['type']['qualType'] == want_t):
                res.append(d)
        return res

    def where(self, n):
        for k in ('loc',):
            l = n.get(k) or {}
            if 'expansionLoc' in l:
                l = l['expansionLoc']
            if '_file' in l:
                return l['_file'], l['_line']
        l = (n.get('range') or {}).get('begin') or {}
        if 'expansionLoc' in l:
            l = l['expansionLoc']
        return l.get('_file'), l.get('_line')


def kids(n):
    return [c for c in (n.get('inner') or [])]

def ty(n):
    t = n.get('type') or {}
    return t.get('desugaredQualType') or t.get('qualType') or ''

def ty_sugar(n):
    t = n.get('type') or {}
    return t.get('qualType') or ''


class Ctx:
    def __init__(self, fn):
        self.fn = fn
        self.pre = []

    def child(self):
        return Ctx(self.fn)


class FnState:
    def __init__(self, decl, cname, rett):
        self.decl = decl
        self.cname = cname
        self.rett = rett
        self.tmpn = 0
        self.loopn = 0
        self.lambdas = {}     # var id -> LambdaExpr
        self.lambda_fns = {}  # var id -> operator() of a capture-less lambda lowered as a function
        self.refvars = set()  # ids of locals/params lowered to pointers
        self.this_type = None
        self.try_stack = []   # labels of enclosing catch dispatchers
        self.tryn = 0
        self.handler_exc = []  # names of saved exception-kind variables of enclosing handlers
        self.dtor_depth = 0    # > 0 while inside a scope that owns a destructible local
        self.live_dtors = []   # (local name, destructor C name) of destructible locals in open scopes
        self.try_marks = []    # len(live_dtors) at entry of each enclosing try

    def tmp(self):
        self.tmpn += 1
        return '__t%d' % self.tmpn


class Lowering:
    def __init__(self, tu, cfg):
        self.tu = tu
        self.cfg = cfg
        self.names = dict(cfg.get('names', {}))         # key -> cname
        self.extern = cfg.get('extern', {})             # qualname(regex) -> C name
        self.raise_fns = set(cfg.get('raise', []))      # qualnames
        self.drop_calls = set(cfg.get('drop', []))      # qualnames whose call statement is dropped
        self.typemap = cfg.get('types', {})             # regex on desugared type -> C type
        self.virtual_model = cfg.get('virtual', {})     # qualname -> C name
        self.loop_contracts = cfg.get('loop_contracts', {})
        self.opaque_records = set(cfg.get('opaque_records', []))
        self.queue = []
        self.fn_cname = {}       # mangled -> cname
        self.fn_decl = {}        # mangled -> decl
        self.records = {}        # C name -> definition text
        self.record_order = []
        self.enums = {}
        self.enum_order = []
        self.may_raise = set()   # mangled
        self.opaque_auto = set()
        self.bodies = {}         # mangled -> (proto, text)
        self.callgraph = {}      # mangled -> set(mangled)
        self.report = {'functions': [], 'dropped': [], 'externals': [], 'raise_sites': 0,
                       'asserts': 0, 'lambdas_inlined': 0, 'virtual_calls': []}
        self._raise_site_nodes = 0

    # ------------------------------------------------------------------ names
    def sanitize(self, s):
        return re.sub(r'[^A-Za-z0-9_]', '_', s)

    def cname_for(self, decl):
        d = self.tu.definition(decl)
        m = d.get('mangledName') or decl.get('mangledName')
        if m in self.fn_cname:
            return self.fn_cname[m]
        q = self.tu.qualname(d)
        key_t = q + '|' + d['type']['qualType']
        if m in self.names:
            c = self.names[m]
        elif key_t in self.names:
            c = self.names[key_t]
        elif q in self.names:
            c = self.names[q]
        else:
            c = 'x_' + self.sanitize(m)
        self.fn_cname[m] = c
        self.fn_decl[m] = d
        if not any(k.get('kind') == 'CompoundStmt' for k in kids(d)) and d.get('kind') != 'CXXConstructorDecl':
            raise Unsupported('no body for %s (%s); add it to extern/drop' % (q, m))
        self.queue.append(d)
        return c

    def extern_for(self, q, ftype=None):
        if ftype is not None:
            for pat, c in self.extern.items():
                if '|' in pat and re.fullmatch(pat, q + '|' + ftype):
                    return c
        for pat, c in self.extern.items():
            if re.fullmatch(pat, q):
                return c
        return None

    def ext_name(self, ext):
        return ext['c'] if isinstance(ext, dict) else ext

    def ext_byval(self, ext):
        return isinstance(ext, dict) and ext.get('by_value', False)

    # ------------------------------------------------------------------ types
    def ctype(self, t, n=None):
        """C spelling of C++ type string t (desugared where possible)."""
        t = t.strip()
        for pat, c in self.typemap.items():
            if re.fullmatch(pat, t):
                return c
        if t.endswith('&&'):
            return self.ctype(t[:-2]) + ' *'
        if t.endswith('&'):
            return self.ctype(t[:-1]) + ' *'
        if t.endswith('*const'):
            return self.ctype(t[:-5])
        if t.endswith('*'):
            return self.ctype(t[:-1]) + ' *'
        if t.endswith(' const'):
            inner = self.ctype(t[:-6])
            if inner.rstrip().endswith('*'):
                return inner.rstrip() + 'const'
            return 'const ' + inner
        const = ''
        if t.startswith('const '):
            inner = self.ctype(t[6:].strip())
            if inner.rstrip().endswith('*'):
                return inner.rstrip() + 'const'      # a const object of a class modelled by a pointer
            return 'const ' + inner
        for kw in ('struct ', 'class ', 'enum ', 'union '):
            if t.startswith(kw):
                t = t[len(kw):]
        if t == 'bool':
            return const + '_Bool'
        if t in C_BUILTIN or t in C_KNOWN_TYPEDEFS:
            return const + t
        # record or enum known to the TU?
        rec = self.find_record(t)
        if rec is not None:
            return const + self.record_cname(rec)
        en = self.find_enum(t)
        if en is not None:
            return const + self.enum_cname(en)
        td = self.find_typedef(t)
        if td is not None:
            return const + self.ctype(td)
        rec = self.find_record_via_typedef(t)
        if rec is not None:
            return const + self.record_cname(rec)
        raise Unsupported('type %r has no C mapping' % t)

    def mapped_scalar(self, t):
        for pat, c in self.typemap.items():
            if re.fullmatch(pat, t) and not self.typemap_is_record(pat):
                return c
        return None

    def find_record(self, qname):
        for nid, q in self.tu.qual.items():
            if q == qname:
                n = self.tu.by_id[nid]
                if n.get('kind') in ('CXXRecordDecl', 'ClassTemplateSpecializationDecl') and n.get('completeDefinition'):
                    return n
        return None

    def find_typedef(self, qname):
        for nid, q in self.tu.qual.items():
            if q == qname:
                n = self.tu.by_id[nid]
                if n.get('kind') in ('TypedefDecl', 'TypeAliasDecl'):
                    t = n.get('type') or {}
                    u = t.get('desugaredQualType') or t.get('qualType')
                    if u and u != qname:
                        return u
        return None

    def find_record_via_typedef(self, qname):
        """typedef struct { ... } NAME;  -- the record is anonymous, the typedef names it."""
        def decl_ids(n):
            out = []
            if isinstance(n, dict):
                if 'decl' in n and isinstance(n['decl'], dict) and 'id' in n['decl']:
                    out.append(n['decl']['id'])
                for k in n.get('inner') or []:
                    out += decl_ids(k)
            return out
        for nid, q in self.tu.qual.items():
            if q == qname:
                n = self.tu.by_id[nid]
                if n.get('kind') in ('TypedefDecl', 'TypeAliasDecl'):
                    for did in decl_ids(n):
                        r = self.tu.by_id.get(did)
                        if r is not None and r.get('kind') == 'CXXRecordDecl' and r.get('completeDefinition'):
                            self.tu.qual[r['id']] = qname      # name the anonymous record after its typedef
                            return r
        return None

    def find_enum(self, qname):
        for nid, q in self.tu.qual.items():
            if q == qname:
                n = self.tu.by_id[nid]
                if n.get('kind') == 'EnumDecl':
                    return n
        return None

    def enum_cname(self, en):
        c = self.sanitize(self.tu.qual[en['id']])
        if not en.get('name'):
            # unnamed enums of different headers must not share one C name: the enumerator prefix stays (callers
            # spell `<prefix>__NAME`), the type gets a suffix per distinct enum
            key = '%s#%s' % (c, en['id'])
            self.anon_enum_ids = getattr(self, 'anon_enum_ids', {})
            if key not in self.anon_enum_ids:
                self.anon_enum_ids[key] = len(self.anon_enum_ids)
            tag = '%s_e%d' % (c, self.anon_enum_ids[key])
            if tag not in self.enums:
                lines, val = [], -1
                for k in kids(en):
                    if k.get('kind') != 'EnumConstantDecl':
                        continue
                    v = None
                    for kk in kids(k):
                        v = self.const_value(kk)
                    val = v if v is not None else val + 1
                    lines.append('  %s__%s = %d,' % (tag, k['name'], val))
                self.enums[tag] = 'typedef enum %s {\n%s\n} %s;' % (tag, '\n'.join(lines), tag)
                self.enum_order.append(tag)
            return tag
        if c not in self.enums:
            lines = []
            val = -1
            for k in kids(en):
                if k.get('kind') != 'EnumConstantDecl':
                    continue
                v = None
                for kk in kids(k):
                    v = self.const_value(kk)
                val = v if v is not None else val + 1
                lines.append('  %s__%s = %d,' % (c, k['name'], val))
            self.enums[c] = 'typedef enum %s {\n%s\n} %s;' % (c, '\n'.join(lines), c)
            self.enum_order.append(c)
        return c

    def const_value(self, n):
        if n.get('kind') == 'ConstantExpr' and 'value' in n:
            v = str(n['value'])
            if v in ('true', 'false'):
                return 1 if v == 'true' else 0
            try:
                return int(v)
            except ValueError:
                raise Unsupported('constant expression with value %r' % v)
        if n.get('kind') == 'IntegerLiteral':
            return int(n['value'])
        if n.get('kind') == 'CXXBoolLiteralExpr':
            return 1 if n['value'] else 0
        for k in kids(n):
            v = self.const_value(k)
            if v is not None:
                return v
        return None

    def record_cname(self, rec):
        q = self.tu.qual[rec['id']]
        c = self.sanitize(q)
        if c in self.records or c in self.opaque_records:
            return c
        self.records[c] = None   # placeholder against recursion
        body = self.record_body(rec, 1)
        fwd = 'typedef struct %s %s;\n' % (c, c) if re.search(r'\b%s \*' % re.escape(c), body) else ''   # self-reference
        self.records[c] = fwd + 'typedef struct %s {\n%s} %s;' % (c, body, c)
        self.record_order.append(c)
        return c

    def record_body(self, rec, ind):
        pad = '  ' * ind
        out = ''
        bases = rec.get('bases') or []
        for i, b in enumerate(bases):
            bt = b['type'].get('desugaredQualType') or b['type']['qualType']
            out += '%s%s __base%d;\n' % (pad, self.ctype(bt), i)
        has_virtual = any(k.get('virtual') for k in kids(rec) if isinstance(k, dict))
        anon = {}
        for k in kids(rec):
            if k.get('kind') == 'CXXRecordDecl' and not k.get('name') and k.get('completeDefinition'):
                anon[k['id']] = k
        nfields = 0
        for k in kids(rec):
            if k.get('kind') != 'FieldDecl':
                continue
            nfields += 1
            if not k.get('name'):
                # anonymous struct/union member
                target = None
                for a in anon.values():
                    if self.tu.qual.get(a['id']) and ty(k).startswith(self.tu.qual[rec['id']] + '::('):
                        target = a
                if target is None and anon:
                    target = list(anon.values())[0]
                if target is None:
                    raise Unsupported('anonymous member without record in %s' % self.tu.qual[rec['id']])
                out += '%s%s {\n%s%s};\n' % (pad, target.get('tagUsed', 'struct'),
                                            self.record_body(target, ind + 1), pad)
            else:
                ft = ty(k).strip()
                if ft.startswith('const ') and not ft.endswith('*') and not ft.endswith('&'):
                    ft = ft[6:]          # a const member is initialised once by the constructor; C assigns it
                out += '%s%s;\n' % (pad, self.declarator(ft, k['name']))
        if nfields == 0 and not bases:
            out += '%schar __empty;\n' % pad
        return out

    def declarator(self, t, name):
        m = re.fullmatch(r'(.*)\[(\d*)\]', t.strip())
        if m:
            return '%s %s[%s]' % (self.ctype(m.group(1)), name, m.group(2))
        m = re.fullmatch(r'([^\[\]]*)\[([A-Za-z0-9_ +*\-]+)\]', t.strip())
        if m:
            # variable-length array: clang prints the size expression in the type (C text over locals).
            # Printed as an alloca'd object of exactly that size (CBMC mis-handles pointer comparisons into
            # VLAs); sizeof on such a variable is refused elsewhere.
            et = self.ctype(m.group(1))
            self.report.setdefault('vla_as_alloca', []).append(name)
            return '%s *%s = (%s *)__builtin_alloca(sizeof(%s) * (size_t)(%s))' % (et, name, et, et, m.group(2))
        if '(*)' in t:
            m = re.fullmatch(r'(.*)\(\*\)\((.*)\)', t.strip())
            if not m:
                raise Unsupported('function pointer type %r' % t)
            args = [self.ctype(a) for a in self.split_args(m.group(2))] if m.group(2).strip() else ['void']
            return '%s (*%s)(%s)' % (self.ctype(m.group(1)), name, ', '.join(args))
        return '%s %s' % (self.ctype(t), name)

    def split_args(self, s):
        out, depth, cur = [], 0, ''
        for ch in s:
            if ch in '<(':
                depth += 1
            elif ch in '>)':
                depth -= 1
            if ch == ',' and depth == 0:
                out.append(cur.strip())
                cur = ''
            else:
                cur += ch
        if cur.strip():
            out.append(cur.strip())
        return out

    def is_ref(self, t):
        return t.strip().endswith('&')

    def is_record_type(self, t):
        t = t.strip()
        if t.startswith('const '):
            t = t[6:]
        return self.find_record(t) is not None or any(
            re.fullmatch(p, t) and self.typemap_is_record(p) for p in self.typemap)

    def typemap_is_record(self, p):
        return self.cfg.get('types_are_records', {}).get(p, False)

    def dummy(self, ctype):
        ctype = ctype.strip()
        if ctype == 'void':
            return ''
        if ctype.endswith('*'):
            return '(%s)0' % ctype
        base = ctype[6:] if ctype.startswith('const ') else ctype
        if base in self.records or base in self.opaque_records or base in self.cfg.get('record_ctypes', []):
            return '(%s){0}' % base
        return '(%s)0' % base

    # ------------------------------------------------------------ functions
    def add_root(self, key):
        ds = self.tu.find_functions(key)
        if len(ds) != 1:
            raise Unsupported('root %r matches %d definitions' % (key, len(ds)))
        return self.cname_for(ds[0])

    def run(self, roots):
        for r in roots:
            self.add_root(r)
        done = set()
        lowered = []
        while self.queue:
            d = self.queue.pop(0)
            m = d['mangledName']
            if m in done:
                continue
            done.add(m)
            lowered.append(self.lower_function(d))
        # raise propagation needs a fixpoint: lower again until stable.
        changed = True
        rounds = 0
        while changed:
            rounds += 1
            if rounds > 10:
                raise Unsupported('raise fixpoint did not converge')
            changed = False
            before = set(self.may_raise)
            for m in list(done):
                self.lower_function(self.fn_decl[m])
            while self.queue:
                d = self.queue.pop(0)
                if d['mangledName'] not in done:
                    done.add(d['mangledName'])
                    self.lower_function(d)
                    changed = True
            if before != self.may_raise:
                changed = True
        self.report['functions'] = []
        for m in sorted(done, key=lambda m: self.fn_cname[m]):
            d = self.fn_decl[m]
            f, l = self.tu.where(d)
            self.report['functions'].append({
                'c_name': self.fn_cname[m], 'cxx': self.tu.qualname(d) + ' : ' + d['type']['qualType'],
                'mangled': m, 'file': f, 'line': l, 'may_raise': m in self.may_raise})
        return done

    def is_static_method(self, d):
        # an out-of-line definition of a static member function does not repeat `static`: look at the
        # in-class declaration it redeclares
        seen = 0
        while d is not None and seen < 8:
            if d.get('storageClass') == 'static':
                return True
            prev = d.get('previousDecl')
            d = self.tu.by_id.get(prev) if prev else None
            seen += 1
        return False

    def param_list(self, d, fs):
        ps = []
        if d['kind'] in ('CXXMethodDecl', 'CXXConversionDecl', 'CXXDestructorDecl') and not self.is_static_method(d):
            cls = self.class_of(d)
            try:
                ct = self.record_cname(cls)
            except Unsupported:
                # the class cannot be laid out in C (e.g. templated bases); `self` becomes a pointer to an
                # opaque struct -- any member access through it then fails to compile (=> UNDECIDED)
                ct = self.sanitize(self.tu.qual[cls['id']])
                self.records.pop(ct, None)
                if ct in self.record_order:
                    self.record_order.remove(ct)
                self.opaque_auto.add(ct)
            const = 'const ' if re.search(r'\)\s*const', d['type']['qualType']) else ''
            ps.append('%s%s *self' % (const, ct))
            fs.this_type = ct
        for p in kids(d):
            if p.get('kind') != 'ParmVarDecl':
                continue
            t = ty(p)
            nm = p.get('name') or ('__unnamed%d' % len(ps))
            if self.is_ref(t):
                fs.refvars.add(p['id'])
            ps.append(self.declarator(t, nm))
        return ps or ['void']

    def class_of(self, d):
        dd = d
        seen = set()
        while dd.get('previousDecl') and dd['previousDecl'] in self.tu.by_id and dd['id'] not in seen:
            seen.add(dd['id'])
            dd = self.tu.by_id[dd['previousDecl']]
        pid = dd.get('parentDeclContextId')
        if pid and pid in self.tu.by_id:
            return self.tu.by_id[pid]
        p = self.tu.parent.get(dd['id'])
        hops = 0
        while p is not None and hops < 4:
            if p.get('kind') in ('CXXRecordDecl', 'ClassTemplateSpecializationDecl'):
                return p
            p = self.tu.parent.get(p.get('id'))
            hops += 1
        raise Unsupported('cannot find class of %s' % d.get('name'))

    def ret_ctype(self, d):
        if d['kind'] == 'CXXConstructorDecl':
            return self.record_cname(self.class_of(d))
        qt = d['type'].get('desugaredQualType') or d['type']['qualType']
        # result type = text before the first '(' at depth 0
        depth = 0
        for i, ch in enumerate(qt):
            if ch == '<':
                depth += 1
            elif ch == '>':
                depth -= 1
            elif ch == '(' and depth == 0:
                return self.ctype(qt[:i].strip())
        raise Unsupported('cannot parse function type %r' % qt)

    def lower_function(self, d):
        m = d['mangledName']
        cname = self.fn_cname[m]
        rett = self.ret_ctype(d)
        fs = FnState(d, cname, rett)
        self.cur_calls = set()
        ps = self.param_list(d, fs)
        proto = '%s %s(%s)' % (rett, cname, ', '.join(ps))
        f, l = self.tu.where(d)
        lines = []
        if d['kind'] == 'CXXConstructorDecl':
            lines += self.lower_ctor(d, fs)
        else:
            body = [k for k in kids(d) if k.get('kind') == 'CompoundStmt']
            lines += self.stmt(body[0], fs)[1:-1] if body else []
        text = '/* %s  [%s:%s] */\n%s\n{\n%s\n}\n' % (
            self.tu.qualname(d) + ' : ' + d['type']['qualType'], f, l, proto,
            '\n'.join(self.indent(lines, 1)))
        self.bodies[m] = (proto, text)
        self.callgraph[m] = set(self.cur_calls)
        return text

    def indent(self, lines, n):
        return [('  ' * n + ln) if ln and not ln.startswith('#') else ln for ln in lines]

    def lower_ctor(self, d, fs):
        cls = self.class_of(d)
        ct = self.record_cname(cls)
        fs.ctor_self = True
        lines = ['%s __self_obj; %s *self = &__self_obj;' % (ct, ct)]
        for k in kids(d):
            if k.get('kind') != 'CXXCtorInitializer':
                continue
            ctx = Ctx(fs)
            init = kids(k)[0]
            if 'delegatingInit' in k:
                e = self.expr(init, ctx)
                lines += ctx.pre + ['*self = %s;' % e]
            elif 'anyInit' in k:
                fld = k['anyInit']
                ft = (fld.get('type') or {}).get('qualType', '')
                e = self.addr_of(init, ctx) if ft.strip().endswith('&') else self.expr(init, ctx)
                if fld.get('name'):
                    lines += ctx.pre + ['self->%s = %s;' % (fld['name'], e)]
                else:
                    raise Unsupported('anonymous member initialiser in user ctor')
            elif 'baseInit' in k:
                e = self.expr(init, ctx)
                lines += ctx.pre + ['self->__base0 = %s;' % e]
            else:
                raise Unsupported('ctor initialiser kind %s' % list(k.keys()))
        body = [k for k in kids(d) if k.get('kind') == 'CompoundStmt']
        if body:
            lines += self.stmt(body[0], fs)[1:-1]
        lines.append('return *self;')
        return lines

    # ------------------------------------------------------------ statements
    def line_directive(self, n):
        return []

    def stmt(self, n, fs):
        k = n.get('kind')
        if not k:
            return []
        meth = getattr(self, 's_' + k, None)
        if meth is None:
            if k.endswith('Expr') or k.endswith('Operator') or k in ('ExprWithCleanups', 'IntegerLiteral'):
                return self.s_expr(n, fs)
            raise Unsupported('statement kind %s at %s' % (k, self.tu.where(n)))
        return meth(n, fs)

    def block(self, n, fs):
        ls = self.stmt(n, fs)
        if n.get('kind') == 'CompoundStmt':
            return ls
        return ['{'] + self.indent(ls, 1) + ['}']

    def s_CompoundStmt(self, n, fs):
        out = ['{']
        dtors = []
        nlive = 0
        for c in kids(n):
            if c.get('kind') == 'DeclStmt':
                for d in kids(c):
                    if d.get('kind') == 'VarDecl':
                        dt = self.user_dtor(ty(d))
                        if dt is not None:
                            dtors.append((d['name'], dt))
            if dtors and self.has_jump(c):
                raise Unsupported('scope with a destructible local (%s) contains return/break/continue/goto at %s'
                                  % (dtors[0][0], self.tu.where(c)))
            out += self.indent(self.stmt(c, fs), 1)
            # locals declared by this statement become live after it
            if c.get('kind') == 'DeclStmt':
                for d in kids(c):
                    if d.get('kind') == 'VarDecl':
                        for name, dt in dtors:
                            if name == d['name'] and (name, self.fn_cname.get(dt['mangledName'])) not in fs.live_dtors:
                                cn = self.cname_for(dt)
                                self.note_call(dt)
                                fs.live_dtors.append((name, cn))
                                nlive += 1
        for name, dt in reversed(dtors):
            cn = self.cname_for(dt)
            self.note_call(dt)
            out += self.indent(['%s(&%s); /* destructor at end of scope */' % (cn, name)], 1)
        for _ in range(nlive):
            fs.live_dtors.pop()
        out.append('}')
        return out

    def has_jump(self, n):
        if not isinstance(n, dict):
            return False
        if n.get('kind') in ('ReturnStmt', 'BreakStmt', 'ContinueStmt', 'GotoStmt'):
            return True
        if n.get('kind') in ('LambdaExpr',):
            return False
        return any(self.has_jump(k) for k in kids(n))

    def user_dtor(self, t):
        t = self.strip_cvref(t) if not t.strip().endswith('&') else None
        if t is None or t.endswith('*'):
            return None
        rec = self.find_record(t)
        if rec is None:
            return None
        for k in kids(rec):
            if k.get('kind') == 'CXXDestructorDecl' and not k.get('isImplicit') and not k.get('explicitlyDefaulted'):
                return self.tu.definition(k)
        return None

    def s_NullStmt(self, n, fs):
        return [';']

    def leftmost_stream(self, n):
        """If n is a chain  S << a << b ...  return the qualified name of S (a global), else None."""
        k = n
        while k.get('kind') in ('ExprWithCleanups', 'ImplicitCastExpr', 'ParenExpr', 'MaterializeTemporaryExpr', 'CXXBindTemporaryExpr'):
            k = kids(k)[0]
        depth = 0
        while k.get('kind') in ('CXXOperatorCallExpr', 'CXXMemberCallExpr') and depth < 64:
            depth += 1
            ks = kids(k)
            if k.get('kind') == 'CXXOperatorCallExpr':
                if len(ks) < 2:
                    return None
                k = ks[1]
            else:
                mem = ks[0]
                if mem.get('kind') != 'MemberExpr':
                    return None
                k = kids(mem)[0]
            while k.get('kind') in ('ImplicitCastExpr', 'ParenExpr'):
                k = kids(k)[0]
        if depth and k.get('kind') == 'DeclRefExpr' and k['referencedDecl'].get('kind') == 'VarDecl':
            d = self.tu.node(k['referencedDecl']['id'])
            if d is not None:
                return self.tu.qual.get(d['id'])
        return None

    def s_expr(self, n, fs):
        st = self.leftmost_stream(n)
        if st is not None and st in self.cfg.get('drop_streams', []):
            ent = 'output to %s in %s' % (st, fs.cname)
            if ent not in self.report['dropped']:
                self.report['dropped'].append(ent)
            return ['/* diagnostic written to %s dropped */' % st]
        ctx = Ctx(fs)
        e = self.expr(n, ctx, discard=True)
        out = list(ctx.pre)
        if e and e != '((void)0)':
            out.append('%s;' % e)
        return out

    def s_ReturnStmt(self, n, fs):
        ks = kids(n)
        if not ks:
            if getattr(fs, 'ctor_self', False):
                return ['return *self;']
            return ['return;']
        ctx = Ctx(fs)
        fq = fs.decl['type'].get('desugaredQualType') or fs.decl['type']['qualType']
        if fs.decl.get('kind') != 'CXXConstructorDecl' and self.returns_ref(fq):
            e = self.addr_of(ks[0], ctx)
        else:
            e = self.expr(ks[0], ctx)
        return ctx.pre + ['return %s;' % e]

    def s_IfStmt(self, n, fs):
        ks = kids(n)
        if n.get('hasInit'):
            raise Unsupported('if with init statement')
        if n.get('hasVar'):
            # if (T x = init) A else B  ==  { T x = init; if (x) A else B }
            decl, cond, rest = ks[0], ks[1], ks[2:]
            dl = self.stmt(decl, fs)
            ctx = Ctx(fs)
            c = self.cond(cond, ctx)
            out = dl + ctx.pre + ['if (%s)' % c] + self.block(rest[0], fs)
            if n.get('hasElse') and len(rest) > 1:
                out += ['else'] + self.block(rest[1], fs)
            return ['{'] + self.indent(out, 1) + ['}']
        ctx = Ctx(fs)
        c = self.cond(ks[0], ctx)
        out = ctx.pre + ['if (%s)' % c] + self.block(ks[1], fs)
        if n.get('hasElse'):
            out += ['else'] + self.block(ks[2], fs)
        if ctx.pre:
            out = ['{'] + self.indent(out, 1) + ['}']
        return out

    def cond(self, n, ctx):
        return self.expr(n, ctx)

    def loop_contract(self, fs):
        fs.loopn += 1
        lc = self.loop_contracts.get(fs.cname, {}).get(fs.loopn)
        if lc is None:
            return []
        fs.used_lc = getattr(fs, 'used_lc', set()) | {fs.loopn}
        self.report.setdefault('loop_contracts_applied', []).append('%s#%d' % (fs.cname, fs.loopn))
        return ['/* loop contract #%d (from spec, keyed by function and loop ordinal) */' % fs.loopn,
                '#ifdef VERIF_CBMC'] + lc.strip().split('\n') + ['#endif']

    def s_WhileStmt(self, n, fs):
        ks = kids(n)
        if n.get('hasVar') or (ks and ks[0].get('kind') == 'DeclStmt'):
            # while (T x = init) body  ==  while (1) { T x = init; if (!x) break; body }   (x is re-created
            # and destroyed every iteration; destructors of modelled types are the model's business)
            decl, cond, body = ks[0], ks[1], ks[2]
            lc = self.loop_contract(fs)
            dl = self.stmt(decl, fs)
            ctx = Ctx(fs)
            c = self.cond(cond, ctx)
            return ['while (1)'] + lc + ['{'] + self.indent(dl + ctx.pre + ['if (!(%s)) break;' % c] + self.block(body, fs), 1) + ['}']
        ctx = Ctx(fs)
        c = self.cond(ks[0], ctx)
        lc = self.loop_contract(fs)
        if ctx.pre:
            # condition needs statements: while (1) { pre; if (!c) break; body }
            return ['while (1)'] + lc + ['{'] + self.indent(ctx.pre + ['if (!(%s)) break;' % c] + self.block(ks[1], fs), 1) + ['}']
        return ['while (%s)' % c] + lc + self.block(ks[1], fs)

    def s_DoStmt(self, n, fs):
        ks = kids(n)
        ctx = Ctx(fs)
        c = self.cond(ks[1], ctx)
        if ctx.pre:
            raise Unsupported('do-while condition needs hoisting')
        lc = self.loop_contract(fs)
        if lc:
            raise Unsupported('loop contract on do-while')
        return ['do'] + self.block(ks[0], fs) + ['while (%s);' % c]

    def s_ForStmt(self, n, fs):
        ks = kids(n)
        # inner: init, condvar, cond, inc, body
        init, condvar, cond, inc, body = ks[0], ks[1], ks[2], ks[3], ks[4]
        condpre = []
        out = ['{']
        if init.get('kind'):
            out += self.indent(self.stmt(init, fs), 1)
        if condvar.get('kind'):
            raise Unsupported('for with condition variable')
        c = '1'
        if cond.get('kind'):
            ctx = Ctx(fs)
            c = self.cond(cond, ctx)
            if ctx.pre:
                condpre = ctx.pre + ['if (!(%s)) break;' % c]
                c = '1'
        i = ''
        if inc.get('kind'):
            ctx = Ctx(fs)
            i = self.expr(inc, ctx, discard=True)
            if ctx.pre:
                raise Unsupported('for increment needs hoisting')
        lc = self.loop_contract(fs)
        if condpre:
            out += self.indent(['for (; %s; %s)' % (c, i)] + lc + ['{'] + self.indent(condpre + self.block(body, fs), 1) + ['}'], 1)
        else:
            out += self.indent(['for (; %s; %s)' % (c, i)] + lc + self.block(body, fs), 1)
        out.append('}')
        return out

    def s_CXXTryStmt(self, n, fs):
        ks = [k for k in kids(n) if k.get('kind')]
        body, handlers = ks[0], ks[1:]
        fs.tryn += 1
        N = fs.tryn
        catch_l, end_l = '__catch%d' % N, '__endtry%d' % N
        fs.try_stack.append(catch_l)
        fs.try_marks.append(len(fs.live_dtors))
        out = ['{ /* try */'] + self.indent(self.stmt(body, fs), 1)
        fs.try_stack.pop()
        fs.try_marks.pop()
        out += self.indent(['goto %s;' % end_l, '%s: ;' % catch_l], 1)
        # inside the try block a may-raise callee might not be recognised as such on the first lowering
        # pass; the fixpoint re-lowers until stable.
        excv = '__exc%d' % N
        out += self.indent(['{', '  int %s = verif_raised;' % excv], 1)
        for h in handlers:
            hk = [k for k in kids(h) if k.get('kind')]
            hbody = hk[-1]
            var = hk[0] if len(hk) > 1 and hk[0].get('kind') == 'VarDecl' else None
            if var is None:
                cond = '1'
                tdesc = '...'
            else:
                tn = self.strip_cvref(ty(var))
                kinds = [self.exc_kind(tn)] + list(self.cfg.get('exception_subkinds', {}).get(tn, []))
                cond = ' || '.join('%s == %d' % (excv, k) for k in kinds)
                tdesc = tn
            fs.handler_exc.append(excv)
            hl = self.stmt(hbody, fs)
            fs.handler_exc.pop()
            out += self.indent(['if (%s) { /* catch (%s) */' % (cond, tdesc), '  verif_raised = 0;'] +
                               self.indent(hl, 1) + ['  goto %s;' % end_l, '}'], 2)
        self.mark_raise(fs)
        out += self.indent(['%s /* no handler matched: propagate */' % self.raise_exit(fs), '}'], 1)
        out += self.indent(['%s: ;' % end_l], 1)
        out.append('}')
        return out

    def s_CXXForRangeStmt(self, n, fs):
        # clang has already desugared the statement: [init, __range, __begin, __end, cond, inc, loop variable, body]
        ks = kids(n)
        if len(ks) != 8:
            raise Unsupported('range-for with %d children' % len(ks))
        init, rng, beg, end, cond, inc, var, body = ks
        out = ['{']
        if init.get('kind'):
            out += self.indent(self.stmt(init, fs), 1)
        for d in (rng, beg, end):
            out += self.indent(self.stmt(d, fs), 1)
        ctx = Ctx(fs)
        c = self.cond(cond, ctx)
        if ctx.pre:
            raise Unsupported('range-for condition needs hoisting')
        ictx = Ctx(fs)
        i = self.expr(inc, ictx, discard=True)
        if ictx.pre:
            raise Unsupported('range-for increment needs hoisting')
        lc = self.loop_contract(fs)
        inner = self.stmt(var, fs) + self.block(body, fs)
        out += self.indent(['for (; %s; %s)' % (c, i)] + lc + ['{'] + self.indent(inner, 1) + ['}'], 1)
        out.append('}')
        return out

    def s_BreakStmt(self, n, fs):
        return ['break;']

    def s_ContinueStmt(self, n, fs):
        return ['continue;']

    def s_GotoStmt(self, n, fs):
        tgt = self.tu.node(n['targetLabelDeclId'])
        return ['goto %s;' % tgt['name']]

    def s_LabelStmt(self, n, fs):
        out = ['%s: ;' % n['name']]
        for c in kids(n):
            out += self.stmt(c, fs)
        return out

    def s_SwitchStmt(self, n, fs):
        ks = [k for k in kids(n) if k.get('kind')]
        ctx = Ctx(fs)
        c = self.expr(ks[0], ctx)
        keep = self.cfg.get('keep_cases', {}).get(fs.cname)
        if keep is not None and ks[1].get('kind') == 'CompoundStmt':
            return ctx.pre + ['switch (%s)' % c] + self.sliced_switch_body(ks[1], fs, set(keep))
        return ctx.pre + ['switch (%s)' % c] + self.block(ks[1], fs)

    def case_labels(self, n):
        """names of the enumerators labelling a (possibly nested `case A: case B:`) CaseStmt; the innermost non-case statement"""
        labels = []
        while n.get('kind') in ('CaseStmt', 'DefaultStmt'):
            ks = kids(n)
            if n['kind'] == 'DefaultStmt':
                labels.append('default')
                n = ks[0]
                continue
            def find(e):
                if e.get('kind') == 'DeclRefExpr':
                    return e['referencedDecl'].get('name')
                for k in kids(e):
                    r = find(k)
                    if r:
                        return r
                return None
            nm = find(ks[0])
            if nm is None:
                raise Unsupported('keep_cases: case label is not an enumerator at %s' % self.tu.where(n))
            labels.append(nm)
            n = ks[-1]
        return labels

    def sliced_switch_body(self, body, fs, keep):
        """cfg keep_cases: lower only the listed cases of the (single, top-level) switch of this function.  A case and
        the statements up to the next case label are one group; a group is kept iff one of its labels is listed.  Every
        dropped group is replaced by one `default:` that calls verif_dropped_case() (a proof failure if reached), and
        is named in the report.  Aborts unless every listed label is found, and if a kept group can fall out of
        its end into a dropped one (no jump as its last statement)."""
        groups = []          # [labels, [stmts]]
        for c in kids(body):
            if c.get('kind') in ('CaseStmt', 'DefaultStmt'):
                groups.append([self.case_labels(c), [c]])
            elif groups:
                groups[-1][1].append(c)
            else:
                raise Unsupported('keep_cases: statement before the first case label')
        found = set()
        out = ['{']
        dropped = []
        for labels, stmts in groups:
            if keep & set(labels):
                found |= keep & set(labels)
                for st in stmts:
                    out += self.indent(self.stmt(st, fs), 1)
                out += self.indent(['verif_dropped_case(); /* end of a kept case group: falling out of it is not lowered */'], 1)
            else:
                dropped += labels
        if keep - found:
            raise Unsupported('keep_cases: case label(s) %s not found in %s' % (sorted(keep - found), fs.cname))
        out += self.indent(['default: verif_dropped_case(); /* cases dropped by the extraction: %s */' % ' '.join(dropped)], 1)
        out.append('}')
        self.report.setdefault('dropped_cases', []).append({'function': fs.cname, 'kept': sorted(found), 'dropped': dropped})
        return out

    def s_CaseStmt(self, n, fs):
        ks = kids(n)
        ctx = Ctx(fs)
        v = self.expr(ks[0], ctx)
        rest = ks[1:]
        if n.get('isGNURange'):
            hi = self.expr(ks[1], ctx)       # GNU extension `case LO ... HI:`
            out = ['case %s ... %s: ;' % (v, hi)]
            rest = ks[2:]
        else:
            out = ['case %s: ;' % v]
        for c in rest:
            ls = self.stmt(c, fs)
            if len(ls) > 1 and c.get('kind') not in ('CaseStmt', 'DefaultStmt', 'DeclStmt', 'CompoundStmt', 'LabelStmt'):
                # temporaries hoisted out of the statement stay local to it (not to the whole switch block)
                ls = ['{'] + self.indent(ls, 1) + ['}']
            out += ls
        return out

    def s_DefaultStmt(self, n, fs):
        out = ['default: ;']
        for c in kids(n):
            out += self.stmt(c, fs)
        return out

    def s_DeclStmt(self, n, fs):
        out = []
        for d in kids(n):
            if d.get('kind') == 'UsingDecl':
                continue
            if d.get('kind') == 'StaticAssertDecl':
                continue
            if d.get('kind') != 'VarDecl':
                raise Unsupported('decl kind %s in DeclStmt' % d.get('kind'))
            out += self.vardecl(d, fs)
        return out

    def vardecl(self, d, fs):
        t = ty(d)
        name = d['name']
        ks = kids(d)
        if d.get('storageClass') == 'static':
            raise Unsupported('static local %s' % name)
        init = ks[-1] if ks and 'init' in d else None
        if init is not None:
            lam = self.find_lambda(init)
            if lam is not None:
                try:
                    self.check_lambda(lam)
                    fs.lambdas[d['id']] = lam
                    return ['/* lambda %s inlined at its call sites */' % name]
                except Unsupported:
                    # a lambda that captures nothing is an ordinary function: its operator() is lowered as one
                    # and called with a null closure pointer
                    op = self.stateless_lambda_op(lam)
                    if op is None:
                        raise
                    fs.lambda_fns[d['id']] = op
                    return ['/* lambda %s (no captures) lowered as a function of its own */' % name]
        ctx = Ctx(fs)
        if self.is_ref(t):
            fs.refvars.add(d['id'])
            if init is None:
                raise Unsupported('reference without initialiser')
            e = self.addr_of(init, ctx)
            return ctx.pre + ['%s = %s;' % (self.declarator(t, name), e)]
        if init is None:
            return ['%s;' % self.declarator(t, name)]
        e = self.expr(init, ctx)
        return ctx.pre + ['%s = %s;' % (self.declarator(t, name), e)]

    def find_lambda(self, n):
        while n.get('kind') in ('ExprWithCleanups', 'ImplicitCastExpr', 'MaterializeTemporaryExpr',
                                'CXXBindTemporaryExpr', 'CXXConstructExpr') and kids(n):
            if n.get('kind') == 'CXXConstructExpr' and len(kids(n)) != 1:
                break
            n = kids(n)[0]
        return n if n.get('kind') == 'LambdaExpr' else None

    def stateless_lambda_op(self, lam):
        rec = kids(lam)[0]
        if any(k.get('kind') == 'FieldDecl' for k in kids(rec)):
            return None
        op = [k for k in kids(rec) if k.get('kind') == 'CXXMethodDecl' and k.get('name') == 'operator()']
        return op[0] if len(op) == 1 else None

    def check_lambda(self, lam):
        # only: captures by reference (or this), no parameters, body == { return E; }
        rec = kids(lam)[0]
        op = [k for k in kids(rec) if k.get('kind') == 'CXXMethodDecl' and k.get('name') == 'operator()']
        if len(op) != 1:
            raise Unsupported('lambda without single operator()')
        if any(k.get('kind') == 'ParmVarDecl' for k in kids(op[0])):
            raise Unsupported('lambda with parameters')
        for k in kids(rec):
            if k.get('kind') == 'FieldDecl' and not (ty(k).endswith('&') or ty(k).endswith('*')):
                raise Unsupported('lambda captures by value')
        body = [k for k in kids(op[0]) if k.get('kind') == 'CompoundStmt'][0]
        st = kids(body)
        if len(st) != 1 or st[0].get('kind') != 'ReturnStmt':
            raise Unsupported('lambda body is not a single return')
        return kids(st[0])[0]

    # ----------------------------------------------------------- expressions
    def expr(self, n, ctx, discard=False):
        k = n.get('kind')
        meth = getattr(self, 'e_' + k, None)
        if meth is None:
            raise Unsupported('expression kind %s at %s' % (k, self.tu.where(n)))
        if k in ('CallExpr', 'CXXOperatorCallExpr', 'CXXMemberCallExpr', 'ExprWithCleanups',
                 'ConditionalOperator', 'ParenExpr', 'UnaryOperator', 'CStyleCastExpr',
                 'CXXFunctionalCastExpr', 'CXXStaticCastExpr', 'ImplicitCastExpr'):
            return meth(n, ctx, discard)
        return meth(n, ctx)

    def is_lvalue(self, n):
        return n.get('valueCategory') in ('lvalue', 'xvalue')

    def addr_of(self, n, ctx):
        """C expression for the address of the object designated by glvalue n;
        temporaries are materialised into a hoisted local."""
        k = n.get('kind')
        if k in ('ExprWithCleanups', 'ParenExpr') or (k == 'ImplicitCastExpr' and n.get('castKind') == 'NoOp'):
            return self.addr_of(kids(n)[0], ctx)
        if k == 'MaterializeTemporaryExpr':
            inner = kids(n)[0]
            e = self.expr(inner, ctx)
            t = ctx.fn.tmp()
            ctx.pre.append('%s = %s;' % (self.declarator(self.strip_cvref(ty(n)), t), e))
            return '&%s' % t
        if not self.is_lvalue(n):
            raise Unsupported('address of non-lvalue %s' % k)
        e = self.expr(n, ctx)
        m = re.fullmatch(r'\(\*(.*)\)', e)
        if m and self.balanced(m.group(1)):
            return m.group(1)
        return '&%s' % e

    def balanced(self, s):
        d = 0
        for ch in s:
            if ch == '(':
                d += 1
            elif ch == ')':
                d -= 1
                if d < 0:
                    return False
        return d == 0

    def strip_cvref(self, t):
        t = t.strip()
        while t.endswith('&'):
            t = t[:-1].strip()
        if t.startswith('const '):
            t = t[6:]
        return t

    def e_ExprWithCleanups(self, n, ctx, discard=False):
        return self.expr(kids(n)[0], ctx, discard)

    def e_ConstantExpr(self, n, ctx):
        if 'value' in n and re.fullmatch(r'-?\d+', str(n['value'])) and ty(n) in ('int', 'unsigned int'):
            # the compiler's own evaluation of a constant expression (case labels from system enums)
            return '%s%s /* %s */' % (n['value'], 'U' if ty(n) == 'unsigned int' else '', self.const_name(n))
        return self.expr(kids(n)[0], ctx)

    def const_name(self, n):
        k = n
        while kids(k):
            k = kids(k)[0]
        rd = k.get('referencedDecl') or {}
        return re.sub(r'[^A-Za-z0-9_]', '', rd.get('name', ''))

    def e_ParenExpr(self, n, ctx, discard=False):
        return '(%s)' % self.expr(kids(n)[0], ctx, discard)

    def e_IntegerLiteral(self, n, ctx):
        t = ty(n)
        suf = {'int': '', 'unsigned int': 'U', 'long': 'L', 'unsigned long': 'UL',
               'long long': 'LL', 'unsigned long long': 'ULL'}.get(t)
        if suf is None:
            raise Unsupported('integer literal type %s' % t)
        return n['value'] + suf

    def e_CharacterLiteral(self, n, ctx):
        return "((char)%d)" % n['value']

    def e_CXXBoolLiteralExpr(self, n, ctx):
        return '((_Bool)1)' if n['value'] else '((_Bool)0)'

    def e_CXXNullPtrLiteralExpr(self, n, ctx):
        return '((void *)0)'

    def e_GNUNullExpr(self, n, ctx):
        return '((void *)0)'

    def e_StringLiteral(self, n, ctx):
        return n['value']

    def e_PredefinedExpr(self, n, ctx):
        return '""'

    def e_CXXThisExpr(self, n, ctx):
        return 'self'

    def e_DeclRefExpr(self, n, ctx):
        rd = n['referencedDecl']
        k = rd['kind']
        if k == 'EnumConstantDecl':
            en = self.tu.parent[rd['id']]
            return '%s__%s' % (self.enum_cname(en), rd['name'])
        if k in ('ParmVarDecl', 'VarDecl'):
            decl = self.tu.node(rd['id'])
            if rd['id'] in ctx.fn.lambdas:
                raise Unsupported('lambda used other than by direct call')
            if rd['id'] in ctx.fn.refvars:
                return '(*%s)' % rd['name']
            if k == 'VarDecl' and decl is not None and self.is_global(decl):
                return self.global_ref(decl, ctx)
            if n.get('refersToEnclosingVariableOrCapture'):
                # inside an inlined lambda: same spelling as the enclosing function
                pass
            return rd['name']
        if k in ('FunctionDecl', 'CXXMethodDecl'):
            return self.fn_ref(rd)
        raise Unsupported('DeclRefExpr to %s' % k)

    def is_global(self, decl):
        p = self.tu.parent.get(decl['id'])
        return p is not None and p.get('kind') in ('TranslationUnitDecl', 'NamespaceDecl', 'LinkageSpecDecl',
                                                    'CXXRecordDecl', 'ClassTemplateSpecializationDecl')

    def global_ref(self, decl, ctx):
        q = self.tu.qual[decl['id']]
        c = self.cfg.get('globals', {}).get(q)
        if c is None:
            # a const integral with a constant initialiser is its value
            t = ty(decl).strip()
            dd = decl
            if 'init' not in dd:
                for nid, n2 in self.tu.by_id.items():
                    if n2.get('kind') == 'VarDecl' and self.tu.qual.get(nid) == q and 'init' in n2:
                        dd = n2
                        break
            if t.startswith('const ') and 'init' in dd and kids(dd):
                base = t[6:].strip()
                if base in C_BUILTIN or base in C_KNOWN_TYPEDEFS:
                    sub = Ctx(ctx.fn)
                    e = self.expr(kids(dd)[-1], sub)
                    if not sub.pre:
                        return '((%s)%s)' % (self.ctype(base), e)
            raise Unsupported('global %s not modelled' % q)
        return c

    def fn_ref(self, rd):
        decl = self.tu.node(rd['id'])
        d = self.tu.definition(decl)
        q = self.tu.qualname(d)
        ext = self.extern_for(q, d['type']['qualType'])
        if ext:
            if q not in [e['cxx'] for e in self.report['externals']]:
                self.report['externals'].append({'cxx': q, 'c': self.ext_name(ext)})
            return self.ext_name(ext)
        return self.cname_for(d)

    def e_MemberExpr(self, n, ctx):
        base = kids(n)[0]
        name = n.get('name', '')
        md = self.tu.node(n.get('referencedMemberDecl'))
        if md is not None and md.get('kind') in ('CXXMethodDecl', 'CXXConversionDecl', 'CXXDestructorDecl'):
            raise Unsupported('bound member function outside a call')
        b = self.expr(base, ctx)
        # accessing a member needs the record's definition in the generated types
        try:
            bt = ty(base).strip()
            if bt.endswith('*'):
                bt = bt[:-1]
            self.ctype(self.strip_cvref(bt))
        except Unsupported:
            pass
        if md is not None and md.get('kind') == 'FieldDecl' and ty(md).strip().endswith('&'):
            # member of reference type: stored as a pointer, used as the referent
            inner = ('%s->%s' % (b, name)) if n.get('isArrow') else ('%s.%s' % (b, name))
            m2 = re.fullmatch(r'\(\*([A-Za-z_]\w*)\)', b)
            if m2 and not n.get('isArrow'):
                inner = '%s->%s' % (m2.group(1), name)
            return '(*%s)' % inner
        if not name:
            return b if not n.get('isArrow') else '(*%s)' % b   # anonymous struct/union hop
        if n.get('isArrow'):
            if b == 'self' or re.fullmatch(r'[A-Za-z_]\w*', b):
                return '%s->%s' % (b, name)
            return '(%s)->%s' % (b, name)
        m = re.fullmatch(r'\(\*([A-Za-z_]\w*)\)', b)
        if m:
            return '%s->%s' % (m.group(1), name)
        return '%s.%s' % (b, name)

    BINOPS = {'+', '-', '*', '/', '%', '<', '>', '<=', '>=', '==', '!=', '&', '|', '^', '<<', '>>'}

    def e_BinaryOperator(self, n, ctx):
        op = n['opcode']
        l, r = kids(n)
        if op in ('&&', '||'):
            a = self.expr(l, ctx)
            sub = ctx.child()
            b = self.expr(r, sub)
            if not sub.pre:
                return '(%s %s %s)' % (a, op, b)
            t = ctx.fn.tmp()
            ctx.pre.append('_Bool %s = %s;' % (t, a))
            ctx.pre.append('if (%s%s) {' % ('' if op == '&&' else '!', t))
            ctx.pre += self.indent(sub.pre + ['%s = %s;' % (t, b)], 1)
            ctx.pre.append('}')
            return t
        if op == ',':
            a = self.expr(l, ctx, discard=True)
            b = self.expr(r, ctx)
            return '(%s, %s)' % (a, b)
        if op == '=':
            a = self.expr(l, ctx)
            b = self.expr(r, ctx)
            return '(%s = %s)' % (a, b) if not getattr(ctx, 'top', False) else '%s = %s' % (a, b)
        if op in self.BINOPS:
            a = self.expr(l, ctx)
            b = self.expr(r, ctx)
            hook = self.cfg.get('arith_hooks', {}).get(ctx.fn.cname, {}).get(op + '|' + ty(n))
            if hook:
                # declared rule: the operator is printed as a call of a one-line primitive whose body
                # is this very operator and whose contract is enforced on its own
                self.report.setdefault('arith_hooks', [])
                ent = '%s: %s on %s -> %s' % (ctx.fn.cname, op, ty(n), hook)
                if ent not in self.report['arith_hooks']:
                    self.report['arith_hooks'].append(ent)
                return '%s(%s, %s)' % (hook, a, b)
            return '(%s %s %s)' % (a, op, b)
        raise Unsupported('binary operator %s' % op)

    def e_CompoundAssignOperator(self, n, ctx):
        l, r = kids(n)
        a = self.expr(l, ctx)
        b = self.expr(r, ctx)
        return '(%s %s %s)' % (a, n['opcode'], b)

    def e_UnaryOperator(self, n, ctx, discard=False):
        op = n['opcode']
        sub = kids(n)[0]
        if op == '&':
            return self.addr_of(sub, ctx)
        if op == '*':
            e = self.expr(sub, ctx)
            if e.startswith('&') and self.balanced(e[1:]) and re.fullmatch(r'&[\w.>-]+', e):
                return e[1:]
            return '(*%s)' % e
        e = self.expr(sub, ctx)
        if op in ('++', '--'):
            if n.get('isPostfix'):
                return '(%s%s)' % (e, op)
            return '(%s%s)' % (op, e)
        if op in ('-', '+', '!', '~'):
            return '(%s%s)' % (op, e)
        raise Unsupported('unary operator %s' % op)

    def e_ConditionalOperator(self, n, ctx, discard=False):
        c, a, b = kids(n)
        ce = self.expr(c, ctx)
        sa, sb = ctx.child(), ctx.child()
        ae = self.expr(a, sa, discard)
        be = self.expr(b, sb, discard)
        t = ty(n)
        if not sa.pre and not sb.pre:
            if t == 'void':
                return '(%s ? (void)(%s) : (void)(%s))' % (ce, ae or '0', be or '0')
            return '(%s ? %s : %s)' % (ce, ae, be)
        if self.is_lvalue(n):
            raise Unsupported('lvalue conditional needing hoisting')
        if t == 'void':
            ctx.pre.append('if (%s) {' % ce)
            ctx.pre += self.indent(sa.pre + ([ae + ';'] if ae and ae != '((void)0)' else []), 1)
            ctx.pre.append('} else {')
            ctx.pre += self.indent(sb.pre + ([be + ';'] if be and be != '((void)0)' else []), 1)
            ctx.pre.append('}')
            return '((void)0)'
        tmp = ctx.fn.tmp()
        ctx.pre.append('%s;' % self.declarator(self.strip_cvref(t), tmp))
        ctx.pre.append('if (%s) {' % ce)
        ctx.pre += self.indent(sa.pre + ['%s = %s;' % (tmp, ae)], 1)
        ctx.pre.append('} else {')
        ctx.pre += self.indent(sb.pre + ['%s = %s;' % (tmp, be)], 1)
        ctx.pre.append('}')
        return tmp

    def e_ImplicitCastExpr(self, n, ctx, discard=False):
        ck = n.get('castKind')
        sub = kids(n)[0]
        if ck in ('LValueToRValue', 'NoOp', 'FunctionToPointerDecay', 'ConstructorConversion',
                  'UserDefinedConversion', 'ArrayToPointerDecay', 'BuiltinFnToFnPtr'):
            return self.expr(sub, ctx)
        if ck in ('IntegralCast', 'IntegralToBoolean', 'PointerToBoolean', 'BitCast',
                  'IntegralToFloating', 'FloatingToIntegral', 'BooleanToSignedIntegral'):
            return '((%s)%s)' % (self.ctype(ty(n)), self.expr(sub, ctx))
        if ck == 'NullToPointer':
            return '((%s)0)' % self.ctype(ty(n))
        if ck == 'ToVoid':
            e = self.expr(sub, ctx, discard=True)
            return '((void)%s)' % e if e else '((void)0)'
        if ck in ('UncheckedDerivedToBase', 'DerivedToBase'):
            return self.derived_to_base(n, sub, ctx)
        raise Unsupported('implicit cast kind %s' % ck)

    def derived_to_base(self, n, sub, ctx):
        try:
            if self.ctype(ty(n)).replace('const ', '') == self.ctype(ty(sub)).replace('const ', ''):
                return self.expr(sub, ctx)      # both classes are modelled by one C type
        except Unsupported:
            pass
        path = n.get('path') or []
        # a cast whose target is an opaque C struct carries no layout: a plain pointer cast is exact enough,
        # since nothing in the generated text can look inside the target
        try:
            tct = self.ctype(ty(n))
            base = tct.replace('const ', '').replace('*', '').strip()
            if base in self.opaque_records or base in self.opaque_auto:
                e = self.expr(sub, ctx)
                if ty(n).strip().endswith('*'):
                    return '((%s)%s)' % (tct, e)
                return '(*(%s *)&%s)' % (tct, e)
        except Unsupported:
            pass
        if len(path) != 1:
            raise Unsupported('derived-to-base path of length %d' % len(path))
        e = self.expr(sub, ctx)
        # locate base index
        st = self.strip_cvref(ty(sub).rstrip('*').strip())
        rec = self.find_record(st)
        idx = 0
        if rec is not None:
            for i, b in enumerate(rec.get('bases') or []):
                bt = b['type'].get('desugaredQualType') or b['type']['qualType']
                if bt == path[0]['name'] or bt.endswith(path[0]['name']):
                    idx = i
        if ty(sub).strip().endswith('*'):
            return '(&(%s)->__base%d)' % (e, idx)
        m = re.fullmatch(r'\(\*([A-Za-z_]\w*)\)', e)
        if m:
            return '%s->__base%d' % (m.group(1), idx)
        return '%s.__base%d' % (e, idx)

    def explicit_cast(self, n, ctx, discard=False):
        ck = n.get('castKind')
        sub = kids(n)[0]
        if ck == 'ToVoid':
            e = self.expr(sub, ctx, discard=True)
            return '((void)%s)' % e if e and e != '((void)0)' else '((void)0)'
        if ck in ('NoOp', 'IntegralCast', 'IntegralToBoolean', 'BitCast', 'PointerToBoolean',
                  'LValueToRValue', 'PointerToIntegral', 'IntegralToPointer'):
            t = ty(n)
            if self.is_record_type(t):
                return self.expr(sub, ctx)
            return '((%s)%s)' % (self.ctype(t), self.expr(sub, ctx))
        if ck in ('ConstructorConversion',):
            return self.expr(sub, ctx)
        if ck in ('UncheckedDerivedToBase', 'DerivedToBase'):
            return self.derived_to_base(n, sub, ctx)
        if ck == 'BaseToDerived':
            # static_cast<Derived *>(base pointer): the generated structs keep a (single, non-virtual) base as
            # their first member, so the object addresses coincide exactly as in the C++ layout
            path = n.get('path') or []
            t = ty(n).strip()
            if len(path) == 1 and not path[0].get('isVirtual') and t.endswith('*'):
                drec = self.find_record(self.strip_cvref(t[:-1].strip()))
                bases = (drec or {}).get('bases') or []
                if drec is not None and len(bases) >= 1:
                    b0 = bases[0]['type'].get('desugaredQualType') or bases[0]['type']['qualType']
                    if b0 == path[0]['name'] or b0.endswith(path[0]['name']):
                        return '((%s)%s)' % (self.ctype(t), self.expr(sub, ctx))
            raise Unsupported('base-to-derived cast not through the first base')
        raise Unsupported('explicit cast kind %s' % ck)

    def e_CStyleCastExpr(self, n, ctx, discard=False):
        return self.explicit_cast(n, ctx, discard)

    def e_CXXFunctionalCastExpr(self, n, ctx, discard=False):
        return self.explicit_cast(n, ctx, discard)

    def e_CXXStaticCastExpr(self, n, ctx, discard=False):
        return self.explicit_cast(n, ctx, discard)

    def e_CXXConstCastExpr(self, n, ctx):
        sub = kids(n)[0]
        return '((%s)%s)' % (self.ctype(ty(n)), self.expr(sub, ctx))

    def e_CXXReinterpretCastExpr(self, n, ctx):
        sub = kids(n)[0]
        return '((%s)%s)' % (self.ctype(ty(n)), self.expr(sub, ctx))

    def e_MaterializeTemporaryExpr(self, n, ctx):
        # value context (e.g. elidable copy from a temporary): just the value
        return self.expr(kids(n)[0], ctx)

    def e_CXXBindTemporaryExpr(self, n, ctx):
        return self.expr(kids(n)[0], ctx)

    def e_CXXStdInitializerListExpr(self, n, ctx):
        """std::initializer_list<T>{e1..en} whose type is mapped to a C record {T d[K]; unsigned long n;}"""
        ct = self.ctype(ty(n))
        a = kids(n)[0]
        while a.get('kind') in ('MaterializeTemporaryExpr', 'ImplicitCastExpr', 'ExprWithCleanups'):
            a = kids(a)[0]
        if a.get('kind') != 'InitListExpr':
            raise Unsupported('initializer_list not built from a braced list at %s' % self.tu.where(n))
        vals = [self.expr(k, ctx) for k in kids(a)]
        return '((%s){{%s}, %d})' % (ct, ', '.join(vals) if vals else '0', len(vals))

    def e_InitListExpr(self, n, ctx):
        t = ty(n)
        ks = kids(n)
        if not self.is_record_type(t) and len(ks) == 1:
            return self.expr(ks[0], ctx)
        if not self.is_record_type(t) and len(ks) == 0:
            return '((%s)0)' % self.ctype(t)
        if not ks:
            rec = self.find_record(self.strip_cvref(t))
            if rec is not None:
                return self.default_value(rec)
        vals = [self.expr(k, ctx) for k in ks]
        return '((%s){%s})' % (self.ctype(t), ', '.join(vals) if vals else '0')

    def e_CompoundLiteralExpr(self, n, ctx):
        return self.expr(kids(n)[0], ctx)

    def e_ImplicitValueInitExpr(self, n, ctx):
        return self.dummy(self.ctype(ty(n)))

    def e_CXXDefaultArgExpr(self, n, ctx):
        raise Unsupported('default argument (clang does not dump its expression)')

    def e_CXXThrowExpr(self, n, ctx):
        # throw E;  ->  raise; the operand (message construction) is dropped
        self.mark_raise(ctx.fn)
        what = ''
        ks = [k for k in kids(n) if k.get('kind')]
        if not ks:
            if not ctx.fn.handler_exc:
                raise Unsupported('rethrow outside a handler')
            ctx.pre.append('{ verif_raised = %s; %s } /* throw; (rethrow) */' % (ctx.fn.handler_exc[-1], self.raise_exit(ctx.fn)))
            return '((void)0)'
        what = re.sub(r'[^A-Za-z0-9_:<> ]', '', ty(ks[0]))[:60]
        ctx.pre.append('{ verif_raised = %d; %s } /* throw %s; operand dropped */'
                       % (self.exc_kind(self.strip_cvref(ty(ks[0]))), self.raise_exit(ctx.fn), what))
        self.report.setdefault('throws', [])
        self.report['throws'].append('%s: throw %s' % (ctx.fn.cname, what))
        return '((void)0)'

    def e_LambdaExpr(self, n, ctx):
        op = self.stateless_lambda_op(n)
        if op is not None:
            return '&%s' % self.cname_for(op)
        raise Unsupported('lambda in expression position')

    def e_ArraySubscriptExpr(self, n, ctx):
        a, i = kids(n)
        return '%s[%s]' % (self.expr(a, ctx), self.expr(i, ctx))

    def e_UnaryExprOrTypeTraitExpr(self, n, ctx):
        if n.get('name') == 'sizeof' and 'argType' in n:
            return 'sizeof(%s)' % self.ctype(n['argType'].get('desugaredQualType') or n['argType']['qualType'])
        if n.get('name') == 'sizeof' and kids(n):
            sub = kids(n)[0]
            t = ty(sub)
            if re.search(r'\[[^\]\d][^\]]*\]', t):
                raise Unsupported('sizeof applied to a variable-length array (lowered to alloca)')
            sctx = Ctx(ctx.fn)
            e = self.expr(sub, sctx)
            if sctx.pre:
                raise Unsupported('sizeof operand with side effects')
            return 'sizeof(%s)' % e
        raise Unsupported('sizeof/alignof form')

    # ---- construction
    def e_CXXConstructExpr(self, n, ctx):
        t = ty(n)
        ctor_t = n['ctorType']['qualType']
        args = kids(n)
        if '(lambda at ' in t:
            # a capture-less lambda handed to an algorithm: its operator() is lowered as a function and the
            # argument becomes that function's address (the algorithm's model calls it with a null closure)
            lam = self.find_lambda(n)
            op = self.stateless_lambda_op(lam) if lam is not None else None
            if op is not None:
                return '&%s' % self.cname_for(op)
        for pat in self.cfg.get('functor_types', []):
            if re.fullmatch(pat, self.strip_cvref(t)):
                return '0'      # stateless function object: no value to carry
        mapped = self.mapped_scalar(self.strip_cvref(t))
        if mapped is not None:
            if len(args) == 0:
                return '((%s)0)' % mapped
            if len(args) == 1:
                # cfg.move_nulls: {type regex: MACRO}: move construction of a modelled smart pointer from a
                # non-temporary leaves the source null: MACRO(&source)
                for pat, mac in self.cfg.get('move_nulls', {}).items():
                    if re.fullmatch(pat, self.strip_cvref(t)) and '&&' in ctor_t and not self.is_temporary(args[0]) \
                            and re.fullmatch(pat, self.strip_cvref(ty(args[0]))):
                        return '%s(&%s)' % (mac, self.expr(args[0], ctx))
                return '((%s)%s)' % (mapped, self.expr(args[0], ctx))
            raise Unsupported('construction of mapped scalar type %s with %d args' % (t, len(args)))
        for pat, ct in self.typemap.items():
            if re.fullmatch(pat, self.strip_cvref(t)) and self.typemap_is_record(pat):
                # a class modelled by a C struct: default construction is the model's default; copies/moves
                # from temporaries are struct copies
                if len([a for a in args if a.get('kind') != 'CXXDefaultArgExpr']) == 0:
                    # no explicit argument (all defaulted): the model's default value
                    return self.cfg.get('record_default', {}).get(ct, '(%s){0}' % ct)
                if len(args) == 1 and (self.is_temporary(args[0]) or '&&' in ctor_t):
                    return self.expr(args[0], ctx)      # move (incl. `return local;`): the model's struct copy
        rec = self.find_record(self.strip_cvref(t)) or self.find_record_via_typedef(self.strip_cvref(t))
        ext = self.extern_for(self.strip_cvref(t) + '::' + 'ctor|' + ctor_t)
        if ext:
            args = [a for a in args if a.get('kind') != 'CXXDefaultArgExpr']   # defaults are the model's business
            return '%s(%s)' % (ext, ', '.join(self.call_args_for_types(args, self.split_args(ctor_t[ctor_t.index('(') + 1:ctor_t.rindex(')')]), ctx)))
        if rec is None:
            raise Unsupported('construction of unknown record %s' % t)
        q = self.tu.qual[rec['id']]
        # trivial copy / move: value of the argument
        base = q.split('::')[-1]
        if len(args) == 1 and re.fullmatch(r'void \((const )?%s ?&&?\)( noexcept(\(\w+\))?)?' % re.escape(q), ctor_t):
            ctor = self.find_ctor(rec, ctor_t)
            if ctor is None or ctor.get('isImplicit') or ctor.get('explicitlyDefaulted'):
                a = args[0]
                if self.has_modelled_member(rec) and not self.is_temporary(a) and '&&' not in ctor_t:
                    cp = self.cfg.get('record_copy', {}).get(self.record_cname(rec))
                    if cp is None:
                        raise Unsupported('copy of %s from an lvalue needs a deep-copy model (cfg.record_copy)' % q)
                    return '%s(%s)' % (cp, self.addr_of(a, ctx))
                e = self.expr(a, ctx)
                return e
        ctor = self.find_ctor(rec, ctor_t)
        if ctor is None:
            raise Unsupported('constructor %s of %s not found' % (ctor_t, q))
        if ctor.get('isImplicit') or ctor.get('explicitlyDefaulted'):
            if not args:
                return self.default_value(rec)
            raise Unsupported('implicit non-copy constructor %s' % ctor_t)
        cn = self.cname_for(ctor)
        self.note_call(ctor)
        argv = self.call_args(ctor, args, ctx)
        return self.emit_call(ctor, cn, argv, self.record_cname(rec), ctx)

    def e_CXXTemporaryObjectExpr(self, n, ctx):
        return self.e_CXXConstructExpr(n, ctx)

    def is_temporary(self, a):
        while a.get('kind') in ('ImplicitCastExpr', 'ParenExpr', 'ExprWithCleanups'):
            a = kids(a)[0]
        return a.get('kind') == 'MaterializeTemporaryExpr' or a.get('valueCategory') == 'prvalue' \
            or (a.get('kind') == 'DeclRefExpr' and a.get('valueCategory') == 'xvalue')

    def has_modelled_member(self, rec, depth=0):
        rd = self.cfg.get('record_default', {})
        if depth > 6:
            return False
        members = []
        for b in rec.get('bases') or []:
            members.append(b['type'].get('desugaredQualType') or b['type']['qualType'])
        for k in kids(rec):
            if k.get('kind') == 'FieldDecl' and k.get('name'):
                members.append(ty(k))
        for t in members:
            try:
                if self.ctype(t) in rd:
                    return True
            except Unsupported:
                pass
            sub = self.find_record(self.strip_cvref(t))
            if sub is not None and self.has_modelled_member(sub, depth + 1):
                return True
        return False

    def default_value(self, rec):
        """Value of an implicitly default-constructed record: members whose C type has a modelled
        default (cfg.record_default) get it, everything else is zero."""
        cn = self.record_cname(rec)
        rd = self.cfg.get('record_default', {})
        if not self.has_modelled_member(rec):
            return self.dummy(cn)
        parts = []
        for i, b in enumerate(rec.get('bases') or []):
            bt = self.ctype(b['type'].get('desugaredQualType') or b['type']['qualType'])
            if bt in rd:
                parts.append('.__base%d = %s' % (i, rd[bt]))
        for k in kids(rec):
            if k.get('kind') == 'FieldDecl' and k.get('name') and self.ctype(ty(k)) in rd:
                parts.append('.%s = %s' % (k['name'], rd[self.ctype(ty(k))]))
        return '((%s){%s})' % (cn, ', '.join(parts))

    def find_ctor(self, rec, ctor_t):
        for k in kids(rec):
            if k.get('kind') == 'CXXConstructorDecl' and k['type']['qualType'] == ctor_t:
                return self.tu.definition(k) if k.get('mangledName') in self.tu.defs else k
            if k.get('kind') == 'FunctionTemplateDecl':
                for kk in kids(k):
                    if kk.get('kind') == 'CXXConstructorDecl' and kk['type']['qualType'] == ctor_t \
                            and any(x.get('kind') == 'TemplateArgument' for x in kids(kk)):
                        return kk
        return None

    def call_args(self, decl, args, ctx):
        params = [p for p in kids(decl) if p.get('kind') == 'ParmVarDecl']
        return self.call_args_for_types(args, [ty(p) for p in params], ctx, params)

    def call_args_for_types(self, args, ptypes, ctx, params=None):
        out = []
        for i, a in enumerate(args):
            if a.get('kind') == 'CXXDefaultArgExpr':
                # clang does not dump the expression at the call; take it from the parameter declaration
                dflt = None
                if params is not None and i < len(params):
                    pk = [k for k in kids(params[i]) if k.get('kind')]
                    if pk:
                        dflt = pk[-1]
                if dflt is None:
                    raise Unsupported('default argument whose expression is not available')
                a = dflt
            pt = ptypes[i] if i < len(ptypes) else None
            if pt is not None and self.is_ref(pt):
                out.append(self.addr_of(a, ctx))
            else:
                out.append(self.expr(a, ctx))
        return out

    def note_call(self, d):
        m = self.tu.definition(d).get('mangledName')
        if m:
            self.cur_calls.add(m)

    def emit_call(self, decl, cname, argv, ret_ctype, ctx, discard=False):
        call = '%s(%s)' % (cname, ', '.join(argv))
        m = self.tu.definition(decl).get('mangledName') if decl is not None else None
        if m is not None and m in self.may_raise:
            self.mark_raise(ctx.fn)
            if ret_ctype == 'void':
                ctx.pre.append('%s;' % call)
                ctx.pre.append(self.raise_check(ctx.fn))
                return '((void)0)'
            t = ctx.fn.tmp()
            ctx.pre.append('%s %s = %s;' % (ret_ctype, t, call))
            ctx.pre.append(self.raise_check(ctx.fn))
            return t
        return call

    def raise_exit(self, fs):
        """Statement that leaves the current point because an exception is in flight."""
        # stack unwinding: destructors of the live destructible locals run, innermost first, down to the
        # enclosing try (or all of them when the exception leaves the function)
        mark = fs.try_marks[-1] if fs.try_stack else 0
        unwind = ''.join('%s(&%s); ' % (dt, name) for name, dt in reversed(fs.live_dtors[mark:]))
        if unwind:
            # the destructor runs with the exception in flight; the flag is parked meanwhile
            unwind = '{ int __inflight = verif_raised; verif_raised = 0; %sverif_raised = __inflight; } ' % unwind
        if fs.try_stack:
            return '%sgoto %s;' % (unwind, fs.try_stack[-1])
        d = self.dummy(fs.rett)
        return '%sreturn%s;' % (unwind, (' ' + d) if d else '')

    def raise_check(self, fs):
        return 'if (verif_raised) { %s }' % self.raise_exit(fs)

    def exc_kind(self, tname):
        kinds = self.cfg.get('exception_kinds', {})
        for pat, k in kinds.items():
            if re.fullmatch(pat, tname):
                return k
        return 1

    def mark_raise(self, fs):
        self.may_raise.add(fs.decl['mangledName'])

    # ---- calls
    def callee_decl(self, n):
        c = kids(n)[0]
        while c.get('kind') in ('ImplicitCastExpr', 'ParenExpr'):
            c = kids(c)[0]
        if c.get('kind') == 'DeclRefExpr':
            rd = c['referencedDecl']
            return self.tu.node(rd['id']) or rd, None
        if c.get('kind') == 'MemberExpr':
            return self.tu.node(c['referencedMemberDecl']), c
        raise Unsupported('indirect call through %s at %s' % (c.get('kind'), self.tu.where(n)))

    def e_CallExpr(self, n, ctx, discard=False):
        c0 = kids(n)[0]
        cc = c0
        while cc.get('kind') in ('ImplicitCastExpr', 'ParenExpr'):
            cc = kids(cc)[0]
        if cc.get('kind') == 'DeclRefExpr' and cc['referencedDecl']['kind'] in ('ParmVarDecl', 'VarDecl'):
            # call through a function pointer variable
            f = self.expr(c0, ctx)
            args = [self.expr(a, ctx) for a in kids(n)[1:]]
            return '%s(%s)' % (f, ', '.join(args))
        decl, mem = self.callee_decl(n)
        return self.call(decl, None, kids(n)[1:], n, ctx, discard)

    def this_by_value(self, decl):
        d = self.tu.definition(decl)
        ext = self.extern_for(self.tu.qualname(d), d['type']['qualType'])
        return ext is not None and self.ext_byval(ext)

    def e_CXXMemberCallExpr(self, n, ctx, discard=False):
        decl, mem = self.callee_decl(n)
        obj = kids(mem)[0]
        if self.this_by_value(decl):
            this = self.expr(obj, ctx)
            if mem.get('isArrow'):
                this = '(*%s)' % this
            return self.call(decl, this, kids(n)[1:], n, ctx, discard)
        if mem.get('isArrow'):
            this = self.expr(obj, ctx)
        else:
            this = self.addr_of(obj, ctx) if self.is_lvalue(obj) else self.addr_of_temp(obj, ctx)
        return self.call(decl, this, kids(n)[1:], n, ctx, discard)

    def addr_of_temp(self, obj, ctx):
        e = self.expr(obj, ctx)
        t = ctx.fn.tmp()
        ctx.pre.append('%s = %s;' % (self.declarator(self.strip_cvref(ty(obj)), t), e))
        return '&%s' % t

    def e_CXXOperatorCallExpr(self, n, ctx, discard=False):
        decl, _ = self.callee_decl(n)
        args = kids(n)[1:]
        # closure call?
        a0 = args[0] if args else None
        if a0 is not None:
            base = a0
            while base.get('kind') in ('ImplicitCastExpr', 'ParenExpr'):
                base = kids(base)[0]
            if base.get('kind') == 'DeclRefExpr' and base['referencedDecl']['id'] in ctx.fn.lambdas:
                lam = ctx.fn.lambdas[base['referencedDecl']['id']]
                body = self.check_lambda(lam)
                self.report['lambdas_inlined'] += 1
                return '(%s)' % self.expr(body, ctx)
            if base.get('kind') == 'DeclRefExpr' and base['referencedDecl']['id'] in getattr(ctx.fn, 'lambda_fns', {}):
                op = ctx.fn.lambda_fns[base['referencedDecl']['id']]
                return self.call(op, '0', args[1:], n, ctx, discard)
        if decl.get('kind') in ('CXXMethodDecl',):
            # member operator: first argument is the object
            q = self.tu.qualname(self.tu.definition(decl))
            if decl.get('name') == 'operator=' and (decl.get('isImplicit') or decl.get('explicitlyDefaulted')):
                lhs = self.expr(args[0], ctx)
                rhs = self.expr(args[1], ctx)
                return '(%s = %s)' % (lhs, rhs)
            if decl.get('name') == 'operator=' and self.mapped_scalar(self.strip_cvref(ty(args[0]))) is not None:
                # assignment to an object whose class is modelled by a scalar (smart pointers as plain pointers)
                lhs = self.expr(args[0], ctx)
                rhs = self.expr(args[1], ctx)
                return '(%s = (%s)%s)' % (lhs, self.mapped_scalar(self.strip_cvref(ty(args[0]))), rhs)
            obj = args[0]
            if self.this_by_value(decl):
                this = self.expr(obj, ctx)
            else:
                this = self.addr_of(obj, ctx) if self.is_lvalue(obj) else self.addr_of_temp(obj, ctx)
            return self.call(decl, this, args[1:], n, ctx, discard)
        return self.call(decl, None, args, n, ctx, discard)

    _src_cache = {}

    def source_text(self, n):
        """Source characters covered by a single-line node (used only to see a `Base::` qualifier, which
        clang's JSON dump does not carry)."""
        r = n.get('range') or {}
        b, e = r.get('begin') or {}, r.get('end') or {}
        b = b.get('expansionLoc', b)
        e = e.get('expansionLoc', e)
        f, l1, l2 = b.get('_file'), b.get('_line'), e.get('_line')
        if not f or l1 is None or l1 != l2 or 'col' not in b or 'col' not in e:
            return ''
        if f not in self._src_cache:
            try:
                self._src_cache[f] = open(f, errors='replace').read().split('\n')
            except OSError:
                self._src_cache[f] = []
        lines = self._src_cache[f]
        if l1 - 1 >= len(lines):
            return ''
        return lines[l1 - 1][b['col'] - 1:e['col'] - 1 + e.get('tokLen', 0)]

    def call(self, decl, this, args, n, ctx, discard):
        d = self.tu.definition(decl)
        q = self.tu.qualname(d)
        # Base::f(args) on this: a direct call, not virtual dispatch
        qualified_direct = False
        if (d.get('virtual') or decl.get('virtual')) and n.get('kind') == 'CXXMemberCallExpr':
            mem = kids(n)[0]
            if '::' in self.source_text(mem):
                qualified_direct = True
        if q in self.raise_fns:
            self.mark_raise(ctx.fn)
            self.report['raise_sites'] += 0
            ctx.pre.append('{ verif_raised = 1; %s } /* %s(...): throw; message construction dropped */'
                           % (self.raise_exit(ctx.fn), q.split('::')[-1]))
            return '((void)0)'
        if q in self.drop_calls:
            if q not in self.report['dropped']:
                self.report['dropped'].append(q)
            return '((void)0)'
        if q == '__assert_fail':
            self.report['asserts'] += 0
            a0 = self.expr(args[0], ctx)
            return 'verif_assert_fail(%s)' % a0
        if q == '__builtin_unreachable':
            return 'verif_unreachable()'
        vm = None
        if (d.get('virtual') or decl.get('virtual')) and not qualified_direct:
            vm = self.virtual_model.get(q)
            if vm is None:
                raise Unsupported('virtual call to %s needs a model (cfg.virtual)' % q)
            if q not in self.report['virtual_calls']:
                self.report['virtual_calls'].append(q)
        ext = vm or self.extern_for(q, d['type']['qualType'])
        fq = d['type'].get('desugaredQualType') or d['type']['qualType']
        if ext:
            if not vm and q not in [e['cxx'] for e in self.report['externals']]:
                self.report['externals'].append({'cxx': q, 'c': self.ext_name(ext)})
            args = [a for a in args if a.get('kind') != 'CXXDefaultArgExpr']
            if self.ext_byval(ext):
                argv = ([this] if this is not None else []) + [self.expr(a, ctx) for a in args]
            else:
                argv = ([this] if this is not None else []) + self.call_args(d, args, ctx)
            e = '%s(%s)' % (self.ext_name(ext), ', '.join(argv))
            if self.ext_name(ext) in self.cfg.get('extern_may_raise', []):
                # a modelled callee that can throw: same propagation protocol as for lowered callees
                self.mark_raise(ctx.fn)
                rt = None
                try:
                    rt = self.ret_ctype(d)
                except Unsupported:
                    rt = self.cfg.get('extern_ret', {}).get(self.ext_name(ext))
                    if rt is None:
                        raise
                if rt == 'void':
                    ctx.pre.append('%s;' % e)
                    ctx.pre.append(self.raise_check(ctx.fn))
                    e = '((void)0)'
                else:
                    t = ctx.fn.tmp()
                    ctx.pre.append('%s %s = %s;' % (rt, t, e))
                    ctx.pre.append(self.raise_check(ctx.fn))
                    e = t
        else:
            try:
                rett = self.ret_ctype(d)
            except Unsupported as e:
                raise Unsupported('%s (while lowering call to %s : %s)' % (e, q, d['type']['qualType']))
            cn = self.cname_for(d)
            self.note_call(d)
            argv = ([this] if this is not None else []) + self.call_args(d, args, ctx)
            e = self.emit_call(d, cn, argv, rett, ctx, discard)
        # functions returning references yield glvalues (clang tells us; the declared type may be sugar)
        if n.get('valueCategory') in ('lvalue', 'xvalue') or self.returns_ref(fq):
            return '(*%s)' % e
        return e

    def returns_ref(self, fq):
        depth = 0
        for i, ch in enumerate(fq):
            if ch == '<':
                depth += 1
            elif ch == '>':
                depth -= 1
            elif ch == '(' and depth == 0:
                return fq[:i].strip().endswith('&')
        return False

    # ------------------------------------------------------------ emission
    def emit(self):
        out = []
        out.append('/* GENERATED by /verif/tools/cxx2c.py from clang\'s AST of the real translation unit.')
        out.append('   Do not edit; regenerated from /repo on every run. */')
        for c in self.enum_order:
            out.append(self.enums[c])
        for c in self.record_order:
            out.append(self.records[c])
        out.append('')
        order = sorted(self.bodies, key=lambda m: self.fn_cname[m])
        for m in order:
            out.append(self.bodies[m][0] + ';')
        out.append('')
        for m in order:
            out.append(self.bodies[m][1])
        return '\n'.join(out) + '\n'

    def emit_types(self):
        out = ['typedef struct %s %s;' % (c, c) for c in sorted(self.opaque_auto)]
        for c in self.enum_order:
            out.append(self.enums[c])
        # cfg.types_after: {C record: text}: these records are emitted first, each followed by its text
        # (model types that embed a generated record by value and are embedded by later records)
        after = self.cfg.get('types_after', {})
        for c in [c for c in self.record_order if c in after]:
            out.append(self.records[c])
            out.append(after[c])
        for c in [c for c in self.record_order if c not in after]:
            out.append(self.records[c])
        return '\n'.join(out) + '\n'

    def emit_protos(self):
        order = sorted(self.bodies, key=lambda m: self.fn_cname[m])
        return '\n'.join(self.bodies[m][0] + ';' for m in order) + '\n'

    def emit_bodies(self):
        order = sorted(self.bodies, key=lambda m: self.fn_cname[m])
        return '\n'.join(self.bodies[m][1] for m in order) + '\n'

    def check_loop_contracts_used(self):
        for fn, d in self.loop_contracts.items():
            if fn not in self.fn_cname.values():
                raise Unsupported('loop contract given for %s which was not extracted' % fn)


def lower(src, flags, cfg, roots, workdir):
    os.makedirs(workdir, exist_ok=True)
    js = os.path.join(workdir, '%s.%d.ast.json' % (os.path.basename(src), os.getpid()))
    run_clang(src, flags, js)
    tu = TU(js)
    try:
        os.unlink(js)
    except OSError:
        pass
    lw = Lowering(tu, cfg)
    # a root may be a callable that picks a function out of the TU (e.g. a method of an anonymous class)
    roots = [r(tu, lw) if callable(r) else r for r in roots]
    roots = [r for r in roots if r is not None]      # an optional root that does not exist
    lw.run(roots)
    lw.check_loop_contracts_used()
    return lw


if __name__ == '__main__':
    import argparse
    ap = argparse.ArgumentParser()
    ap.add_argument('src')
    ap.add_argument('--root', action='append', default=[])
    ap.add_argument('--cfg')
    ap.add_argument('-I', action='append', default=[])
    a = ap.parse_args()
    cfg = json.load(open(a.cfg)) if a.cfg else {}
    flags = ['-std=c++14'] + ['-I' + i for i in a.I]
    try:
        lw = lower(a.src, flags, cfg, a.root, '/tmp/cxx2c.%d' % os.getpid())
    except Unsupported as e:
        print('UNSUPPORTED: %s' % e, file=sys.stderr)
        sys.exit(2)
    sys.stdout.write(lw.emit())
    json.dump(lw.report, sys.stderr, indent=1)
