// Small query runner for native replays: runs each Zwerg query given on the command line on an
// empty stack with the core vocabulary (the way libzwerg/test-op.cc does) and prints, per query,
// "Q<i> <number of results>: <top of each result>" or "Q<i> EXCEPTION <what>".
#include <iostream>
#include <memory>
#include "op.hh"
#include "init.hh"
#include "value-cst.hh"
#include "test-zw-aux.hh"
#ifdef ZWQ_DW
#include "builtin-dw.hh"
#endif
int main (int argc, char **argv)
{
#ifdef ZWQ_DW
  auto voc = std::make_unique <vocabulary> (*dwgrep_vocabulary_core (), *dwgrep_vocabulary_dw ());
#else
  auto voc = dwgrep_vocabulary_core ();
#endif
  for (int i = 1; i < argc; ++i)
    {
      try
	{
	  auto res = run_query (*voc, std::make_unique <stack> (), argv[i]);
	  std::cout << "Q" << i << " " << res.size () << ":";
	  for (auto &stk: res)
	    {
	      // the whole stack, bottom to top, as <a|b|c>; its top value alone is also what the older callers used
	      std::cout << " <";
	      for (size_t d = stk->size (); d > 0; --d)
		{
		  stk->get (d - 1).show (std::cout);
		  if (d > 1) std::cout << "|";
		}
	      std::cout << ">";
	    }
	  std::cout << "\n";
	}
      catch (std::exception &e)
	{
	  std::cout << "Q" << i << " EXCEPTION " << e.what () << "\n";
	}
    }
  return 0;
}
