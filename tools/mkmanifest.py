#!/usr/bin/env python3
"""Writes /verif/MANIFEST.json from the table below (kept in one place so it stays valid)."""
import json, os
HERE = os.path.dirname(os.path.dirname(os.path.abspath(__file__)))

CHECKS = {
    'C08': dict(
        category='proof',
        text='Every operator of the integer class (six comparisons, unary minus, + - * / %) carries a contract taken '
             'from the property statement (exact result in [-2^63, 2^64-1] or error; nothing else) and CBMC discharges '
             'every obligation for all 2^130 operand/representation combinations, function by function, callers against '
             'callee contracts. The text verified is lowered mechanically on every run from /repo/libzwerg/int.cc via '
             'clang\'s AST. Multiplication/division are split: arithmetic lemmas on the machine operators (cvc5 bv->int), '
             'case analysis on SAT with the operators uninterpreted. Integer literals (parse_int of parser.yy, bison regenerated per run) '
             'are checked BOUNDED (all scanner tokens of <= 6 characters, all 16-digit hex literals, decimal at the range '
             'boundaries in thorough) and reported separately from the proof obligations.',
        design_ref='DESIGN.md section 4 C08',
        note='Trusted: the cxx2c lowering (checked per run by a native differential test against the real object code, not '
             'proved); clang AST == g++ semantics for this file; CBMC/cvc5; throw modelled as flag+return; message '
             'construction dropped; std::stoull by a model for the literal jobs. Not covered: simple_arith_op (try/catch to message).',
        technique='contract-based deductive verification: CBMC code contracts (goto-instrument --dfcc) on C lowered from the real C++ per run',
    ),
    'C16': dict(
        category='other',
        text='Two layers on C text lowered per run from /repo/libzwerg/coverage.cc (std::vector replaced by a small trusted '
             'model). (1) Contracts enforced by goto-instrument --dfcc with loop contracts, unbounded in the number of ranges: '
             'find (both overloads), is_covered, is_overlap are memory safe, keep indices and iterators inside the vector, '
             'have no arithmetic surprises and terminate. (2) BOUNDED stand-in for the functional part, because contract '
             'instrumentation with looping spec functions exhausts memory: for sets of at most N ranges (N=1..4 quick, '
             'larger in thorough) and ALL 64-bit addresses (one symbolic probe address), add/remove/intersect/add_all/'
             'remove_all preserve the representation invariant (sorted, disjoint, non-adjacent, non-empty) and compute '
             'union/difference/intersection pointwise; is_covered/is_overlap agree with the set view; find partitions; '
             'structurally different canonical lists denote different sets; the Zwerg words ?contains, ?overlaps, add, sub, length '
             '(builtin-aset.cc), the constant-operand words aset/add/sub/?contains and value_aset::cmp (value-aset.cc) are lowered '
             'on top and checked the same way. Bounded jobs are never counted as discharged '
             'proof obligations.',
        design_ref='DESIGN.md section 4 C16',
        note='Trusted: cxx2c lowering (native differential test per run); props/c16/vecmodel.{h,c} as the contract of '
             'std::vector<cov_range> (capacity fixed, growth not modelled); precondition start+length does not wrap; '
             'is_covered/is_overlap specified for length>0. Not covered: the words low/high/range/elem, rendering.',
        technique='CBMC code contracts with loop contracts (unbounded safety) + bounded unwinding of the same extracted text against set-semantics postconditions',
    ),
    'C09': dict(
        category='proof',
        text='Slice: constant::operator< and the five operators derived from it, lowered per run from /repo/libzwerg/constant.cc '
             '(lambda inlined, virtual safe_arith/most_enclosing as uninterpreted functions, mpz operator< by its C08 contract). '
             'Over three fully symbolic constants (all values, both representations, any of 4 domain objects or none) CBMC '
             'discharges: irreflexive, asymmetric, transitive, equality transitive, exactly one of < == > holds, every derived '
             'operator agrees with <, arithmetic domains compare by value, unrelated domains never equal. Loop-free, so complete. '
             'Also: comparison_result (builtin-cmp.cc, body of ?lt ?eq ?gt) never fails, answers exactly one of < == >, is '
             'antisymmetric and agrees with compare_stack on one-slot stacks; compare_stack/stack operators (stack.cc) BOUNDED '
             '(<= 2 slots quick, 3 thorough): reflexive, antisymmetric, transitive, equal iff slot-wise equal; value_cst::cmp is '
             'the three-way form of the constant order (proof); value_str::cmp compares bytewise then by length (BOUNDED, strings '
             'of <= 2 bytes quick / 3 thorough, std::string by a model).',
        design_ref='DESIGN.md section 4 C09',
        note='Trusted: cxx2c lowering; uninterpreted-function abstraction of the virtual domain methods plus two stated '
             'assumptions about them (MODEL_OK); domain addresses modelled as elements of one array; virtual value::cmp by a model. '
             'Not covered: cmp of sequences and DIEs (address sets: C16).',
        technique='CBMC code contracts + order-axiom lemmas on C lowered from the real C++ per run',
    ),
    'C12': dict(
        category='other',
        text='BOUNDED slice: the deep-copy mechanism only. stack::stack(stack const&) (stack.cc) and value_seq::value_seq(value_seq const&) with '
             'clone_seq (value-seq.cc) are lowered per run; for stacks/sequences of <= 4 values the copy has equal contents in the same order, shares '
             'no value object and no element vector with its source, consists of distinct objects, and the source is not modified.',
        design_ref='DESIGN.md section 4 C12',
        note='bounded; SLICE: that ops are const with all run-time state in the per-result state area, append-only caches, and the behaviour of '
             'zw_query_execute/zw_result_next under interleaving are NOT covered. value::clone() of the other value classes is modelled, not checked. '
             'Trusted: cxx2c lowering; model of unique_ptr/vector/shared_ptr.',
        technique='bounded unwinding (CBMC) of C lowered from the real C++ per run',
    ),
    'C13': dict(
        category='proof',
        text='Slice: the layout arithmetic that places every operator state in the shared state area (layout::reserve, align, '
             'size). Contract: for power-of-two alignment the location is aligned, lies beyond everything reserved before with '
             'less than one alignment of padding, and the area grows to exactly location+size; client lemma from the contract '
             'alone: two successive reservations are disjoint; add_union never shrinks the area and ends at least as large as every '
             'alternative (loop contract + ghost index, any number of alternatives). All sizes/alignments. Plus parse_esc_num of lexer.ll (flex '
             'regenerated per run): under the scanner rules that call it, no access outside [yytext, yytext+yyleng), no error, '
             'the value of the digits. Plus state_con/state_des of eight operator classes of op.cc (op_origin, op_subx, op_tr_closure, '
             'op_capture, op_bind, op_ifelse, op_format; op_merge bounded to 3 branches) against a ghost construction/destruction '
             'log: own state area, every sub-operator and the upstream are constructed exactly once and destroyed exactly once, in reverse order. Plus the IFELSE case of build_exec (build.cc, the other cases of its switch dropped mechanically): condition, then and else are each laid out in a copy of the enclosing layout on an origin of their own, op_ifelse\'s own state lies beyond the states of EVERY arm and the enclosing layout covers every arm, for all state sizes (loop-free: complete against the assumed contract of the recursive call and the C13 contracts of reserve/add_union).',
        design_ref='DESIGN.md section 4 C13',
        note='SLICE: lazily constructed states (scon_guard users, op_or, overload instances), the root caller of state_con/state_des, '
             'leaks, use-after-free and parser memory are not covered. scon::con/des and sub-operators are modelled by a ghost event log (trusted).',
        technique='CBMC code contracts on C lowered from the real C++ per run',
    ),
    'C04': dict(
        category='proof',
        text='Slice: (1) the three-valued predicate algebra (operator!, &&, || of pred_result) lowered per run from pred_result.hh; '
             'contracts over all 3 / 3x3 values and client lemmas from the contract of ! alone: ?X and !X never both hold, exactly '
             'one holds unless X fails, neither holds when X fails, double negation is the identity. (2) From op.cc: op_assert::next '
             'hands on exactly those upstream stacks, in order and as the very same objects, on which its predicate says yes '
             '(loop contract with a ghost index: unbounded in the number of upstream stacks); pred_not/and/or::result evaluate '
             'their operands on the stack they were given and combine verdicts by the tables. Virtual op::next and pred::result '
             'are modelled. (3) Wiring (build_exec of build.cc, cases SUBX_EVAL and ASSERT, loop-free: complete against the model): a sub-expression context is an op_subx on the current upstream driving exactly the sub-expression built for it on an origin of its own and keeping the number of values the parser recorded; an assertion is an op_assert on the current upstream driven by the one predicate built from the asserted expression in the current scope.',
        design_ref='DESIGN.md section 4 C04',
        note='SLICE ONLY: sub-expression contexts (op_subx, pred_subx_any), let and capture are not covered; the model predicate '
             'does not modify its stack (whether real predicates do is not covered).',
        technique='CBMC code contracts on C lowered from the real C++ per run',
    ),
    'C17': dict(
        category='proof',
        text='Slice: the operands of location-expression operations. dwop_number / dwop_number2 (= locexpr_op_values<0>/<1> of atval.cc with '
             'its three helper lambdas and select<N>; loop-free) are lowered per run and checked for EVERY opcode 0..255 and every pair of stored operand '
             'words against a table written from the DWARF 4 standard and the GNU extension descriptions (not from the code): which operand is a '
             'constant, a DIE, a block, a nested expression or absent; constants carry exactly the stored word, signed for SLEB/fixed-signed '
             'encodings, hexadecimal domain for addresses and decimal otherwise. Counterexamples are replayed on the real dwop_number. '
             'Bounded: ?OP_x on an element of <= 4 operations holds iff some operation has that opcode (pred_op_loclist_elem/op of builtin-dw.cc).',
        design_ref='DESIGN.md section 4 C17',
        note='SLICE: location-list iteration (address ranges, elem/relem/length), offsets and opcodes of operations and all abbreviation words are not '
             'covered. DWARF 5, unassigned and other vendor opcodes unconstrained. Trusted: cxx2c lowering; models of constant/value_cst/producers and of the '
             'dwarf_getlocation_* calls; the hand-written operand table.',
        technique='CBMC on C lowered from the real C++ per run: loop-free function over the full input domain against an independent table',
    ),
    'C20': dict(
        category='other',
        text='Two parts. (A) Integers: <domain>::show of the hex, oct and decimal domains (constant.cc) on top of '
             'operator<<(ostream&, mpz_class) (int.cc), read back by the lowered parse_int (parser.yy): for ALL 2^65 values in hex and '
             'oct (digit loops bounded by the width, fully unwound) and BOUNDED |v| <= 9999 (999999 thorough) in decimal the '
             'rendering reads back as an equal value of the same domain, no error, stream state restored -- except the listed known '
             'finding (0 in hex/oct/bin renders as decimal "0"); the bin domain likewise for all values; positive_int_from_mpz '
             '(dwcst.cc), the code under which named constants are looked up for rendering, under contract. (B) Strings, BOUNDED: dumper::dump_charp lowered per run from /repo/dwgrep/dwgrep.cc (with ios_flag_saver\'s real '
             'constructor/destructor; std::ostream replaced by a small trusted model of insertion, hex, setw, setfill, flags). '
             'For every byte string of length <= 3 (4 in thorough) over all 256 byte values, the brief rendering is consumed by a '
             'transcription of the scanner\'s <STRING> rules as exactly one plain literal that decodes to the same bytes (hence '
             'distinct strings never print alike), the stream\'s formatting state is restored, and the full format writes the bytes '
             'verbatim. Length 3 covers every adjacency of two escapes (longest scanner rule: 4 chars).',
        design_ref='DESIGN.md section 4 C20',
        note='Mixed: hex/oct jobs are unbounded, the rest bounded; the evidence level is "other". Trusted: cxx2c lowering; the '
             'ostream/isprint model; the std::stoull model; the hand transcription of the flex <STRING> rules. Not covered: '
             'the generated named-constant tables, %d %x %o %b, other dump_* functions.',
        technique='bounded unwinding (CBMC) of C lowered from the real C++ per run against a scanner-model postcondition',
    ),
    'C01': dict(
        category='other',
        text='BOUNDED slice: ALT (op_merge::next driven together with the real op_tine::next) and || (op_or::next) lowered per run from '
             '/repo/libzwerg/op.cc. Two branches, each an abstract well-behaved operator chain yielding 0..2 stacks per input (chosen independently '
             'per input and branch); upstream yields 1-2 stacks, reports exhaustion, is fed one more stack, reports exhaustion. ALT: for every input '
             'every branch yields all its results exactly once, a single input is answered left to right, and a stack fed after an earlier '
             'exhaustion is treated like any other (the pre-fix tree failed exactly this; fix 9db1e2e). ||: per input exactly the results of '
             'the first branch that yields anything for that input, whatever earlier inputs chose. Every pull hands on exactly the stack a branch yielded. '
             'Format strings (op_format::next): per input exactly the strings the directive chain produces, numbered 0,1,2,... afresh. Thorough adds ALT with 3 branches. Wiring (build_exec of build.cc, cases CAPTURE, CLOSE_STAR, CLOSE_PLUS: complete; OR, CAT: <= 3 sub-expressions; IFELSE under C13, ALT/SCOPE under C03): every sub-expression is built once, in written order, on an origin of its own reserved in the same layout before it, the operator is built on the current upstream and drives exactly that (origin, sub-expression) pair; a concatenation chains each element on the previous one.',
        design_ref='DESIGN.md section 4 C01',
        note='bounded, never counted as proved. SLICE: the run-time operators of concatenation, [ ], if-then-else, the stringer operators and the build.cc cases FORMAT, SUBX_EVAL, BLOCK, READ, BIND, builtins are not covered (op_subx under C04, '
             'closures under C10). The recursive build_exec call is an assumed contract with a ghost log. Trusted: cxx2c lowering; the handle model of stacks, move-nulls-source for unique_ptr, std::vector/std::all_of/scon models; '
             'the abstract branch operators.',
        technique='bounded unwinding (CBMC, unwinding assertions) of C lowered from the real C++ per run, against logged-yield postconditions',
    ),
    'C02': dict(
        category='other',
        text='BOUNDED slice over a model of libdw: all_dies_iterator (operator++, constructor from a Dwarf*, parent(), ==, with cu_iterator::move) of '
             'dwit.cc -- the iterator behind `raw entry` -- and parent_cache::populate_unit/recursively_populate_unit of cache.cc -- the table behind '
             '`parent` -- are lowered per run. For every forest of <= 5 DIEs (6 thorough) in any number of units and of any shape (childless units, deep '
             'nesting), with arbitrary ascending offsets: the iterator yields every DIE exactly once in section order, its ancestor stack holds exactly '
             'the offsets of the DIE\'s ancestors, parent() is the parent, and after the last DIE it equals end(). For every unit tree shape of <= 5 DIEs '
             '(6 thorough; shapes enumerated, offsets symbolic) the parent table lists every DIE once, in ascending offset order, with its true parent; parent_cache::find (cache and lower_bound modelled), called for any two DIEs '
             
             'of any forest of <= 3 DIEs on one cache, returns each DIE\'s true parent offset; attr_iterator (dwit.hh) over a model of dwarf_getattrs yields exactly a DIE\'s 0..3 attributes in stored order.',
        design_ref='DESIGN.md section 4 C02',
        note='bounded; assumed contract on elfutils (props/c02/dw_model*.h: dwarf_child, dwarf_siblingof, dwarf_offdie, dwarf_dieoffset, dwarf_nextcu on a '
             'well-formed section; error returns not modelled). SLICE: the DIE producers of builtin-dw.cc, attributes, labels/forms, root_cache, '
             'are not covered. Also serves the parent/child agreement of C05 for the raw view, not claimed there.',
        technique='bounded unwinding (CBMC, unwinding assertions) of C lowered from the real C++ per run, against a forest model of libdw',
    ),
    'C03': dict(
        category='proof',
        text='Slice: the data structures and operators that carry a name from its binder to its readers. bindings::bind, bindings::find, '
             'uprefs::find, uprefs::refd_ids and the upref accessors (bindings.cc) and op_bind::next/current, op_read::next, op_upread::next, '
             'op_lex_closure::next (op.cc) are lowered per run. Loop-free functions are checked for all inputs of the model domain (complete): '
             'bind raises exactly when the name is bound in THIS scope and otherwise binds exactly that name to exactly that binder, nothing else '
             'changes, the enclosing scope is untouched; uprefs::find hands out ids 0,1,2,... in order of first reference, one per name, stable '
             'afterwards, none for builtins, under the invariant "ids in use are exactly 0..m_nextid-1"; the binder takes exactly the top value and '
             'keeps it per state location; a read pushes a copy of its OWN binder\'s value; bind-then-read restores the stack; an up-value read '
             'pushes the captured value with its id. BOUNDED: find over chains of <= 3 scopes (innermost wins, nullptr if none), the shadowing/no-leak '
             'law over two scopes, refd_ids over the 4-name table, the uprefs constructor of a nested block (knows exactly the visible names, none referenced, numbering from 0), '
             'op_lex_closure with <= 4 up-values (up-value i = i-th value from the top). build_pred (build.cc): the sub-expression of ?( )/!( ) gets a scope of its own nested in the current one. build_exec (build.cc), cases ALT (<= 3 alternatives) and SCOPE (complete): every alternative / the body is built in a NEW scope object whose enclosing scope is the current one; the other lowered cases (IFELSE, CAPTURE, closures, ||, concatenation: C13/C01 jobs) hand the current scope on. READ (complete): a name resolves through the scope chain first and the enclosing block\'s up-value table second, is wired to exactly that binder / up-value id, and is a compile-time error when neither knows it; BIND (complete): binds exactly this name in the CURRENT scope to the new binder; BLOCK (0..3 up-values): the body is built in a fresh root scope with an up-value table made from the visible scope chain and table, own layout and rendezvous slot; one read per up-value is emitted in front of the closure, up-value 0 nearest to it, each resolved like a direct read (scope chain before enclosing up-values). FORMAT (<= 3 pieces, every mix of literal pieces and directives): every directive is built once, on an origin of its own, in a NEW scope nested in the current one.',
        design_ref='DESIGN.md section 4 C03',
        note='SLICE: names_closure, '
             'op_apply::substate and the grammar are NOT covered; in the build_exec jobs the recursive call, bindings::find, uprefs::find and refd_ids are assumed contracts (the latter three checked in the bind unit). Trusted: cxx2c lowering; identifiers as atoms and std::map as a total table over '
             '4 atoms; stacks as arrays of value identities; throw/assert as an error flag.',
        technique='CBMC on C lowered from the real C++ per run; loop-free functions over full symbolic model inputs, bounded unwinding for the rest',
    ),
    'C10': dict(
        category='other',
        text='BOUNDED in the size of the graph, unbounded in the history. op_tr_closure::next with next_from_op, next_from_upstream, both '
             'send_to_op overloads, state::yield_and_cache and the state constructor are lowered per run from /repo/libzwerg/op.cc; the body '
             'E is an arbitrary relation over 3 (thorough: 4) distinct stacks, upstream an arbitrary source. A hand-written state '
             'invariant INV (seen-set = stacks yielded for the current input; work list inside the seen-set without duplicates; every seen '
             'stack is expanded, pending or being expanded; everything seen is reachable) is shown to hold for the constructed state and to be '
             're-established by one call from ANY state satisfying it; in the same step: the call terminates, yields only stacks '
             'reachable from the current input (E*: or the input), never one already yielded for this input, pulls the next input only after '
             'every reachable stack was yielded and with the seen-set cleared, and reports exhaustion only when upstream is exhausted. '
             'Plus a whole-run check from the constructed state (1 input; thorough 2): result multiset = reachable set, each once.',
        design_ref='DESIGN.md section 4 C10',
        note='bounded (graph of 3/4 stacks), never counted as proved. Trusted: cxx2c lowering; the model of std::set/std::vector/smart pointers '
             '(stacks represented by the identity of their contents); that stack::operator< identifies exactly equal stacks (C09 covers compare_stack, bounded). '
             'Not covered: the parser\'s desugaring of E+, E*, E? and the collapsing of repeated suffixes; closures over real sub-operators.',
        technique='state-invariant induction discharged by CBMC (bounded unwinding with unwinding assertions) on C lowered from the real C++ per run',
    ),
    'C11': dict(
        category='proof',
        text='Slice: the cached type profile of the value stack, which selects the overload of every word. stack::push/pop/drop '
             '(and need/get) lowered per run from /repo/libzwerg/stack.hh with std::vector<std::unique_ptr<value>> replaced by a '
             'small trusted model. Contracts: each operation preserves "byte d of the profile = type code of the slot at depth d '
             'for the top four slots, 0 where the stack is shallower", for any stack depth (only the top eight slots are read); '
             'pop/drop on a too shallow stack raise and change nothing; push/pop/drop change the depth by +1/-1/-n. Also: '
             'overload_pred::result (overload.cc) answers fail when no overload takes the operand types, else the selected '
             'overload\'s verdict (proof, lookup modelled); ?find/?starts/?ends on strings (value-str.cc) agree with the byte-string '
             'model for all haystacks/needles of length <= 3 (BOUNDED, std::string by a model). Bounded: elem / relem on sequences of <= 4 values yield the elements in (reverse) order, numbered 0,1,2,..., as copies.',
        design_ref='DESIGN.md section 4 C11',
        note='SLICE: the other word implementations (sequences, integers, match, elem, add, length, radix words, shuffling), overload '
             'lookup and operand collection are not covered. Trusted: cxx2c lowering; the vector/unique_ptr model (ownership not '
             'modelled); the std::string model; type codes 1..127.',
        technique='CBMC code contracts on C lowered from the real C++ per run',
    ),
    'C05': dict(
        category='other',
        text='BOUNDED slice, raw mode only: "every DIE yielded by child of D has D as parent". child_iterator (dwit.cc) and parent_cache::find '
             '(cache.cc) are lowered per run and run over the libdw forest model of C02: for every forest shape of <= 4 DIEs (22 shapes enumerated, '
             'offsets symbolic) and every DIE D, child_iterator(D) yields exactly the DIEs whose parent is D, each once, in section order, and '
             'parent_cache::find of each of them is D\'s offset; root_cache::is_root (?root, with the real cu_iterator; forests of <= 3 DIEs, fixed offsets) holds exactly for unit DIEs.',
        design_ref='DESIGN.md section 4 C05',
        note='bounded; SLICE: cooked mode (import chains carried by value_die, fetch_parent_die), the root word, unit, entry, and equality of DIEs reached '
             'twice are NOT covered. Assumed contract on elfutils (props/c02/dw_model*.h); cache (std::map) and std::lower_bound modelled.',
        technique='bounded unwinding (CBMC, unwinding assertions) of C lowered from the real C++ per run, against a forest model of libdw',
    ),
    'C07': dict(
        category='proof',
        text='Slice: fix_dwarf_formsdata lowered per run from /repo/libzwerg/atval.cc. Contract: for DW_FORM_data1/2/4 the value '
             'given to the signed path is the sign extension of the N stored bytes whichever way libdw extended them, other forms '
             'pass libdw\'s value through, a libdw error is passed on and nothing is written; all 2^64 values, all form codes. Plus the operand '
             'decoding of location-expression operations (locexpr_op_values, all 256 opcodes, see C17).',
        design_ref='DESIGN.md section 4 C07',
        note='SLICE ONLY (two functions). dwarf_formsdata is an assumed contract (props/c07/libdw_model.h). Form dispatch, '
             'type-encoding lookup, location-list iteration, strings, references: not covered.',
        technique='CBMC code contracts on C lowered from the real C++ per run',
    ),
}

NOT_APPLICABLE = {
    'C01': 'Stream semantics is a whole-history property over a graph of virtual C++ operators; op_merge/op_tine/op_or use std::all_of with parameterised lambdas and range-for over unique_ptr vectors, outside the clang-AST lowering; no single-call contract expresses "union over inputs". (Single operators op_assert/op_subx are checked under C04.)',
    'C02': 'The iterators are thin wrappers over libdw; the property is about libdw\'s decoding of arbitrary ELF/DWARF files. No contract on an external binary-format decoder is within reach of CBMC.',
    'C03': 'Lexical scoping is decided jointly by bison grammar actions, bindings, build_exec and run-time operator state (std::map, shared_ptr graphs); relational over programs, not a per-function contract.',
    'C05': 'Navigation laws quantify over DIEs produced by libdw and cached in std::map/std::vector of C++ values.',
    'C06': 'Cooked view = libdw traversal plus C++ producers with seen-lists. attribute_producer::next lowers, but a bounded run over even 2 DIEs x 2 attributes did not get through CBMC\'s SSA conversion in 5 minutes, and concretely enumerated configurations cost 10 s each (34 113 of them); dropped (DESIGN.md section 5). attr_iterator itself is checked under C02.',
    'C10': 'Termination and exactly-once of * and + rest on std::set with a comparator over polymorphic stacks and on a work-list; liveness over an unbounded history. (The comparator\'s consistency is checked under C09.)',
    'C12': 'Purity across executions is a history property over the compiled operator graph and shared caches.',
    'C14': 'The contract-sized pieces are covered under C08 (parse_int) and C13 (parse_esc_num); "never crashes/hangs/throws across the C boundary for any byte string" lives in the flex/bison-generated scanner and parser and the API\'s exception translation, which the lowering does not reach.',
    'C15': 'Equivalences between outputs of the flex/bison front end and tree::simplify on std::vector<tree>; relational over programs.',
    'C17': 'Location lists and abbreviations come from libdw; the one table (opcode -> operand class) would be a restated table.',
    'C18': 'Symbol iteration is libdwfl/libelf; per-machine domains are generated tables.',
    'C19': 'Exit status, stdout/stderr and option handling are process-level behaviour of main() with getopt, iostreams and exceptions.',
}

ALL = ['C%02d' % i for i in range(1, 21)]


def main():
    checks = []
    for pid in sorted(CHECKS):
        c = CHECKS[pid]
        checks.append({
            'property_id': pid,
            'quick_cmd': './check %s --tier quick' % pid,
            'thorough_cmd': './check %s --tier thorough' % pid,
            'evidence_file': '/verif/evidence/%s.json' % pid,
            'replay_cmd_template': './check %s --replay {path}' % pid,
            'engine': 'cbmc-contracts',
            'level_claimed': {'category': c['category'], 'text': c['text'], 'design_ref': c['design_ref']},
            'level_note': c['note'],
            'technique': c['technique'],
        })
    na = []
    for pid in ALL:
        if pid in CHECKS:
            continue
        na.append({'property_id': pid, 'reason': NOT_APPLICABLE.get(pid, 'no check built yet with this technique; see DESIGN.md section 5')})
    m = {
        'version': 1,
        'setup_cmd': 'python3 tools/setup_check.py',
        'hooks': {
            'guard': 'DWGREP_VERIF_CONTRACTS',
            'enable': 'none needed: contracts bind to text lowered from /repo on every run; no source hooks are compiled into the repository',
            'baseline_off_cmd': 'cmake --build /repo/_build -j16 ; ctest --test-dir /repo/_build -j8 --timeout 900',
            'source_commits': [],
            'add_only': True,
        },
        'engines': [{
            'name': 'cbmc-contracts', 'path': 'tools/',
            'serves_properties': sorted(CHECKS),
            'kind_free_text': 'cxx2c.py lowers selected C++ functions of /repo to C from clang\'s JSON AST on every run; '
                              'runner.py/vlib.py drive goto-cc, goto-instrument --dfcc (enforce/replace contracts, loop '
                              'contracts) and cbmc (SAT, cvc5 bv->int), classify pass/violation/undecided, replay '
                              'counterexamples natively against the real object code and write evidence.',
        }],
        'checks': checks,
        'not_applicable': na,
        'notes': 'Exit codes: 0 pass, 1 VIOLATION, 2 UNDECIDED (tool limit/timeout/extraction broke; never counted as pass). '
                 'Fix commits in /repo: see known_findings.json.',
    }
    with open(os.path.join(HERE, 'MANIFEST.json'), 'w') as f:
        json.dump(m, f, indent=1)
    print('MANIFEST.json: %d checks, %d not applicable' % (len(checks), len(na)))


if __name__ == '__main__':
    main()
