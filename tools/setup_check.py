#!/usr/bin/env python3
"""MANIFEST.setup_cmd: nothing to build ahead of time (every check rebuilds from /repo's working
tree); verify that the tools the checks need are present and make the scratch dirs."""
import os, shutil, sys
need = ['cbmc', 'goto-cc', 'goto-instrument', 'clang++', 'g++', 'gcc', 'cvc5', 'python3']
missing = [t for t in need if shutil.which(t) is None]
here = os.path.dirname(os.path.dirname(os.path.abspath(__file__)))
for d in ('build', 'evidence', 'out'):
    os.makedirs(os.path.join(here, d), exist_ok=True)
if missing:
    print('missing tools: ' + ' '.join(missing))
    sys.exit(1)
print('setup ok')
