#!/bin/sh
# cvc5 with bit-vectors solved as integers: the only configuration found that discharges the
# nonlinear 64-bit multiply/divide lemmas (PROBELOG.md rows 15-20).
exec cvc5 --solve-bv-as-int=sum "$@"
