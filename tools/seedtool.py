#!/usr/bin/env python3
"""Handling of seeded defects written by independent sub-agents.

  confirm <worktree> <i> <demo-cmd>   apply seeded/<i>/patch.diff in the scratch worktree, rebuild, run the 7
                                      baseline ctest entries, run the demo (must fail), revert, rebuild, run the
                                      demo (must pass).  Prints a JSON record.
  import  <worktree> <i> <SEED-ID> <PROPERTY> <demo-cmd> <confirm-json>
                                      copy patch, demonstration and notes to /verif/seeded/<SEED-ID>/ + meta.json
  run     <SEED-ID> [tier]            git -C /repo apply the patch, run ./check <PROPERTY>, always revert
                                      (git -C /repo checkout -- .), record the outcome in meta.json
"""
import json, os, shutil, subprocess, sys, time

VERIF = os.path.dirname(os.path.dirname(os.path.abspath(__file__)))
REPO = '/repo'
BASE7 = ['TestInt', 'TestParser', 'TestDw', 'TestOp', 'TestValueCst', 'TestBuiltinCmp', 'TestBuiltinCoverage']


def sh(cmd, cwd=None, timeout=3600):
    p = subprocess.run(cmd, shell=True, cwd=cwd, stdout=subprocess.PIPE, stderr=subprocess.STDOUT, text=True, timeout=timeout)
    return p.returncode, p.stdout


def build_and_test(wt):
    sh('cmake --build _build -j8 -- -k 0', cwd=wt)
    rc, out = sh('ctest --test-dir _build -j4', cwd=wt)
    passed = [t for t in BASE7 if (' %s ' % t) in out and 'Passed' in [l for l in out.split('\n') if (' %s ' % t) in l][0]]
    return passed, out


def confirm(wt, i, demo):
    rec = {'worktree': wt, 'seed': i, 'demo_cmd': demo}
    sh('git checkout -- .', cwd=wt)
    rc, out = sh('git apply seeded/%s/patch.diff' % i, cwd=wt)
    rec['patch_applies'] = rc == 0
    passed, _ = build_and_test(wt)
    rec['tests_pass_with_change'] = sorted(passed) == sorted(BASE7)
    rc, out = sh(demo, cwd=wt)
    rec['demo_rc_with_change'] = rc
    rec['demo_tail_with_change'] = out.strip().split('\n')[-3:]
    sh('git checkout -- .', cwd=wt)
    passed, _ = build_and_test(wt)
    rec['tests_pass_without_change'] = sorted(passed) == sorted(BASE7)
    rc, out = sh(demo, cwd=wt)
    rec['demo_rc_without_change'] = rc
    rec['demo_tail_without_change'] = out.strip().split('\n')[-2:]
    rec['confirmed'] = bool(rec['patch_applies'] and rec['tests_pass_with_change'] and rec['demo_rc_with_change'] != 0
                            and rec['demo_rc_without_change'] == 0)
    return rec


def do_import(wt, i, sid, prop, demo, conf):
    dst = os.path.join(VERIF, 'seeded', sid)
    os.makedirs(dst, exist_ok=True)
    src = os.path.join(wt, 'seeded', str(i))
    for f in os.listdir(src):
        shutil.copy(os.path.join(src, f), os.path.join(dst, f))
    # shared helper files of the agent, if any
    for f in os.listdir(os.path.join(wt, 'seeded')):
        p = os.path.join(wt, 'seeded', f)
        if os.path.isfile(p):
            os.makedirs(os.path.join(dst, 'shared'), exist_ok=True)
            shutil.copy(p, os.path.join(dst, 'shared', f))
    notes = ''
    if os.path.exists(os.path.join(dst, 'notes.txt')):
        notes = open(os.path.join(dst, 'notes.txt')).read()
    meta = {'seed_id': sid, 'property': prop, 'origin': 'independent sub-agent given only the property text and a scratch worktree',
            'needs_to_manifest': notes[:1500], 'demo_cmd_in_worktree': demo, 'confirmation': conf, 'check_runs': []}
    json.dump(meta, open(os.path.join(dst, 'meta.json'), 'w'), indent=1)
    return dst


def run(sid, tier='quick', prop_override=None):
    d = os.path.join(VERIF, 'seeded', sid)
    meta = json.load(open(os.path.join(d, 'meta.json')))
    prop = prop_override or meta['property']
    rc, out = sh('git status --porcelain --untracked-files=no', cwd=REPO)
    if out.strip():
        print('refusing: /repo has local modifications:\n' + out)
        return 2
    rec = {'tier': tier, 'at': time.strftime('%Y-%m-%d %H:%M:%S'), 'check': prop}
    # the check rewrites evidence/<prop>.json; a run against a seeded change must not replace the
    # evidence of the unchanged tree
    ev = os.path.join(VERIF, 'evidence', prop + '.json')
    saved = open(ev).read() if os.path.exists(ev) else None
    try:
        rc, out = sh('git apply %s' % os.path.join(d, 'patch.diff'), cwd=REPO)
        if rc != 0:
            rec['error'] = 'patch does not apply: ' + out[-300:]
        else:
            t0 = time.time()
            rc, out = sh('./check %s --tier %s' % (prop, tier), cwd=VERIF, timeout=7200)
            rec.update({'check_rc': rc, 'wall_s': round(time.time() - t0, 1),
                        'output': [l for l in out.split('\n') if l.strip()][-8:],
                        'detected': rc == 1})
    finally:
        sh('git checkout -- .', cwd=REPO)
        # native replays refresh /repo/_build from the (patched) tree; bring it back to the clean tree
        if os.path.isdir(os.path.join(REPO, '_build')):
            sh('cmake --build _build -j16 -- -k 0', cwd=REPO)
        if saved is not None:
            open(ev, 'w').write(saved)
    meta.setdefault('check_runs', []).append(rec)
    json.dump(meta, open(os.path.join(d, 'meta.json'), 'w'), indent=1)
    print(json.dumps(rec, indent=1))
    return 0


if __name__ == '__main__':
    a = sys.argv[1:]
    if a[0] == 'confirm':
        print(json.dumps(confirm(a[1], a[2], a[3]), indent=1))
    elif a[0] == 'import':
        print(do_import(a[1], a[2], a[3], a[4], a[5], json.loads(open(a[6]).read())))
    elif a[0] == 'run':
        sys.exit(run(a[1], a[2] if len(a) > 2 else 'quick', a[3] if len(a) > 3 else None))
